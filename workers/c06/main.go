// C06: bulk writes (make, chop, cache, tar -i) are complete when they report success.
package main

import (
	"bytes"
	"context"
	"fmt"
	"io"
	"net/http"
	"net/http/httptest"
	"net/url"
	"os"
	"os/exec"
	"path/filepath"
	"strings"
	"sync"
	"sync/atomic"
	"syscall"
	"time"

	"github.com/folbricht/desync"

	"verif/dsu"
	"verif/fakes"
	"verif/harness"
	"verif/oracle"
)

var cli string

const slots = 48 // fault slots per scenario: slot 0 = fault free, 1.. = (op, k) enumeration

func main() {
	harness.Main(&harness.Config{
		Prop:  "C06",
		Level: "fault_enumeration",
		Rule: "Scenarios (PRNG: operation in {ChopFile, ChopFile with stale index, Copy, ChunkStream}, input with heavy chunk duplication or not, N in {1,2,4,16}, schedule perturbation) x fault slots: slot 0 runs fault free and counts the HasChunk/StoreChunk/GetChunk calls, " +
			"slots 1..47 fail the k-th call of one operation kind for k = 1,2,3,... (every k on the small inputs of the quick tier) or a random subset of calls. CLI leg: make -s / chop / cache / tar -i against an HTTP chunk server whose k-th HEAD/PUT/GET answers 403. " +
			"Oracle: success => every ID of the index is held, valid, by the target (bytes hash to the ID) and a fresh index tiles the input with correct IDs; any delivered fault => error / non-zero exit. " +
			"Non-trivial: a run in which a fault was actually delivered, or a fault-free run with duplicate chunks and N>=2; distinct by (op, N, fault op, k bucket, duplication)",
		Assumptions:     []string{"target store is an in-memory WriteStore with a call log (library legs) or desync's own HTTP handler over it (CLI legs)", "reference chunker for expected indexes"},
		Cases:           cases,
		Run:             run,
		ParentSetup:     parentSetup,
		Setup:           func(c *harness.Ctx) { cli = os.Getenv("VERIF_CLI") },
		SpinIsViolation: true,
		MinNonTrivial:   20,
		RaceIsViolation: true,
		CaseTimeout:     90 * time.Second,
	})
}

func cases(tier string) int {
	if tier == "thorough" {
		return 4000 * slots
	}
	return 500 * slots
}

func parentSetup(tier string, seed int64, work string) ([]string, error) {
	p, err := harness.BuildCLI(work, "desync-verif", "verif", false)
	if err != nil {
		return nil, err
	}
	sh, err := harness.BuildHelper(work, "shim", "./helpers/shim", "verif")
	if err != nil {
		return nil, err
	}
	return []string{"VERIF_CLI=" + p, "VERIF_SHIM=" + sh}, nil
}

type scenario struct {
	op     string
	blob   []byte
	sz     dsu.Sizes
	n      int
	dup    bool
	ymode  int
	idx    desync.Index
	staleK int // index of the chunk whose file content was changed after indexing (-1: none)
}

func makeScenario(seed int64, s int, tier string) scenario {
	rng := harness.CaseRng(seed^0x5eed, s)
	var sc scenario
	sc.op = []string{"chop", "chop", "copy", "chunkstream", "chop-stale", "cli", "s3", "sftp", "cli-local"}[rng.Intn(9)]
	sc.sz = dsu.SmallSizes[rng.Intn(3)]
	sc.n = []int{1, 2, 4, 16}[rng.Intn(4)]
	sc.dup = rng.Intn(2) == 0
	sc.ymode = rng.Intn(3)
	maxChunks := 14
	if tier == "thorough" {
		maxChunks = 120
	}
	size := int(sc.sz.Avg) * (2 + rng.Intn(maxChunks))
	if sc.dup {
		sc.blob = dsu.MakeBlob(rng, "repetitive", size, sc.sz)
	} else {
		sc.blob = dsu.MakeBlob(rng, "random", size, sc.sz)
	}
	if sc.op == "cli" || sc.op == "cli-local" {
		// the CLI takes sizes in KiB
		sc.sz = dsu.Sizes{Min: 1024, Avg: 2048, Max: 4096}
		size = 2048 * (2 + rng.Intn(maxChunks))
		if sc.dup {
			sc.blob = dsu.MakeBlob(rng, "repetitive", size, sc.sz)
		} else {
			sc.blob = dsu.MakeBlob(rng, "random", size, sc.sz)
		}
	}
	if s%3 == 1 && len(sc.blob) > 3*int(sc.sz.Max) {
		// a run of zeros that holds whole chunks of the maximum size (sparse images): chunks like any other as far as
		// the target store is concerned
		at := int(sc.sz.Max) + (s*131)%(len(sc.blob)-3*int(sc.sz.Max)+1)
		for j := at; j < at+2*int(sc.sz.Max)+int(sc.sz.Max)/3 && j < len(sc.blob); j++ {
			sc.blob[j] = 0
		}
	}
	sc.idx = dsu.RefIndex(sc.blob, sc.sz)
	sc.staleK = -1
	if sc.op == "chop-stale" && len(sc.idx.Chunks) > 0 {
		sc.staleK = rng.Intn(len(sc.idx.Chunks))
	}
	return sc
}

func run(c *harness.Ctx, i int) {
	desync.Digest = desync.SHA512256{}
	s, slot := i/slots, i%slots
	if slot == 1 && (s == 5 || (c.Tier == "thorough" && s%400 == 5)) {
		hugeChunk(c, s)
		return
	}
	sc := makeScenario(c.Seed, s, c.Tier)
	if sc.op == "cli" {
		runCLI(c, sc, s, slot)
		return
	}
	if sc.op == "s3" {
		runS3(c, sc, s, slot)
		return
	}
	if sc.op == "sftp" {
		runSFTP(c, sc, s, slot)
		return
	}
	if sc.op == "cli-local" {
		runCLILocal(c, sc, s, slot)
		return
	}
	// fault plan of the slot
	fop := ""
	var fk int64
	subset := uint64(0)
	switch {
	case slot == 0:
	case slot <= 40:
		ops := []string{"has", "store", "get"}
		if sc.op != "copy" {
			ops = []string{"has", "store"}
		}
		fop = ops[(slot-1)%len(ops)]
		fk = int64((slot-1)/len(ops) + 1)
	case slot >= 45:
		// no store fault, but the operation is cancelled at a progress event / store call (the last one, the one before
		// it, a random one): a cancelled operation may still report success only if everything is in the store
		fop = "cancel"
		nc := int64(len(sc.idx.Chunks))
		switch slot {
		case 45:
			fk = nc
		case 46:
			fk = nc - 1
		default:
			fk = 1 + c.Rng.Int63n(nc+1)
		}
	default:
		fop = "subset"
		subset = uint64(c.Rng.Int63()) | 1
	}
	if sc.op == "chunkstream" && slot == 44 {
		// no fault at all, but one store call that takes its time (a retried request, a slow answer) while the other
		// workers carry on, on a stream many times the size of the chunker's read-ahead: what a stalled worker holds
		// must still be the chunk it was given when it gets to store it
		fop, subset = "stall", 0
		fk = 1 + c.Rng.Int63n(6)
		if sc.n < 2 {
			sc.n = 2 + c.Rng.Intn(6)
		}
		sc.blob = dsu.MakeBlob(c.Rng, "random", int(sc.sz.Max)*(40+c.Rng.Intn(60)), sc.sz)
		sc.idx = dsu.RefIndex(sc.blob, sc.sz)
	}
	ctx, cancel := context.WithCancel(context.Background())
	defer cancel()
	var cancelled int64
	cancelAt := func(k int64) {
		if fop == "cancel" && k == fk {
			atomic.StoreInt64(&cancelled, 1)
			cancel()
		}
	}
	c.Info("scenario=%d op=%s chunks=%d sizes=%s n=%d dup=%v ymode=%d fault=%s@%d", s, sc.op, len(sc.idx.Chunks), sc.sz, sc.n, sc.dup, sc.ymode, fop, fk)
	c.LogInfo()

	dst := dsu.NewMemStore("dst")
	var delivered int64
	dst.Fault = func(op string, n int64, id desync.ChunkID) error {
		hit := false
		switch {
		case fop == "subset":
			hit = (subset>>(uint(n)%60))&1 == 1 && mix(subset^uint64(n)^uint64(op[0]))%4 == 0
		case fop == op && n == fk:
			hit = true
		}
		if hit {
			atomic.AddInt64(&delivered, 1)
			return dsu.ErrInjected{Msg: fmt.Sprintf("%s#%d", op, n)}
		}
		return nil
	}
	dst.Gate = func(op string, id desync.ChunkID, n int64) {
		if sc.op == "chunkstream" && op == "store" {
			cancelAt(n)
		}
		if n%5 == 0 {
			time.Sleep(time.Duration(n%4) * 20 * time.Microsecond)
		}
		if fop == "stall" && n == fk && (op == "has" || op == "store") {
			time.Sleep(25 * time.Millisecond)
		}
	}
	src := dsu.NewMemStore("src")
	if sc.op == "copy" {
		for _, ch := range sc.idx.Chunks {
			src.PutRaw(ch.ID, sc.blob[ch.Start:ch.Start+ch.Size])
		}
		if fop == "get" {
			dst.Fault = nil
			src.Fault = func(op string, n int64, id desync.ChunkID) error {
				if op == "get" && n == fk {
					atomic.AddInt64(&delivered, 1)
					return dsu.ErrInjected{Msg: fmt.Sprintf("src get#%d", n)}
				}
				return nil
			}
		}
		// some chunks already in the target
		rng := harness.CaseRng(c.Seed, s)
		for _, ch := range sc.idx.Chunks {
			if rng.Intn(4) == 0 {
				dst.PutRaw(ch.ID, sc.blob[ch.Start:ch.Start+ch.Size])
			}
		}
	}
	y := dsu.NewYielder(sc.ymode, uint64(c.Rng.Int63()))
	y.Install()
	defer y.Remove()

	dir := c.CaseDir()
	file := filepath.Join(dir, "blob")
	fileData := sc.blob
	if sc.staleK >= 0 {
		fileData = append([]byte(nil), sc.blob...)
		ch := sc.idx.Chunks[sc.staleK]
		fileData[ch.Start+ch.Size/2] ^= 0x40
	}
	var err error
	var produced *desync.Index
	switch sc.op {
	case "chop", "chop-stale":
		dsu.WriteFile(file, fileData)
		err = desync.ChopFile(ctx, file, sc.idx.Chunks, dst, sc.n, &dsu.CountPB{OnAdd: cancelAt})
	case "copy":
		var ids []desync.ChunkID
		for _, ch := range sc.idx.Chunks {
			ids = append(ids, ch.ID)
		}
		err = desync.Copy(ctx, ids, src, dst, sc.n, &dsu.CountPB{OnAdd: cancelAt})
	case "chunkstream":
		var ch desync.Chunker
		ch, err = desync.NewChunker(bytes.NewReader(sc.blob), sc.sz.Min, sc.sz.Avg, sc.sz.Max)
		dsu.Must(err)
		var idx desync.Index
		idx, err = desync.ChunkStream(ctx, ch, dst, sc.n)
		if err == nil {
			produced = &idx
		}
	}
	y.Remove()
	nd := atomic.LoadInt64(&delivered)
	c.Count("runs", 1)
	c.Count("faults_delivered", nd)
	if err == nil {
		if nd > 0 {
			c.Violation("success-despite-fault:"+sc.op, "%d store operation(s) failed (%s@%d) yet %s reported success", nd, fop, fk, sc.op)
			return
		}
		if sc.staleK >= 0 {
			c.Violation("stale-index-accepted", "ChopFile reported success although the file content of chunk %d does not match the index", sc.staleK)
			// fall through to see what is in the store
		}
		idx := sc.idx
		if produced != nil {
			idx = *produced
			// fresh index describes the input
			ref := dsu.RefIndex(sc.blob, sc.sz)
			if len(idx.Chunks) != len(ref.Chunks) || idx.Length() != int64(len(sc.blob)) {
				c.Violation("fresh-index-wrong", "index has %d chunks / %d bytes, input has %d chunks / %d bytes", len(idx.Chunks), idx.Length(), len(ref.Chunks), len(sc.blob))
				return
			}
			for k := range idx.Chunks {
				if idx.Chunks[k] != ref.Chunks[k] {
					c.Violation("fresh-index-wrong", "chunk %d of the produced index differs from the reference", k)
					return
				}
			}
		}
		for k, ch := range idx.Chunks {
			b, ok := dst.Holds(ch.ID)
			if !ok {
				c.Violation("missing-after-success:"+sc.op, "%s reported success but chunk %d (%x) is not in the target store", sc.op, k, ch.ID[:4])
				return
			}
			if dsu.Sum(b) != ch.ID {
				c.Violation("invalid-after-success:"+sc.op, "%s reported success but the target holds bytes under %x that do not hash to it", sc.op, ch.ID[:4])
				return
			}
		}
	} else if nd == 0 && sc.staleK < 0 && atomic.LoadInt64(&cancelled) == 0 {
		c.Violation("failed-without-fault:"+sc.op, "%s failed although no fault was injected: %v", sc.op, err)
		return
	}
	kb := "0"
	if fk > 0 {
		kb = fmt.Sprint((fk + 3) / 4)
	}
	if atomic.LoadInt64(&cancelled) == 1 {
		c.Count("cancellations_delivered", 1)
	}
	if nd > 0 || (slot == 0 && sc.dup && sc.n >= 2) || sc.staleK >= 0 || atomic.LoadInt64(&cancelled) == 1 {
		c.NonTrivial("%s|n%d|%s|k%s|dup%v|y%d", sc.op, sc.n, fop, kb, sc.dup, sc.ymode)
	}
	c.Sample(map[string]interface{}{"op": sc.op, "chunks": len(sc.idx.Chunks), "n": sc.n, "dup": sc.dup, "fault": fmt.Sprintf("%s@%d", fop, fk), "delivered": nd, "result_error": fmt.Sprint(err),
		"store_calls": map[string]int64{"has": dst.CountOf("has"), "store": dst.CountOf("store"), "get": src.CountOf("get")}})
}

// runCLILocal: make / chop / cache / tar -i into a LOCAL directory store, compressed or (through the config file)
// uncompressed, on an ordinary directory or on a file system that runs full partway (a small tmpfs): the write errors
// then come from the kernel, below anything a wrapper store could inject.
func runCLILocal(c *harness.Ctx, sc scenario, s, slot int) {
	if slot >= 12 {
		c.Info("scenario=%d op=cli-local slot=%d skipped", s, slot)
		return
	}
	rng := harness.CaseRng(c.Seed^0x10ca1, s*16+slot)
	cmdName := []string{"make", "chop", "cache", "tar"}[slot%4]
	uncompressed := (slot/4)%2 == 1
	full := slot >= 8
	dir := c.CaseDir()
	target := filepath.Join(dir, "target")
	os.MkdirAll(target, 0755)
	pages := 0
	if full {
		// room for roughly a third to two thirds of the chunks
		pages = 1 + len(sc.idx.Chunks)/3 + rng.Intn(len(sc.idx.Chunks)/3+1)
		if err := syscall.Mount("tmpfs", target, "tmpfs", 0, fmt.Sprintf("size=%dk", 4*pages)); err != nil {
			c.Count("cli_local_skipped_no_mount", 1)
			return
		}
		defer syscall.Unmount(target, syscall.MNT_DETACH)
	}
	c.Info("scenario=%d op=cli-local:%s chunks=%d n=%d uncompressed=%v target-fs-pages=%d", s, cmdName, len(sc.idx.Chunks), sc.n, uncompressed, pages)
	c.LogInfo()
	cfgFile := filepath.Join(dir, "config.json")
	dsu.WriteFile(cfgFile, []byte(fmt.Sprintf(`{"store-options": {%q: {"uncompressed": %v}}}`, target, uncompressed)))
	file := filepath.Join(dir, "blob")
	dsu.WriteFile(file, sc.blob)
	idxFile := filepath.Join(dir, "blob.caibx")
	args := []string{"--config", cfgFile}
	expectIdx := sc.idx
	// further hostile set-ups of the fault-free slots: the index goes to a device that is full (make, tar), or the
	// prefix directory of one chunk cannot be used (a regular file or a symlink loop sits in its place)
	indexToFull, brokenPrefix := false, ""
	if !full && (cmdName == "make" || cmdName == "tar") && rng.Intn(3) == 0 {
		indexToFull = true
	} else if !full && rng.Intn(3) == 0 && len(sc.idx.Chunks) > 0 && (cmdName == "chop" || cmdName == "cache") {
		brokenPrefix = sc.idx.Chunks[rng.Intn(len(sc.idx.Chunks))].ID.String()[:4]
		if rng.Intn(2) == 0 {
			dsu.WriteFile(filepath.Join(target, brokenPrefix), []byte("in the way"))
		} else {
			os.Symlink(brokenPrefix, filepath.Join(target, brokenPrefix))
		}
	}
	switch cmdName {
	case "make":
		args = append(args, "make", "-n", fmt.Sprint(sc.n), "-m", "1:2:4", "-s", target, idxFile, file)
	case "chop":
		dsu.Must(dsu.WriteIndex(idxFile, sc.idx))
		args = append(args, "chop", "-n", fmt.Sprint(sc.n), "-s", target, idxFile, file)
	case "cache":
		dsu.Must(dsu.WriteIndex(idxFile, sc.idx))
		src := dsu.NewMemStore("src")
		for _, ch := range sc.idx.Chunks {
			src.PutRaw(ch.ID, sc.blob[ch.Start:ch.Start+ch.Size])
		}
		// the source serves compressed chunks, the target may be configured for the other format
		srcSrv := httptest.NewServer(desync.NewHTTPHandler(src, false, false, desync.Converters{desync.Compressor{}}, ""))
		defer srcSrv.Close()
		args = append(args, "cache", "-n", fmt.Sprint(sc.n), "-s", srcSrv.URL, "-c", target, "-e", "1", idxFile)
	case "tar":
		tree := filepath.Join(dir, "tree")
		os.MkdirAll(filepath.Join(tree, "d"), 0755)
		dsu.WriteFile(filepath.Join(tree, "d", "blob"), sc.blob)
		idxFile = filepath.Join(dir, "tree.caidx")
		args = append(args, "tar", "-i", "-n", fmt.Sprint(sc.n), "-m", "1:2:4", "-s", target, idxFile, tree)
	}
	if indexToFull {
		for k := range args {
			if args[k] == idxFile {
				args[k] = "/dev/full"
			}
		}
	}
	if !full && !indexToFull && brokenPrefix == "" && rng.Intn(2) == 0 {
		// a history: an earlier run of the same command into the same store died (SIGKILL) between writing the
		// temporary file of its k-th chunk and renaming it. What it left behind must not keep this run from storing
		// everything it reports as stored.
		k := 1 + rng.Intn(len(sc.idx.Chunks)+1)
		first := exec.Command(cli, args...)
		first.Env = append(os.Environ(), "HOME="+dir, fmt.Sprintf("VERIF_FAILPOINTS=local.store.beforeRename=kill@%d", k))
		if ferr := first.Run(); ferr != nil {
			c.Count("cli_local_runs_after_a_killed_run", 1)
		}
		if cmdName == "make" || cmdName == "tar" {
			os.Remove(idxFile)
		}
	}
	cmd := exec.Command(cli, args...)
	cmd.Env = append(os.Environ(), "HOME="+dir)
	var stderr bytes.Buffer
	cmd.Stderr = &stderr
	err := cmd.Run()
	c.Count("cli_local_runs", 1)
	if indexToFull {
		if err == nil {
			c.Violation("success-despite-fault:cli-local-"+cmdName, "desync %s wrote its index to /dev/full (every write fails with ENOSPC) and exited 0", cmdName)
			return
		}
		c.Count("cli_local_index_to_full_device", 1)
		c.NonTrivial("cli-local|%s|index-to-full-device", cmdName)
		return
	}
	if brokenPrefix != "" {
		// the chunks of that prefix cannot be stored: success would mean they were skipped
		if err == nil {
			c.Violation("success-despite-fault:cli-local-"+cmdName, "desync %s exited 0 although the prefix directory %s of one of its chunks is not a directory", cmdName, brokenPrefix)
			return
		}
		c.Count("cli_local_broken_prefix", 1)
		c.NonTrivial("cli-local|%s|broken-prefix", cmdName)
		return
	}
	// whatever the exit status: a file under a chunk name in the target holds that chunk
	ls, _ := desync.NewLocalStore(target, desync.StoreOptions{Uncompressed: uncompressed})
	bad := ""
	filepath.Walk(target, func(p string, info os.FileInfo, werr error) error {
		if werr != nil || info.IsDir() || strings.HasPrefix(filepath.Base(p), ".tmp-cacnk") {
			return nil
		}
		id, perr := desync.ChunkIDFromString(strings.TrimSuffix(filepath.Base(p), ".cacnk"))
		if perr != nil {
			return nil
		}
		if strings.HasSuffix(p, ".cacnk") == uncompressed {
			bad = fmt.Sprintf("%s is in the other format than the store is configured for", filepath.Base(p))
			return nil
		}
		if _, gerr := ls.GetChunk(id); gerr != nil {
			bad = fmt.Sprintf("%s (%d bytes): %v", filepath.Base(p)[:12], info.Size(), gerr)
		}
		return nil
	})
	if bad != "" {
		c.Violation("invalid-chunk-in-target:cli-"+cmdName, "desync %s (exit: %v) left an invalid object in its target store (uncompressed=%v, file system of %d pages): %s", cmdName, err, uncompressed, pages, bad)
		return
	}
	if err != nil {
		if !full {
			c.Violation("failed-without-fault:cli-local-"+cmdName, "desync %v failed: %v\n%s", args, err, stderr.String())
			return
		}
		c.Count("cli_local_failed_on_full_fs", 1)
		c.NonTrivial("cli-local|%s|u%v|full|failed", cmdName, uncompressed)
		return
	}
	if cmdName == "make" || cmdName == "tar" {
		raw, rerr := os.ReadFile(idxFile)
		if rerr != nil {
			c.Violation("cli-no-index", "exit 0 but %v", rerr)
			return
		}
		got, perr := desync.IndexFromReader(bytes.NewReader(raw))
		if perr != nil {
			c.Violation("cli-index-format", "%v", perr)
			return
		}
		expectIdx = got
	}
	for k, ch := range expectIdx.Chunks {
		got, gerr := ls.GetChunk(ch.ID)
		if gerr != nil {
			c.Violation("missing-after-success:cli-local-"+cmdName, "desync %s exited 0 (uncompressed=%v, file system of %d pages) but chunk %d (%x) cannot be read from the target: %v", cmdName, uncompressed, pages, k, ch.ID[:4], gerr)
			return
		}
		if b, _ := got.Data(); uint64(len(b)) != ch.Size {
			c.Violation("invalid-after-success:cli-local-"+cmdName, "chunk %d has %d bytes, the index says %d", k, len(b), ch.Size)
			return
		}
	}
	c.NonTrivial("cli-local|%s|u%v|full%v|ok", cmdName, uncompressed, full)
	c.Sample(map[string]interface{}{"op": "cli-local:" + cmdName, "chunks": len(sc.idx.Chunks), "uncompressed": uncompressed, "target_fs_pages": pages})
}

// hugeChunk: chunk sizes are part of the input (make -m takes them up to gigabytes): one chunk of more than 64 MiB,
// chopped into a local store in either format, must be readable from it afterwards.
func hugeChunk(c *harness.Ctx, s int) {
	rng := harness.CaseRng(c.Seed^0x4096e, s)
	size := 64<<20 + 1 + rng.Intn(6<<20)
	if c.Tier == "thorough" && rng.Intn(2) == 0 {
		size = 128<<20 + rng.Intn(8<<20)
	}
	uncompressed := rng.Intn(3) == 0
	c.Info("scenario=%d op=huge-chunk bytes=%d uncompressed=%v", s, size, uncompressed)
	c.LogInfo()
	blob := make([]byte, size)
	block := make([]byte, 1<<20)
	rng.Read(block)
	for off := 0; off < size; off += len(block) {
		copy(blob[off:], block)
		blob[off] = byte(off >> 20) // compressible, yet no two blocks alike
	}
	dir := c.CaseDir()
	file := filepath.Join(dir, "blob")
	dsu.WriteFile(file, blob)
	idx := desync.Index{Index: desync.FormatIndex{FeatureFlags: desync.CaFormatSHA512256, ChunkSizeMin: 16 << 20, ChunkSizeAvg: 64 << 20, ChunkSizeMax: 256 << 20},
		Chunks: []desync.IndexChunk{{ID: dsu.Sum(blob), Start: 0, Size: uint64(size)}}}
	target := filepath.Join(dir, "target")
	os.MkdirAll(target, 0755)
	ls, err := desync.NewLocalStore(target, desync.StoreOptions{Uncompressed: uncompressed})
	dsu.Must(err)
	if err := desync.ChopFile(context.Background(), file, idx.Chunks, ls, 2, &dsu.CountPB{}); err != nil {
		// refusing is not a violation of "complete when it reports success"
		c.Count("huge_chunk_refused", 1)
		c.NonTrivial("huge-chunk|refused")
		return
	}
	fresh, err := desync.NewLocalStore(target, desync.StoreOptions{Uncompressed: uncompressed})
	dsu.Must(err)
	ch, gerr := fresh.GetChunk(idx.Chunks[0].ID)
	if gerr != nil {
		c.Violation("missing-after-success:huge-chunk", "ChopFile of one chunk of %d bytes into a local store (uncompressed=%v) reported success, reading the chunk back fails: %v", size, uncompressed, gerr)
		return
	}
	if b, derr := ch.Data(); derr != nil || !bytes.Equal(b, blob) {
		c.Violation("invalid-after-success:huge-chunk", "ChopFile of one chunk of %d bytes reported success, what is read back differs (err %v)", size, derr)
		return
	}
	c.Count("huge_chunks_stored_and_read_back", 1)
	c.NonTrivial("huge-chunk|u%v|ok", uncompressed)
}

// runSFTP: chop / copy into an sftp:// target whose server (the shim) fails the k-th close of a written file after
// losing half of its data, or the k-th write request. Slot 0 is fault free.
func runSFTP(c *harness.Ctx, sc scenario, s, slot int) {
	if slot >= 24 {
		c.Info("scenario=%d op=sftp slot=%d skipped", s, slot)
		return
	}
	fault := ""
	if slot > 0 {
		fault = fmt.Sprintf("%s@%d", []string{"close", "write"}[(slot-1)%2], (slot-1)/2+1)
	}
	what := []string{"chop", "copy"}[s%2]
	uncompressed := s%4 >= 2
	c.Info("scenario=%d op=sftp:%s chunks=%d n=%d fault=%s uncompressed=%v", s, what, len(sc.idx.Chunks), sc.n, fault, uncompressed)
	c.LogInfo()
	dir := c.CaseDir()
	target := filepath.Join(dir, "target")
	os.MkdirAll(target, 0755)
	flog := filepath.Join(dir, "faults.log")
	os.Setenv("CASYNC_SSH_PATH", os.Getenv("VERIF_SHIM"))
	os.Setenv("SHIM_SFTP_FAULT", "none@0")
	if fault != "" {
		os.Setenv("SHIM_SFTP_FAULT", fault)
	}
	os.Setenv("SHIM_SFTP_FAULT_LOG", flog)
	defer os.Unsetenv("SHIM_SFTP_FAULT")
	u, _ := url.Parse("sftp://localhost" + target)
	// one connection: one server process, so "the k-th close" is well defined
	st, err := desync.NewSFTPStore(u, desync.StoreOptions{N: 1, Uncompressed: uncompressed})
	if err != nil {
		c.Skip("sftp shim: %v", err)
		return
	}
	switch what {
	case "chop":
		file := filepath.Join(dir, "blob")
		dsu.WriteFile(file, sc.blob)
		err = desync.ChopFile(context.Background(), file, sc.idx.Chunks, st, sc.n, &dsu.CountPB{})
	case "copy":
		src := dsu.NewMemStore("src")
		var ids []desync.ChunkID
		for _, ch := range sc.idx.Chunks {
			src.PutRaw(ch.ID, sc.blob[ch.Start:ch.Start+ch.Size])
			ids = append(ids, ch.ID)
		}
		err = desync.Copy(context.Background(), ids, src, st, sc.n, &dsu.CountPB{})
	}
	st.Close()
	fl, _ := os.ReadFile(flog)
	nd := int64(strings.Count(string(fl), "\n"))
	c.Count("sftp_runs", 1)
	c.Count("faults_delivered", nd)
	if err != nil {
		if nd == 0 {
			c.Violation("failed-without-fault:sftp-"+what, "%s into a healthy SFTP store failed: %v", what, err)
		}
		return
	}
	if nd > 0 {
		c.Violation("success-despite-fault:sftp-"+what, "the SFTP server failed a request (%s) yet %s reported success", strings.TrimSpace(string(fl)), what)
		return
	}
	ls, _ := desync.NewLocalStore(target, desync.StoreOptions{Uncompressed: uncompressed})
	for k, ch := range sc.idx.Chunks {
		got, gerr := ls.GetChunk(ch.ID)
		if gerr != nil {
			c.Violation("missing-after-success:sftp-"+what, "%s into SFTP reported success but chunk %d (%x) cannot be read back from the target directory: %v", what, k, ch.ID[:4], gerr)
			return
		}
		if b, _ := got.Data(); !bytes.Equal(b, sc.blob[ch.Start:ch.Start+ch.Size]) {
			c.Violation("invalid-after-success:sftp-"+what, "chunk %d read back differs", k)
			return
		}
	}
	if slot == 0 || nd > 0 {
		c.NonTrivial("sftp|%s|n%d|u%v|%s", what, sc.n, uncompressed, strings.SplitN(fault+"@", "@", 2)[0])
	}
	c.Sample(map[string]interface{}{"op": "sftp:" + what, "chunks": len(sc.idx.Chunks), "n": sc.n, "fault": fault, "delivered": nd})
}

func mix(x uint64) uint64 {
	x += 0x9e3779b97f4a7c15
	x = (x ^ (x >> 30)) * 0xbf58476d1ce4e5b9
	x = (x ^ (x >> 27)) * 0x94d049bb133111eb
	return x ^ (x >> 31)
}

// runCLI: make -s / chop / cache / tar -i against an HTTP chunk server whose k-th HEAD/PUT/GET answers 403.
func runCLI(c *harness.Ctx, sc scenario, s, slot int) {
	if slot >= 16 {
		// the CLI leg enumerates fewer slots (process spawn dominated)
		c.Info("scenario=%d op=cli slot=%d skipped", s, slot)
		return
	}
	rng := harness.CaseRng(c.Seed^0xc11, s)
	cmdName := []string{"make", "chop", "cache", "tar"}[rng.Intn(4)]
	method := ""
	var fk int64
	if slot > 0 {
		method = []string{"HEAD", "PUT", "GET"}[(slot-1)%3]
		fk = int64((slot-1)/3 + 1)
	}
	// the refusal is a 403, or (uploads only) what an authenticating proxy with an expired session does: a redirect
	// to a page that exists, which an HTTP client follows with a GET that is answered 200
	redirect := method == "PUT" && rng.Intn(2) == 0
	if redirect {
		method = "PUT>302"
	}
	// which refusal: mostly 403; otherwise one of the other answers with which servers and the things in front of them
	// (WebDAV: 409 for a missing parent collection, 423 locked; proxies: 401, 407, 429, 451; 5xx answers are retried and
	// therefore left to C14) decline
	// a request without having carried it out
	refusal := http.StatusForbidden
	if (s+slot)%2 == 1 {
		// stratified, so that every code is met with every method within a few scenarios
		refusal = []int{400, 401, 402, 405, 406, 407, 409, 410, 411, 412, 413, 415, 421, 423, 424, 428, 429, 431, 451}[((s+slot)/2+slot/3)%19]
	}
	c.Info("scenario=%d op=cli:%s chunks=%d n=%d fault=%s@%d refusal=%d", s, cmdName, len(sc.idx.Chunks), sc.n, method, fk, refusal)
	c.LogInfo()
	dir := c.CaseDir()
	dst := dsu.NewMemStore("dst")
	src := dsu.NewMemStore("src")
	var counts [3]int64
	var delivered int64
	wrap := func(h http.Handler) http.Handler {
		return http.HandlerFunc(func(w http.ResponseWriter, r *http.Request) {
			if r.URL.Path == "/login" {
				fmt.Fprintln(w, "<html>please log in</html>")
				return
			}
			mi := map[string]int{"HEAD": 0, "PUT": 1, "GET": 2}[r.Method]
			n := atomic.AddInt64(&counts[mi], 1)
			if redirect && r.Method == "PUT" && n == fk {
				atomic.AddInt64(&delivered, 1)
				http.Redirect(w, r, "/login", http.StatusFound)
				return
			}
			if r.Method == method && n == fk {
				atomic.AddInt64(&delivered, 1)
				http.Error(w, "refused (injected)", refusal)
				return
			}
			h.ServeHTTP(w, r)
		})
	}
	dstSrv := httptest.NewServer(wrap(desync.NewHTTPHandler(dst, true, false, desync.Converters{desync.Compressor{}}, "")))
	defer dstSrv.Close()
	file := filepath.Join(dir, "blob")
	dsu.WriteFile(file, sc.blob)
	idxFile := filepath.Join(dir, "blob.caibx")
	var args []string
	var idxViaHTTP []byte
	idxViaHTTPUsed := false
	expectIdx := sc.idx
	switch cmdName {
	case "make":
		args = []string{"make", "-n", fmt.Sprint(sc.n), "-m", "1:2:4", "-s", dstSrv.URL, "-e", "1", idxFile, file}
		if slot == 0 && s%2 == 0 {
			// the index goes to an HTTP location as well: a server that keeps whatever body a PUT carries (WebDAV style)
			// and answers the first upload with a 503 after having read it; the retry is accepted
			var imu sync.Mutex
			var puts int
			idxSrv := httptest.NewServer(http.HandlerFunc(func(w http.ResponseWriter, r *http.Request) {
				switch r.Method {
				case "PUT":
					b, _ := io.ReadAll(r.Body)
					imu.Lock()
					puts++
					first := puts == 1
					if !first {
						idxViaHTTP = b
					}
					imu.Unlock()
					if first {
						http.Error(w, "try again", http.StatusServiceUnavailable)
						return
					}
					w.WriteHeader(http.StatusCreated)
				default:
					http.NotFound(w, r)
				}
			}))
			defer idxSrv.Close()
			idxViaHTTPUsed = true
			args = []string{"make", "-n", fmt.Sprint(sc.n), "-m", "1:2:4", "-s", dstSrv.URL, "-e", "3", "-b", "1ms", idxSrv.URL + "/blob.caibx", file}
		}
		if rng.Intn(3) == 0 {
			// reporting option: what the command does and what its exit status says must not depend on it
			args = append([]string{"make", "--print-stats"}, args[1:]...)
		}
	case "chop":
		dsu.Must(dsu.WriteIndex(idxFile, sc.idx))
		args = []string{"chop", "-n", fmt.Sprint(sc.n), "-s", dstSrv.URL, "-e", "1", idxFile, file}
	case "cache":
		dsu.Must(dsu.WriteIndex(idxFile, sc.idx))
		for _, ch := range sc.idx.Chunks {
			src.PutRaw(ch.ID, sc.blob[ch.Start:ch.Start+ch.Size])
		}
		srcSrv := httptest.NewServer(wrap(desync.NewHTTPHandler(src, false, false, desync.Converters{desync.Compressor{}}, "")))
		defer srcSrv.Close()
		args = []string{"cache", "-n", fmt.Sprint(sc.n), "-s", srcSrv.URL, "-c", dstSrv.URL, "-e", "1", idxFile}
	case "tar":
		tree := filepath.Join(dir, "tree")
		os.MkdirAll(filepath.Join(tree, "d"), 0755)
		dsu.WriteFile(filepath.Join(tree, "d", "blob"), sc.blob)
		dsu.WriteFile(filepath.Join(tree, "copy"), sc.blob)
		idxFile = filepath.Join(dir, "tree.caidx")
		args = []string{"tar", "-i", "-n", fmt.Sprint(sc.n), "-m", "1:2:4", "-s", dstSrv.URL, "-e", "1", idxFile, tree}
	}
	cmd := exec.Command(cli, args...)
	cmd.Env = append(os.Environ(), "HOME="+dir)
	var stderr bytes.Buffer
	cmd.Stderr = &stderr
	err := cmd.Run()
	nd := atomic.LoadInt64(&delivered)
	c.Count("cli_runs", 1)
	c.Count("faults_delivered", nd)
	if err == nil {
		if nd > 0 {
			c.Violation("success-despite-fault:cli-"+cmdName, "request %s #%d was answered %d (or redirected), yet desync %v exited 0", method, fk, refusal, args)
			return
		}
		if cmdName == "make" || cmdName == "tar" {
			raw, rerr := os.ReadFile(idxFile)
			if idxViaHTTPUsed {
				raw, rerr = idxViaHTTP, nil
				c.Count("cli_indexes_uploaded_over_http_after_a_503", 1)
			}
			if rerr != nil {
				c.Violation("cli-no-index", "exit 0 but %v", rerr)
				return
			}
			p, perr := oracle.ParseCaibx(raw)
			if perr != nil {
				c.Violation("cli-index-format", "%v", perr)
				return
			}
			expectIdx = desync.Index{}
			var last uint64
			for _, it := range p.Items {
				expectIdx.Chunks = append(expectIdx.Chunks, desync.IndexChunk{ID: it.ID, Start: last, Size: it.End - last})
				last = it.End
			}
			if cmdName == "make" {
				ref := dsu.RefIndex(sc.blob, sc.sz)
				if len(ref.Chunks) != len(expectIdx.Chunks) || int(last) != len(sc.blob) {
					c.Violation("fresh-index-wrong", "make wrote %d chunks / %d bytes for an input of %d chunks / %d bytes", len(expectIdx.Chunks), last, len(ref.Chunks), len(sc.blob))
					return
				}
				for k := range ref.Chunks {
					if ref.Chunks[k] != expectIdx.Chunks[k] {
						c.Violation("fresh-index-wrong", "chunk %d of the index written by make differs from the reference", k)
						return
					}
				}
			}
		}
		for k, ch := range expectIdx.Chunks {
			b, ok := dst.Holds(ch.ID)
			if !ok {
				c.Violation("missing-after-success:cli-"+cmdName, "desync %s exited 0 but chunk %d (%x) is not in the target store", cmdName, k, ch.ID[:4])
				return
			}
			if dsu.Sum(b) != ch.ID || uint64(len(b)) != ch.Size {
				c.Violation("invalid-after-success:cli-"+cmdName, "target holds invalid data for chunk %d", k)
				return
			}
		}
	} else if nd == 0 {
		c.Violation("failed-without-fault:cli-"+cmdName, "desync %v failed without an injected fault: %v\n%s", args, err, stderr.String())
		return
	}
	if nd > 0 || slot == 0 {
		c.NonTrivial("cli|%s|n%d|%s|k%d", cmdName, sc.n, method, fk)
	}
	c.Sample(map[string]interface{}{"op": "cli:" + cmdName, "chunks": len(sc.idx.Chunks), "n": sc.n, "fault": fmt.Sprintf("%s@%d", method, fk), "delivered": nd, "exit_error": fmt.Sprint(err),
		"requests": map[string]int64{"HEAD": counts[0], "PUT": counts[1], "GET": counts[2]}})
}

// runS3: bulk writers into an S3 store (fake endpoint) with every error-retry setting: success means the objects are there.
func runS3(c *harness.Ctx, sc scenario, s, slot int) {
	if slot >= 10 {
		c.Info("scenario=%d op=s3 slot=%d skipped", s, slot)
		return
	}
	retry := []int{0, 1, 3}[slot%3]
	uncompressed := slot%2 == 0
	what := []string{"chop", "chunkstream", "copy"}[slot%3]
	c.Info("scenario=%d op=s3:%s chunks=%d n=%d error-retry=%d uncompressed=%v", s, what, len(sc.idx.Chunks), sc.n, retry, uncompressed)
	c.LogInfo()
	f := fakes.NewS3("bucket")
	defer f.Close()
	st, err := desync.NewS3Store(f.URL("pre"), fakes.Creds(), fakes.Region, desync.StoreOptions{ErrorRetry: retry, Uncompressed: uncompressed}, fakes.Lookup)
	dsu.Must(err)
	dir := c.CaseDir()
	switch what {
	case "chop":
		file := filepath.Join(dir, "blob")
		dsu.WriteFile(file, sc.blob)
		err = desync.ChopFile(context.Background(), file, sc.idx.Chunks, st, sc.n, &dsu.CountPB{})
	case "chunkstream":
		ch, cerr := desync.NewChunker(bytes.NewReader(sc.blob), sc.sz.Min, sc.sz.Avg, sc.sz.Max)
		dsu.Must(cerr)
		_, err = desync.ChunkStream(context.Background(), ch, st, sc.n)
	case "copy":
		src := dsu.NewMemStore("src")
		var ids []desync.ChunkID
		for _, ch := range sc.idx.Chunks {
			src.PutRaw(ch.ID, sc.blob[ch.Start:ch.Start+ch.Size])
			ids = append(ids, ch.ID)
		}
		err = desync.Copy(context.Background(), ids, src, st, sc.n, &dsu.CountPB{})
	}
	c.Count("s3_runs", 1)
	if err != nil {
		c.Violation("failed-without-fault:s3-"+what, "%s into a healthy S3 store (error-retry %d) failed: %v", what, retry, err)
		return
	}
	fresh, _ := desync.NewS3Store(f.URL("pre"), fakes.Creds(), fakes.Region, desync.StoreOptions{ErrorRetry: 1, Uncompressed: uncompressed}, fakes.Lookup)
	for k, ch := range sc.idx.Chunks {
		got, gerr := fresh.GetChunk(ch.ID)
		if gerr != nil {
			c.Violation("missing-after-success:s3-"+what, "%s into S3 with error-retry %d reported success but chunk %d (%x) cannot be read back: %v (%d objects stored)", what, retry, k, ch.ID[:4], gerr, len(f.Keys()))
			return
		}
		if b, _ := got.Data(); !bytes.Equal(b, sc.blob[ch.Start:ch.Start+ch.Size]) {
			c.Violation("invalid-after-success:s3-"+what, "chunk %d read back differs", k)
			return
		}
	}
	c.NonTrivial("s3|%s|n%d|r%d|u%v", what, sc.n, retry, uncompressed)
	c.Sample(map[string]interface{}{"op": "s3:" + what, "chunks": len(sc.idx.Chunks), "n": sc.n, "error_retry": retry, "objects": len(f.Keys())})
}
