// C02: chunking is deterministic: parallel = sequential = the rolling-hash rule.
package main

import (
	"bytes"
	"context"
	"fmt"
	"io"
	"math"
	"math/rand"
	"os"
	"os/exec"
	"path/filepath"
	"strings"
	"time"

	"github.com/folbricht/desync"

	"verif/dsu"
	"verif/harness"
	"verif/oracle"
)

var cli string

func main() {
	harness.Main(&harness.Config{
		Prop:  "C02",
		Level: "exploration",
		Rule: "PRNG case list over (input class x size around multiples of min/max/size/n x (min,avg,max) x n in 1..16 x reader fragmentation x schedule perturbation mode x digest). " +
			"Oracle: independent non-rolling reference chunker (anchored every run against the casync-made testdata/chunker.index). " +
			"A case is non-trivial if the input has >=2 chunks and (for parallel legs) >=2 workers were started; distinct by (leg, class, sizes, n, fragmentation, #chunks bucket, perturbation mode)",
		Assumptions: []string{
			"casync's discriminator formula and buzhash table as frozen in oracle/refchunker.go; anchored by testdata/chunker.index (produced by casync) for the default sizes",
			"SHA512/256 and SHA256 from the Go standard library",
		},
		Cases:           cases,
		Run:             run,
		ParentSetup:     parentSetup,
		Setup:           childSetup,
		SpinIsViolation: true,
		MinNonTrivial:   20,
		RaceIsViolation: true,
		CaseTimeout:     300 * time.Second,
	})
}

func cases(tier string) int {
	if tier == "thorough" {
		return 400000
	}
	return 24000
}

func parentSetup(tier string, seed int64, work string) ([]string, error) {
	p, err := harness.BuildCLI(work, "desync-verif", "verif", false)
	if err != nil {
		return nil, err
	}
	return []string{"VERIF_CLI=" + p}, nil
}

func childSetup(c *harness.Ctx) {
	cli = os.Getenv("VERIF_CLI")
}

// fragReader fragments reads: 0 = pass-through, 1 = one byte, 2 = random short reads,
// 3 = returns (n, io.EOF) together with the last bytes, 4 = sprinkles (0,nil) reads.
type fragReader struct {
	b    []byte
	mode int
	rng  *rand.Rand
	zero int
}

func (r *fragReader) Read(p []byte) (int, error) {
	if len(p) == 0 {
		return 0, nil
	}
	if len(r.b) == 0 {
		return 0, io.EOF
	}
	n := len(p)
	switch r.mode {
	case 1:
		n = 1
	case 2:
		n = 1 + r.rng.Intn(len(p))
		if r.rng.Intn(3) == 0 && n > 7 {
			n = 1 + r.rng.Intn(7)
		}
	case 4:
		if r.zero < 3 && r.rng.Intn(4) == 0 {
			r.zero++
			return 0, nil
		}
		r.zero = 0
		n = 1 + r.rng.Intn(len(p))
	}
	if n > len(r.b) {
		n = len(r.b)
	}
	copy(p, r.b[:n])
	r.b = r.b[n:]
	if r.mode == 3 && len(r.b) == 0 {
		return n, io.EOF
	}
	return n, nil
}

func pickSizes(rng *rand.Rand, big bool) dsu.Sizes {
	if big {
		return dsu.Sizes{Min: 16 * 1024, Avg: 64 * 1024, Max: 256 * 1024}
	}
	switch rng.Intn(10) {
	case 0, 1, 2:
		return dsu.SmallSizes[rng.Intn(len(dsu.SmallSizes))]
	case 3:
		m := uint64(48 + rng.Intn(3))
		return dsu.Sizes{Min: m, Avg: m, Max: m}
	case 4:
		m := uint64(48 + rng.Intn(200))
		return dsu.Sizes{Min: m, Avg: m + uint64(rng.Intn(100)), Max: m + 100 + uint64(rng.Intn(400))}
	default:
		min := uint64(48 + rng.Intn(300))
		avg := min + uint64(rng.Intn(600))
		max := avg + uint64(rng.Intn(2000))
		return dsu.Sizes{Min: min, Avg: avg, Max: max}
	}
}

// pickLen chooses an input length with emphasis on boundaries.
func pickLen(rng *rand.Rand, sz dsu.Sizes, n int) int {
	base := []uint64{sz.Min, sz.Max, sz.Avg}
	switch rng.Intn(8) {
	case 0:
		return rng.Intn(int(sz.Min) + 2) // 0 .. min+1
	case 1, 2:
		k := uint64(1 + rng.Intn(20))
		b := base[rng.Intn(3)] * k
		d := rng.Intn(5) - 2
		if int(b)+d < 0 {
			return 0
		}
		return int(b) + d
	case 3:
		// around n*max and multiples of size/n
		k := uint64(1 + rng.Intn(3))
		b := int(uint64(n)*sz.Max*k) + rng.Intn(7) - 3
		if b < 0 {
			b = 0
		}
		return b
	default:
		return rng.Intn(int(sz.Max)*40 + 1)
	}
}

func makeInput(rng *rand.Rand, sz dsu.Sizes, n int, size int) (string, []byte) {
	class := dsu.BlobClasses[rng.Intn(len(dsu.BlobClasses))]
	b := dsu.MakeBlob(rng, class, size, sz)
	if size > 0 && rng.Intn(3) == 0 {
		// zero runs placed around worker start offsets (size/n * i) and multiples of max
		class += "+aligned-zero-runs"
		for k := 0; k < 1+rng.Intn(3); k++ {
			var at int
			if rng.Intn(2) == 0 && n > 0 {
				at = size / n * rng.Intn(n+1)
			} else {
				at = int(sz.Max) * rng.Intn(size/int(sz.Max)+1)
			}
			at += rng.Intn(int(sz.Min)*2+1) - int(sz.Min)
			l := rng.Intn(int(sz.Max)*5 + 1)
			for j := at; j < at+l; j++ {
				if j >= 0 && j < size {
					b[j] = 0
				}
			}
		}
	}
	return class, b
}

func bucket(n int) string {
	switch {
	case n == 0:
		return "0"
	case n == 1:
		return "1"
	case n < 5:
		return "2-4"
	case n < 20:
		return "5-19"
	case n < 100:
		return "20-99"
	}
	return "100+"
}

func checkIndex(c *harness.Ctx, leg string, idx desync.Index, blob []byte, sz dsu.Sizes) bool {
	var ref []uint64
	if len(blob) > 64*1024 {
		ref = oracle.RefChunksFast(blob, sz.Min, sz.Avg, sz.Max) // cross-checked against the direct definition in the anchor case
	} else {
		ref = oracle.RefChunks(blob, sz.Min, sz.Avg, sz.Max)
	}
	ok := true
	if len(idx.Chunks) != len(ref) {
		c.Violation(leg+":chunk-count", "got %d chunks, reference has %d (len=%d sizes=%s)", len(idx.Chunks), len(ref), len(blob), sz)
		ok = false
	}
	var pos uint64
	for i := 0; i < len(idx.Chunks) && i < len(ref); i++ {
		ch := idx.Chunks[i]
		if ch.Start != pos || ch.Size != ref[i] {
			c.Violation(leg+":boundary", "chunk %d: got start=%d size=%d, reference start=%d size=%d (len=%d sizes=%s)", i, ch.Start, ch.Size, pos, ref[i], len(blob), sz)
			return false
		}
		if ch.ID != dsu.Sum(blob[pos:pos+ref[i]]) {
			c.Violation(leg+":id", "chunk %d [%d,+%d): recorded ID %x is not the digest of the range", i, pos, ref[i], ch.ID[:6])
			return false
		}
		pos += ref[i]
	}
	if ok && pos != uint64(len(blob)) {
		c.Violation(leg+":tiling", "chunks cover %d of %d bytes", pos, len(blob))
		ok = false
	}
	// min/max rules (on the produced table itself)
	for i, ch := range idx.Chunks {
		if ch.Size > sz.Max || ch.Size == 0 || (i < len(idx.Chunks)-1 && ch.Size < sz.Min) {
			c.Violation(leg+":minmax", "chunk %d size %d violates min %d / max %d", i, ch.Size, sz.Min, sz.Max)
			ok = false
			break
		}
	}
	if idx.Index.ChunkSizeMin != sz.Min || idx.Index.ChunkSizeAvg != sz.Avg || idx.Index.ChunkSizeMax != sz.Max {
		c.Violation(leg+":params", "index records %d/%d/%d, chunked with %s", idx.Index.ChunkSizeMin, idx.Index.ChunkSizeAvg, idx.Index.ChunkSizeMax, sz)
		ok = false
	}
	_, sha256 := desync.Digest.(desync.SHA256)
	if (idx.Index.FeatureFlags&desync.CaFormatSHA512256 != 0) == sha256 {
		c.Violation(leg+":digest-flag", "feature flags %x under digest sha256=%v", idx.Index.FeatureFlags, sha256)
		ok = false
	}
	return ok
}

func run(c *harness.Ctx, i int) {
	rng := c.Rng
	// digest per case
	if rng.Intn(4) == 0 {
		desync.Digest = desync.SHA256{}
	} else {
		desync.Digest = desync.SHA512256{}
	}
	_, sha256 := desync.Digest.(desync.SHA256)

	if i == 0 {
		anchor(c)
		return
	}
	leg := []string{"next", "next", "file", "file", "file", "stream", "stream"}[rng.Intn(7)]
	big := c.Tier == "thorough" && i%2000 == 1
	if i%700 == 7 || i%150 == 11 {
		leg = "cli"
	}
	n := 1 + rng.Intn(16)
	sz := pickSizes(rng, big)
	size := pickLen(rng, sz, n)
	if big {
		size = rng.Intn(24 << 20)
	}
	wideAvg := !big && leg != "cli" && i%30 == 3
	if wideAvg {
		// the discriminator is a function of avg alone: sweep avg (log-uniform, 8 KiB .. 192 KiB) with enough random data
		// for a few cuts; min and max far away so that the hash rule decides every cut
		avg := uint64(8192 * math.Pow(24, rng.Float64()))
		sz = dsu.Sizes{Min: 48 + uint64(rng.Intn(64)), Avg: avg, Max: 8 * avg}
		size = int(avg) * (2 + rng.Intn(3))
		n = 1 + rng.Intn(4)
	}
	class, blob := makeInput(rng, sz, n, size)
	if wideAvg {
		class = "random-wide-avg"
		blob = make([]byte, size)
		rng.Read(blob)
	}
	if !big && i%300 == 5 {
		// the default chunk sizes and zero runs that hold whole chunks of the maximum size: the one chunk desync knows
		// beforehand (its ID is kept ready, computed when?) - under both digests
		sz = dsu.Sizes{Min: 16 * 1024, Avg: 64 * 1024, Max: 256 * 1024}
		n = 1 + rng.Intn(4)
		pre := make([]byte, rng.Intn(300*1024))
		rng.Read(pre)
		post := make([]byte, rng.Intn(100*1024))
		rng.Read(post)
		blob = append(append(pre, make([]byte, 256*1024*(1+rng.Intn(3))+rng.Intn(70000))...), post...)
		size = len(blob)
		class = "default-sizes-null-chunks"
		if i%600 == 5 {
			desync.Digest = desync.SHA256{}
			sha256 = true
		}
	}
	if !big && leg != "cli" && i%40 == 9 {
		// runs of one byte value: their window hash is a constant, and for the few avg values whose discriminator divides
		// that constant plus one the run is a cut point at every position (cut every min+1 bytes instead of at max)
		fill := []byte{0, 0, 0xff, byte(rng.Intn(256))}[rng.Intn(4)]
		var avgs []uint64
		for _, a := range oracle.AvgsCuttingConstRun(fill, 1<<20) {
			if a >= 256 {
				avgs = append(avgs, a)
			}
		}
		if len(avgs) > 0 {
			avg := avgs[rng.Intn(len(avgs))]
			sz = dsu.Sizes{Min: 48 + uint64(rng.Intn(int(min(avg-48, 2000)))), Avg: avg, Max: avg + uint64(rng.Intn(int(avg)+1))}
			head := make([]byte, rng.Intn(int(sz.Min)*2+1))
			rng.Read(head)
			run := make([]byte, int(sz.Max)*(1+rng.Intn(2))+rng.Intn(1000))
			for j := range run {
				run[j] = fill
			}
			tail := make([]byte, rng.Intn(500))
			rng.Read(tail)
			blob = append(append(head, run...), tail...)
			size = len(blob)
			class = fmt.Sprintf("const-run-at-cutting-avg/%02x", fill)
			leg = []string{"next", "stream"}[rng.Intn(2)]
			n = 1 + rng.Intn(4)
		}
	}
	if !big && leg != "cli" && i%10 == 4 {
		// discriminator probe: a tiny input whose very first candidate window (the one ending at min+1) is built to be a
		// cut point for exactly the discriminator that avg determines, and for neither neighbour of it; avg swept
		// log-uniformly over 1 KiB .. 1 MiB (the larger avg, the more a sloppy computation of the formula shows)
		avg := uint64(1024 * math.Pow(1024, rng.Float64()))
		if w := oracle.FindWindow(oracle.Discriminator(avg), uint64(rng.Int63())); w != nil {
			sz = dsu.Sizes{Min: 48 + uint64(rng.Intn(100)), Avg: avg, Max: avg + uint64(rng.Intn(int(avg)))}
			blob = make([]byte, int(sz.Min)+1-48)
			rng.Read(blob)
			blob = append(blob, w...)
			tail := make([]byte, 1+rng.Intn(300))
			rng.Read(tail)
			blob = append(blob, tail...)
			size = len(blob)
			class = "discriminator-probe"
			leg = "next"
			n = 1
		}
	}
	if leg == "file" && !big && rng.Intn(3) == 0 {
		// Strided tail: worker start offsets (size/n apart) are congruent modulo max only for
		// every k-th worker, and the tail of the file has no content-defined cut points, so
		// workers run to the end of the file without lining up with their direct successor.
		k := 2 + rng.Intn(3)
		n = k + 1 + rng.Intn(16-k)
		span := int(sz.Max)*(1+rng.Intn(3)) + int(sz.Max)/k*(1+rng.Intn(k-1)) + rng.Intn(3) - 1
		size = span*n + rng.Intn(n)
		class = fmt.Sprintf("strided-tail/k%d", k)
		blob = make([]byte, size)
		rng.Read(blob)
		from := rng.Intn(size)
		if rng.Intn(2) == 0 {
			from = size / n * rng.Intn(n)
		}
		fill := []byte{0, 0, 0, 1, 0xff}[rng.Intn(5)]
		for j := from; j < size; j++ {
			blob[j] = fill
		}
	}
	ymode := rng.Intn(3)
	frag := rng.Intn(5)
	c.Info("leg=%s class=%s len=%d sizes=%s n=%d frag=%d ymode=%d sha256=%v", leg, class, len(blob), sz, n, frag, ymode, sha256)
	if c.Replay {
		fmt.Fprintln(os.Stderr, "case:", i, leg, class, len(blob), sz, n, frag, ymode)
		if p := os.Getenv("VERIF_DUMP_BLOB"); p != "" {
			os.WriteFile(p, blob, 0644)
		}
	}
	c.LogInfo()
	y := dsu.NewYielder(ymode, uint64(rng.Int63()))
	y.Install()
	defer y.Remove()

	nchunks := len(oracle.RefChunksFast(blob, sz.Min, sz.Avg, sz.Max))
	switch leg {
	case "next":
		ch, err := desync.NewChunker(&fragReader{b: blob, mode: frag, rng: rand.New(rand.NewSource(rng.Int63()))}, sz.Min, sz.Avg, sz.Max)
		if err != nil {
			c.Violation("next:newchunker", "%v for %s", err, sz)
			return
		}
		var idx desync.Index
		idx.Index.ChunkSizeMin, idx.Index.ChunkSizeAvg, idx.Index.ChunkSizeMax = ch.Min(), ch.Avg(), ch.Max()
		idx.Index.FeatureFlags = desync.CaFormatSHA512256
		if sha256 {
			idx.Index.FeatureFlags = 0
		}
		for {
			start, b, err := ch.Next()
			if err != nil {
				c.Violation("next:error", "%v", err)
				return
			}
			if len(b) == 0 {
				break
			}
			if start+uint64(len(b)) > uint64(len(blob)) || !bytes.Equal(b, blob[start:start+uint64(len(b))]) {
				c.Violation("next:bytes", "bytes returned for chunk at %d (len %d) differ from the input", start, len(b))
				return
			}
			idx.Chunks = append(idx.Chunks, desync.IndexChunk{Start: start, Size: uint64(len(b)), ID: dsu.Sum(b)})
			if len(idx.Chunks) > len(blob)+2 {
				c.Violation("next:runaway", "more chunks than bytes")
				return
			}
		}
		checkIndex(c, "next", idx, blob, sz)
		if nchunks >= 2 {
			c.NonTrivial("next|%s|%s|frag%d|%s", class, sz, frag, bucket(nchunks))
		}
	case "file":
		dir := c.CaseDir()
		name := filepath.Join(dir, "blob")
		dsu.WriteFile(name, blob)
		pb := &dsu.CountPB{}
		idx, stats, err := desync.IndexFromFile(context.Background(), name, n, sz.Min, sz.Avg, sz.Max, pb)
		if err != nil {
			c.Violation("file:error", "IndexFromFile: %v", err)
			return
		}
		ok := checkIndex(c, "file", idx, blob, sz)
		if ok && stats.ChunksAccepted != uint64(len(idx.Chunks)) {
			c.Violation("file:stats", "ChunksAccepted=%d, index has %d", stats.ChunksAccepted, len(idx.Chunks))
		}
		workers := n
		if nn := len(blob)/int(sz.Max) + 1; nn < workers {
			workers = nn
		}
		c.Count("file_cases", 1)
		c.Count("chunks_produced_minus_accepted", int64(stats.ChunksProduced)-int64(stats.ChunksAccepted))
		if ymode == dsu.YieldTraced {
			sig, total := y.Signature()
			c.Distinct("file_hook_order_signatures", fmt.Sprintf("%x", sig))
			c.Count("hook_hits", total)
			for p, h := range y.HitsCopy() {
				c.Count("hits:"+p, h)
			}
		}
		if nchunks >= 2 && workers >= 2 {
			c.NonTrivial("file|%s|%s|n%d|%s|y%d", strings.SplitN(class, "+", 2)[0], sz, workers, bucket(nchunks), ymode)
		}
	case "stream":
		ch, err := desync.NewChunker(&fragReader{b: blob, mode: frag, rng: rand.New(rand.NewSource(rng.Int63()))}, sz.Min, sz.Avg, sz.Max)
		if err != nil {
			c.Violation("stream:newchunker", "%v for %s", err, sz)
			return
		}
		ms := dsu.NewMemStore("s")
		idx, err := desync.ChunkStream(context.Background(), ch, ms, n)
		if err != nil {
			c.Violation("stream:error", "ChunkStream: %v", err)
			return
		}
		if checkIndex(c, "stream", idx, blob, sz) {
			for _, ic := range idx.Chunks {
				if b, ok := ms.Holds(ic.ID); !ok || !bytes.Equal(b, blob[ic.Start:ic.Start+ic.Size]) {
					c.Violation("stream:store", "chunk %x not stored correctly", ic.ID[:6])
					break
				}
			}
		}
		if nchunks >= 2 && n >= 2 {
			c.NonTrivial("stream|%s|%s|n%d|frag%d|%s", strings.SplitN(class, "+", 2)[0], sz, n, frag, bucket(nchunks))
		}
	case "cli":
		dir := c.CaseDir()
		name := filepath.Join(dir, "blob")
		dsu.WriteFile(name, blob)
		out := filepath.Join(dir, "blob.caibx")
		store := filepath.Join(dir, "store")
		os.Mkdir(store, 0755)
		args := []string{"make", "-n", fmt.Sprint(n), "-m", fmt.Sprintf("%d:%d:%d", (sz.Min+1023)/1024, (sz.Avg+1023)/1024, (sz.Max+1023)/1024)}
		// the CLI takes sizes in KiB: use KiB-rounded sizes and re-derive
		csz := dsu.Sizes{Min: (sz.Min + 1023) / 1024 * 1024, Avg: (sz.Avg + 1023) / 1024 * 1024, Max: (sz.Max + 1023) / 1024 * 1024}
		if csz.Avg < csz.Min {
			csz.Avg = csz.Min
		}
		if csz.Max < csz.Avg {
			csz.Max = csz.Avg
		}
		args[4] = fmt.Sprintf("%d:%d:%d", csz.Min/1024, csz.Avg/1024, csz.Max/1024)
		if sha256 {
			args = append(args, "--digest", "sha256")
		}
		if rng.Intn(2) == 0 {
			args = append(args, "-s", store)
		}
		args = append(args, out, name)
		// larger input so that several chunks exist at KiB sizes
		blob = dsu.MakeBlob(rng, []string{"mixed", "zero-runs", "repetitive", "zero-runs"}[rng.Intn(4)], int(csz.Max)*(2+rng.Intn(20))+rng.Intn(3000), csz)
		dsu.WriteFile(name, blob)
		cmd := exec.Command(cli, args...)
		readFault := false
		if st, lerr := exec.LookPath("strace"); lerr == nil && (rng.Intn(2) == 0 || i%150 == 11) {
			// a read of the input file fails (EIO: a bad sector, a network file system that went away) - the k-th read
			// of some worker. The command may fail; an index it reports as made describes the whole file all the same.
			readFault = true
			k := 1 + rng.Intn(6)
			cmd = exec.Command(st, append([]string{"-f", "-o", "/dev/null", "-P", name, "-e", "trace=read,pread64", "-e", fmt.Sprintf("inject=read,pread64:error=EIO:when=%d", k), cli}, args...)...)
			c.Count("cli_runs_with_a_failing_read", 1)
		}
		cmd.Env = append(os.Environ(), "HOME="+dir)
		outb, err := cmd.CombinedOutput()
		if err != nil && readFault {
			c.Count("cli_runs_failed_on_a_failing_read", 1)
			c.NonTrivial("cli|read-fault|n%d|failed", n)
			return
		}
		if err != nil {
			c.Violation("cli:error", "desync %v: %v\n%s", args, err, outb)
			return
		}
		raw, _ := os.ReadFile(out)
		p, err := oracle.ParseCaibx(raw)
		if err != nil {
			c.Violation("cli:format", "independent parser rejects the index written by make: %v", err)
			return
		}
		idx := desync.Index{Index: desync.FormatIndex{FeatureFlags: p.Flags, ChunkSizeMin: p.Min, ChunkSizeAvg: p.Avg, ChunkSizeMax: p.Max}}
		var last uint64
		for _, it := range p.Items {
			idx.Chunks = append(idx.Chunks, desync.IndexChunk{Start: last, Size: it.End - last, ID: it.ID})
			last = it.End
		}
		checkIndex(c, "cli", idx, blob, csz)
		c.Count("cli_cases", 1)
		if len(idx.Chunks) >= 2 {
			c.NonTrivial("cli|%s|n%d|%s", csz, n, bucket(len(idx.Chunks)))
		}
	}
	c.Sample(map[string]interface{}{"leg": leg, "class": class, "len": len(blob), "sizes": sz.String(), "n": n, "frag": frag, "yield_mode": ymode, "sha256": sha256, "ref_chunks": nchunks})
}

// anchor: the reference chunker must reproduce the casync-made index of testdata/chunker.input; then desync must too.
func anchor(c *harness.Ctx) {
	desync.Digest = desync.SHA512256{}
	c.Info("anchor: testdata/chunker.input vs casync-made chunker.index")
	c.LogInfo()
	blob, err := os.ReadFile("/repo/testdata/chunker.input")
	dsu.Must(err)
	raw, err := os.ReadFile("/repo/testdata/chunker.index")
	dsu.Must(err)
	p, err := oracle.ParseCaibx(raw)
	if err != nil {
		c.Inconclusive("anchor fixture does not parse: %v", err)
		return
	}
	sz := dsu.Sizes{Min: p.Min, Avg: p.Avg, Max: p.Max}
	ref := oracle.RefChunks(blob, sz.Min, sz.Avg, sz.Max)
	fast := oracle.RefChunksFast(blob, sz.Min, sz.Avg, sz.Max)
	if len(ref) != len(p.Items) || len(fast) != len(ref) {
		c.Inconclusive("reference chunker disagrees with casync fixture: %d vs %d chunks (check is broken)", len(ref), len(p.Items))
		return
	}
	var pos uint64
	for k, s := range ref {
		pos += s
		if p.Items[k].End != pos || fast[k] != s {
			c.Inconclusive("reference chunker disagrees with casync fixture at chunk %d (check is broken)", k)
			return
		}
		if p.Items[k].ID != dsu.Sum(blob[pos-s:pos]) {
			c.Inconclusive("fixture id mismatch at chunk %d", k)
			return
		}
	}
	for _, n := range []int{1, 2, 3, 5, 8, 16} {
		idx, _, err := desync.IndexFromFile(context.Background(), "/repo/testdata/chunker.input", n, sz.Min, sz.Avg, sz.Max, &dsu.CountPB{})
		if err != nil {
			c.Violation("anchor:error", "%v", err)
			return
		}
		checkIndex(c, "anchor", idx, blob, sz)
	}
	c.Count("anchor_chunks", int64(len(ref)))
	c.NonTrivial("anchor|casync-fixture")
	c.Sample(map[string]interface{}{"leg": "anchor", "fixture": "testdata/chunker.input", "chunks": len(ref), "sizes": sz.String()})
}
