// C03: no chunk is delivered that does not hash to the requested ID.
package main

import (
	"bytes"
	"context"
	"fmt"
	"io"
	"math/rand"
	"net/http"
	"net/http/httptest"
	"net/url"
	"os"
	"os/exec"
	"path/filepath"
	"strings"
	"time"

	"github.com/folbricht/desync"
	"github.com/klauspost/compress/zstd"

	"verif/dsu"
	"verif/fakes"
	"verif/harness"
)

var cli, shim string
var zenc, _ = zstd.NewWriter(nil)

func main() {
	harness.Main(&harness.Config{
		Prop:  "C03",
		Level: "exploration",
		Rule: "PRNG case list over backend {local, HTTP via desync's handler (verifying and skip-verify upstream), HTTP via a raw file server, S3 fake, SFTP shim, casync-over-SSH shim to `desync pull`, hostile casync server answering with another chunk} x {compressed, uncompressed} " +
			"x corruption of one stored object {bit flip first/middle/last byte, truncation to 0/1/half/len-1, another chunk's valid object, valid zstd frame of other data, raw bytes in a .cacnk slot, frame in a raw slot, random garbage} x wrapper stack {none, cache, repairable cache, router, failover, dedup, write-dedup, swap}. " +
			"Sequence per case: healthy read, corrupt the object, read again through the same stack and through a fresh stack, then consumers (AssembleFile, IndexPos read-all, UnTarIndex, index mount read, sparse file read) over the poisoned store, then a repair-enabled cache in front of a healthy upstream. " +
			"Oracle: a returned chunk whose Data() succeeds hashes to the requested ID; consumers fail and what they emitted is a correct prefix; repair succeeds and leaves a valid object. Non-trivial: corruption was applied and the poisoned object was actually requested; distinct by (backend, format, corruption, stack)",
		Assumptions:   []string{"S3, SFTP and SSH peers are loopback fakes/shims driving the real client code", "verification explicitly disabled (SkipVerify) is only used on the upstream side of a chunk server, never on the store under test"},
		Cases:         cases,
		Run:           run,
		ParentSetup:   parentSetup,
		Setup:         func(c *harness.Ctx) { cli = os.Getenv("VERIF_CLI"); shim = os.Getenv("VERIF_SHIM") },
		MinNonTrivial: 20,
		CaseTimeout:   120 * time.Second,
	})
}

func cases(tier string) int {
	if tier == "thorough" {
		return 60000
	}
	return 4000
}

func parentSetup(tier string, seed int64, work string) ([]string, error) {
	p, err := harness.BuildCLI(work, "desync-verif", "verif", false)
	if err != nil {
		return nil, err
	}
	sh, err := harness.BuildHelper(work, "shim", "./helpers/shim", "verif")
	if err != nil {
		return nil, err
	}
	return []string{"VERIF_CLI=" + p, "VERIF_SHIM=" + sh}, nil
}

var backends = []string{"local", "local", "http-handler", "http-skipverify", "http-files", "s3", "sftp", "ssh", "ssh-evil"}
var corruptions = []string{"flip-first", "flip-middle", "flip-last", "trunc-0", "trunc-1", "trunc-half", "trunc-last", "other-chunk", "other-frame", "raw-in-cacnk", "frame-in-raw", "garbage", "other-format-sibling"}
var stacks = []string{"none", "none", "cache", "repaircache", "router", "failover", "dedup", "writededup", "swap"}

type backend struct {
	evilMode     string
	kind         string
	uncompressed bool
	dir          string    // backing directory (all but s3)
	s3           *fakes.S3 // s3
	closers      []func()
	open         func() (desync.Store, error) // opens a fresh client store
	cliLoc       string                       // the same store as a CLI location ("" = not addressable)
	cliEnv       []string
}

func (b *backend) objPath(id desync.ChunkID) string {
	s := id.String()
	ext := ".cacnk"
	if b.uncompressed {
		ext = ""
	}
	return filepath.Join(s[:4], s+ext)
}

func (b *backend) read(id desync.ChunkID) []byte {
	if b.s3 != nil {
		d, _ := b.s3.Get(filepath.ToSlash(b.objPath(id)))
		return d
	}
	d, _ := os.ReadFile(filepath.Join(b.dir, b.objPath(id)))
	return d
}

func (b *backend) write(id desync.ChunkID, data []byte) {
	if b.s3 != nil {
		b.s3.Put(filepath.ToSlash(b.objPath(id)), data)
		return
	}
	dsu.WriteFile(filepath.Join(b.dir, b.objPath(id)), data)
}

func (b *backend) close() {
	for _, f := range b.closers {
		f()
	}
}

func newBackend(kind string, uncompressed bool, dir string) *backend {
	b := &backend{kind: kind, uncompressed: uncompressed, dir: filepath.Join(dir, "backing")}
	os.MkdirAll(b.dir, 0755)
	opt := desync.StoreOptions{Uncompressed: uncompressed, N: 1, ErrorRetry: 0}
	var conv desync.Converters
	if !uncompressed {
		conv = desync.Converters{desync.Compressor{}}
	}
	switch kind {
	case "local":
		b.open = func() (desync.Store, error) { return desync.NewLocalStore(b.dir, opt) }
		b.cliLoc = b.dir
	case "http-handler", "http-skipverify":
		up, _ := desync.NewLocalStore(b.dir, desync.StoreOptions{Uncompressed: uncompressed, SkipVerify: kind == "http-skipverify"})
		srv := httptest.NewServer(desync.NewHTTPHandler(up, false, false, conv, ""))
		b.closers = append(b.closers, srv.Close)
		b.open = func() (desync.Store, error) {
			u, _ := url.Parse(srv.URL)
			return desync.NewRemoteHTTPStore(u, opt)
		}
		b.cliLoc = srv.URL + "/"
	case "http-files":
		srv := httptest.NewServer(http.FileServer(http.Dir(b.dir)))
		b.closers = append(b.closers, srv.Close)
		b.open = func() (desync.Store, error) {
			u, _ := url.Parse(srv.URL)
			return desync.NewRemoteHTTPStore(u, opt)
		}
		b.cliLoc = srv.URL + "/"
	case "s3":
		b.s3 = fakes.NewS3("bucket")
		b.closers = append(b.closers, b.s3.Close)
		b.open = func() (desync.Store, error) {
			return desync.NewS3Store(b.s3.URL(""), fakes.Creds(), fakes.Region, opt, fakes.Lookup)
		}
		b.cliLoc = strings.TrimSuffix(b.s3.URL("").String(), "/") + "?lookup=path"
		b.cliEnv = []string{"S3_ACCESS_KEY=key", "S3_SECRET_KEY=secret", "S3_REGION=" + fakes.Region}
	case "sftp":
		b.open = func() (desync.Store, error) {
			os.Setenv("CASYNC_SSH_PATH", shim)
			u, _ := url.Parse("sftp://localhost" + b.dir)
			return desync.NewSFTPStore(u, opt)
		}
		b.cliLoc = "sftp://localhost" + b.dir
		b.cliEnv = []string{"CASYNC_SSH_PATH=" + shim}
	case "ssh", "ssh-evil":
		b.uncompressed = false
		b.open = func() (desync.Store, error) {
			os.Setenv("CASYNC_SSH_PATH", shim)
			os.Setenv("CASYNC_REMOTE_PATH", cli)
			if kind == "ssh-evil" {
				os.Setenv("SHIM_EVIL", b.dir)
				os.Setenv("SHIM_EVIL_MODE", b.evilMode)
			} else {
				os.Unsetenv("SHIM_EVIL")
			}
			u, _ := url.Parse("ssh://localhost" + b.dir)
			return desync.NewRemoteSSHStore(u, opt)
		}
		if kind == "ssh" {
			b.cliLoc = "ssh://localhost" + b.dir
			b.cliEnv = []string{"CASYNC_SSH_PATH=" + shim, "CASYNC_REMOTE_PATH=" + cli}
		}
	}
	return b
}

func storageForm(data []byte, uncompressed bool) []byte {
	if uncompressed {
		return append([]byte(nil), data...)
	}
	return zenc.EncodeAll(data, nil)
}

func corrupt(rng *rand.Rand, kind string, obj []byte, plain []byte, otherObj []byte, uncompressed bool) []byte {
	out := append([]byte(nil), obj...)
	switch kind {
	case "flip-first":
		if len(out) > 0 {
			out[0] ^= 1 << uint(rng.Intn(8))
		}
	case "flip-middle":
		if len(out) > 0 {
			out[len(out)/2] ^= 1 << uint(rng.Intn(8))
		}
	case "flip-last":
		if len(out) > 0 {
			out[len(out)-1] ^= 1 << uint(rng.Intn(8))
		}
	case "trunc-0":
		out = []byte{}
	case "trunc-1":
		out = out[:min(1, len(out))]
	case "trunc-half":
		out = out[:len(out)/2]
	case "trunc-last":
		if len(out) > 0 {
			out = out[:len(out)-1]
		}
	case "other-chunk":
		out = append([]byte(nil), otherObj...)
	case "other-frame":
		g := make([]byte, 100+rng.Intn(2000))
		rng.Read(g)
		out = storageForm(g, uncompressed)
	case "raw-in-cacnk", "frame-in-raw":
		if uncompressed {
			out = zenc.EncodeAll(plain, nil) // a frame where raw bytes belong
		} else {
			out = append([]byte(nil), plain...) // raw bytes where a frame belongs
		}
	case "garbage":
		out = make([]byte, 1+rng.Intn(len(obj)+10))
		rng.Read(out)
	}
	return out
}

func wrap(kind string, s desync.Store, cache *dsu.MemStore) desync.Store {
	switch kind {
	case "cache":
		return desync.NewCache(s, cache)
	case "repaircache":
		return desync.NewCache(s, desync.NewRepairableCache(cache))
	case "router":
		empty := dsu.NewMemStore("empty")
		return desync.NewStoreRouter(empty, s)
	case "failover":
		down := dsu.NewMemStore("down")
		down.Fault = func(op string, n int64, id desync.ChunkID) error { return dsu.ErrInjected{Msg: "down"} }
		return desync.NewFailoverGroup(down, s)
	case "dedup":
		return desync.NewDedupQueue(s)
	case "writededup":
		if ws, ok := s.(desync.WriteStore); ok {
			return desync.NewWriteDedupQueue(ws)
		}
		return desync.NewDedupQueue(s)
	case "swap":
		return desync.NewSwapStore(s)
	}
	return s
}

// delivered checks the oracle on one GetChunk result. Returns true if a (valid) chunk was delivered.
func delivered(c *harness.Ctx, what string, id desync.ChunkID, ch *desync.Chunk, err error) bool {
	if err != nil {
		return false
	}
	if ch == nil {
		c.Violation("nil-chunk", "%s: GetChunk returned (nil, nil)", what)
		return false
	}
	b, derr := ch.Data()
	if derr != nil {
		return false // no bytes were delivered
	}
	if dsu.Sum(b) != id {
		c.Violation("bad-chunk-delivered", "%s: GetChunk(%x) returned nil error and %d bytes that do not hash to the requested ID", what, id[:4], len(b))
		return false
	}
	return true
}

func makeTree(rng *rand.Rand, dir string) {
	os.MkdirAll(dir, 0755)
	for d := 0; d < 2; d++ {
		sub := filepath.Join(dir, fmt.Sprintf("dir%d", d))
		os.MkdirAll(sub, 0755)
		for f := 0; f < 2+rng.Intn(3); f++ {
			b := make([]byte, rng.Intn(2500))
			if rng.Intn(3) != 0 {
				rng.Read(b)
			}
			dsu.WriteFile(filepath.Join(sub, fmt.Sprintf("f%d", f)), b)
		}
	}
}

func run(c *harness.Ctx, i int) {
	rng := c.Rng
	desync.Digest = desync.SHA512256{}
	dir := c.CaseDir()
	kind := backends[rng.Intn(len(backends))]
	uncompressed := rng.Intn(2) == 0
	corr := corruptions[rng.Intn(len(corruptions))]
	stack := stacks[rng.Intn(len(stacks))]
	b := newBackend(kind, uncompressed, dir)
	defer b.close()
	b.evilMode = []string{"other-id", "requested-id", "unflagged-plain", "unflagged-compressed", "unflagged-garbage", "unflagged-empty"}[rng.Intn(6)]
	uncompressed = b.uncompressed

	// the blob is a catar of a small tree, so that untar -i can be a consumer
	tree := filepath.Join(dir, "tree")
	makeTree(rng, tree)
	var cat bytes.Buffer
	dsu.Must(desync.Tar(context.Background(), &cat, desync.NewLocalFS(tree, desync.LocalFSOptions{})))
	blob := cat.Bytes()
	sz := dsu.Sizes{Min: 256, Avg: 512, Max: 1024}
	idx := dsu.RefIndex(blob, sz)
	idx.Index.FeatureFlags |= desync.TarFeatureFlags
	plain := map[desync.ChunkID][]byte{}
	var ids []desync.ChunkID
	for _, ch := range idx.Chunks {
		if _, ok := plain[ch.ID]; !ok {
			ids = append(ids, ch.ID)
		}
		plain[ch.ID] = blob[ch.Start : ch.Start+ch.Size]
		b.write(ch.ID, storageForm(plain[ch.ID], uncompressed))
	}
	if len(ids) < 2 {
		c.Info("backend=%s too few chunks", kind)
		return
	}
	// the poisoned chunk must be one that consumers really have to fetch: not the null chunk, which is served from memory
	nullID := dsu.Sum(make([]byte, sz.Max))
	var cand []desync.ChunkID
	for _, id := range ids {
		if id != nullID {
			cand = append(cand, id)
		}
	}
	if len(cand) == 0 {
		c.Info("backend=%s only null chunks", kind)
		return
	}
	a := cand[rng.Intn(len(cand))]
	other := ids[0]
	if other == a {
		other = ids[1]
	}
	c.Info("backend=%s uncompressed=%v corruption=%s stack=%s chunks=%d", kind, uncompressed, corr, stack, len(ids))
	c.LogInfo()

	base, err := b.open()
	if err != nil {
		c.Skip("cannot open backend %s: %v", kind, err)
		return
	}
	defer base.Close()
	cache := dsu.NewMemStore("cache")
	s1 := wrap(stack, base, cache)

	// 1. healthy read
	ch, err := s1.GetChunk(a)
	if kind != "ssh-evil" {
		if err != nil {
			c.Violation("healthy-read-failed", "GetChunk of an intact chunk through %s/%s failed: %v", kind, stack, err)
			return
		}
		if !delivered(c, "healthy read", a, ch, err) {
			return
		}
	} else {
		// the hostile server always answers with another chunk: nothing valid can be delivered for a
		delivered(c, "hostile server", a, ch, err)
		if err == nil {
			c.Count("evil_accepted", 1)
		}
		c.NonTrivial("%s|%v|hostile-%s|%s", kind, uncompressed, b.evilMode, stack)
		c.Count("cases_with_poisoned_request", 1)
		return
	}

	// 1b. a delivered chunk stays what it is while other chunks are fetched through the same store
	held := ch
	for _, id := range ids {
		if id != a {
			if o, err := s1.GetChunk(id); err == nil {
				o.Data()
			}
		}
	}
	if hb, herr := held.Data(); herr != nil || dsu.Sum(hb) != a {
		c.Violation("delivered-chunk-changed", "%s/%s: the bytes of a delivered chunk %x changed after other chunks were fetched through the same store (buffer reuse?)", kind, stack, a[:4])
		return
	}

	// 2. corrupt the stored object of a
	orig := b.read(a)
	if corr == "other-format-sibling" {
		// the object in the store's own format is gone; under the name the OTHER format would use for this ID sits a
		// file that does not hold the chunk (a directory once used with the other setting, a merge of two stores):
		// a store that looks there must not take what it finds for the chunk
		wrong := append([]byte(nil), plain[a]...)
		switch rng.Intn(3) {
		case 0:
			wrong[rng.Intn(len(wrong))] ^= 0x20
		case 1:
			wrong = append([]byte(nil), plain[other]...)
		case 2:
			wrong = wrong[:len(wrong)/2]
		}
		sib := &backend{kind: b.kind, uncompressed: !uncompressed, dir: b.dir, s3: b.s3}
		sib.write(a, storageForm(wrong, !uncompressed))
		if b.s3 != nil {
			b.s3.Delete(filepath.ToSlash(b.objPath(a)))
		} else {
			os.Remove(filepath.Join(b.dir, b.objPath(a)))
		}
		corr = "other-format-sibling"
	}
	bad := orig
	if corr != "other-format-sibling" {
		bad = corrupt(rng, corr, orig, plain[a], b.read(other), uncompressed)
	}
	if corr != "other-format-sibling" && bytes.Equal(bad, orig) {
		c.Info("backend=%s corruption=%s was a no-op", kind, corr)
		return
	}
	if corr != "other-format-sibling" {
		b.write(a, bad)
	}

	// 3. read again through the same stack (a cache may legitimately serve its valid copy) and through a fresh one
	ch, err = s1.GetChunk(a)
	delivered(c, "second read, same stack ("+stack+")", a, ch, err)
	base2, err := b.open()
	if err != nil {
		c.Skip("cannot reopen backend %s: %v", kind, err)
		return
	}
	defer base2.Close()
	s2 := wrap(stack, base2, dsu.NewMemStore("cache2"))
	ch, err = s2.GetChunk(a)
	got := delivered(c, "read through a fresh stack ("+stack+")", a, ch, err)
	if got {
		c.Violation("poisoned-object-served", "%s/%s: the stored object of %x was replaced (%s) yet a fresh store delivered a valid chunk for it (where from?)", kind, stack, a[:4], corr)
		return
	}
	c.Count("cases_with_poisoned_request", 1)
	c.Count("poisoned_rejected", 1)

	// 3b. the all-zero ID is what Chunk.ID() answers for an object that cannot be decoded: an undecodable object
	// stored under that ID must not pass for verified (no data hashes to it, so nothing valid can be stored there)
	if i%5 == 2 && kind != "ssh" {
		var zero desync.ChunkID
		junk := make([]byte, 20+rng.Intn(200))
		rng.Read(junk)
		b.write(zero, junk)
		if base3, err := b.open(); err == nil {
			s3 := wrap(stack, base3, dsu.NewMemStore("cache3"))
			zc, zerr := s3.GetChunk(zero)
			if zerr == nil {
				if zc == nil {
					c.Violation("nil-chunk", "zero id: GetChunk returned (nil, nil)")
				} else if zb, derr := zc.Data(); derr != nil || dsu.Sum(zb) != zero {
					c.Violation("zero-id-accepted", "%s/%s: %d random bytes stored under the all-zero chunk ID: GetChunk returned a chunk and no error although the object does not hash to that ID (Data() says: %v)", kind, stack, len(junk), derr)
				}
			}
			c.Count("zero_id_requests", 1)
			base3.Close()
		}
	}

	// 4. consumers over the poisoned store
	consumers(c, rng, dir, s2, blob, idx, a, tree)
	if b.cliLoc != "" && stack == "none" && rng.Intn(2) == 0 {
		cliConsumers(c, dir, b, blob, idx)
	}

	// 5. repair: corrupted cache entry in front of a healthy upstream
	if kind == "local" {
		up := dsu.NewMemStore("up")
		for id, p := range plain {
			up.PutRaw(id, p)
		}
		ls, _ := desync.NewLocalStore(b.dir, desync.StoreOptions{Uncompressed: uncompressed})
		rc := desync.NewCache(up, desync.NewRepairableCache(ls))
		ch, err := rc.GetChunk(a)
		if err != nil || !delivered(c, "repairing cache", a, ch, err) {
			c.Violation("repair-failed", "cache with repair in front of a healthy upstream did not deliver the chunk whose cache entry was corrupted (%s): %v", corr, err)
			return
		}
		fresh, _ := desync.NewLocalStore(b.dir, desync.StoreOptions{Uncompressed: uncompressed})
		ch2, err2 := fresh.GetChunk(a)
		if err2 != nil || !delivered(c, "cache after repair", a, ch2, err2) {
			c.Violation("repair-incomplete", "after the repairing read the cache still holds an invalid object for %x: %v", a[:4], err2)
			return
		}
		c.Count("repairs", 1)
	}
	c.NonTrivial("%s|%v|%s|%s", kind, uncompressed, corr, stack)
	c.Sample(map[string]interface{}{"backend": kind, "uncompressed": uncompressed, "corruption": corr, "stack": stack, "object_bytes_before": len(orig), "object_bytes_after": len(bad)})
}

func consumers(c *harness.Ctx, rng *rand.Rand, dir string, s desync.Store, blob []byte, idx desync.Index, a desync.ChunkID, tree string) {
	// extract
	out := filepath.Join(dir, "extract.out")
	_, err := desync.AssembleFile(context.Background(), out, idx, s, nil, desync.AssembleOptions{N: 1 + rng.Intn(4)})
	if err == nil {
		got, _ := os.ReadFile(out)
		if !bytes.Equal(got, blob) {
			c.Violation("consumer-extract", "AssembleFile over a store with a poisoned chunk reported success with output that differs from the blob")
		} else {
			c.Violation("consumer-extract-succeeded", "AssembleFile succeeded although chunk %x cannot be obtained", a[:4])
		}
		return
	}
	// cat
	ip := desync.NewIndexReadSeeker(idx, s)
	var buf bytes.Buffer
	_, err = io.Copy(&buf, ip)
	if err == nil || !bytes.HasPrefix(blob, buf.Bytes()) {
		c.Violation("consumer-cat", "reading through the index: err=%v, %d bytes emitted, correct prefix=%v", err, buf.Len(), bytes.HasPrefix(blob, buf.Bytes()))
		return
	}
	// a reader that survives the error and is used again (a mount handle does): re-issued reads at the same place,
	// reads after stepping back and forth; whatever is returned without error must be the blob's bytes at that place
	at := int64(buf.Len())
	for k := 0; k < 6; k++ {
		var want int64
		switch k % 3 {
		case 0:
			want = at
		case 1:
			want = at / 2
		case 2:
			want = at + int64(rng.Intn(len(blob)-int(at)+1))
		}
		got, serr := ip.Seek(want, io.SeekStart)
		if serr != nil || got != want {
			continue
		}
		p := make([]byte, 1+rng.Intn(3000))
		n, rerr := ip.Read(p)
		if n > 0 && (want+int64(n) > int64(len(blob)) || !bytes.Equal(p[:n], blob[want:want+int64(n)])) {
			c.Violation("consumer-cat-retry", "a reader that had failed on the poisoned chunk was used again: Read at %d returned %d bytes (err %v) that are not the blob's bytes there", want, n, rerr)
			return
		}
		c.Count("reads_after_failure", 1)
	}
	// untar -i
	dst := filepath.Join(dir, "untar.dst")
	os.MkdirAll(dst, 0755)
	err = desync.UnTarIndex(context.Background(), desync.NewLocalFS(dst, desync.LocalFSOptions{}), idx, s, 1+rng.Intn(4), &dsu.CountPB{})
	if err == nil {
		c.Violation("consumer-untar", "UnTarIndex over a store with a poisoned chunk reported success")
		return
	}
	// every regular file that was unpacked completely must be right, or be a prefix of the original
	filepath.Walk(dst, func(p string, info os.FileInfo, werr error) error {
		if werr != nil || !info.Mode().IsRegular() {
			return nil
		}
		rel, _ := filepath.Rel(dst, p)
		want, rerr := os.ReadFile(filepath.Join(tree, rel))
		got, _ := os.ReadFile(p)
		if rerr != nil || !bytes.HasPrefix(want, got) {
			c.Violation("consumer-untar-bytes", "untar -i wrote %s with bytes that are not a prefix of the original", rel)
		}
		return nil
	})
	// index mount
	ff, err := dsu.MountBridge(desync.NewIndexMountFS(idx, "blob", s), "blob")
	if err == nil {
		fh, _ := ff.Open()
		var pos uint64
		failed := false
		for pos < uint64(len(blob)) {
			b, st := ff.Read(fh, pos, 700)
			if st != 0 {
				if failed && rng.Intn(2) == 0 {
					pos += 700 // give up on this range, go on behind it with the same handle
					continue
				}
				failed = true
				for r := 0; r < 2; r++ { // the application retries the read on the same handle
					if b2, st2 := ff.Read(fh, pos, 700); st2 == 0 && !bytes.Equal(b2, blob[pos:min(int(pos)+700, len(blob))]) {
						c.Violation("consumer-mount-retry", "index mount: the re-issued read at %d (after EIO) returned bytes that differ from the blob", pos)
						return
					}
				}
				pos += 700
				continue
			}
			if !bytes.Equal(b, blob[pos:min(int(pos)+700, len(blob))]) {
				c.Violation("consumer-mount", "index mount read at %d returned bytes that differ from the blob", pos)
				return
			}
			pos += uint64(len(b))
			if len(b) == 0 {
				break
			}
		}
		if !failed {
			c.Violation("consumer-mount", "reading the whole file of the index mount succeeded over a poisoned store")
			return
		}
	}
	// sparse file
	sf, err := desync.NewSparseFile(filepath.Join(dir, "sparse.cache"), idx, s, desync.SparseFileOptions{})
	if err == nil {
		h, _ := sf.Open()
		failed := false
		for pos := 0; pos < len(blob); pos += 600 {
			b := make([]byte, 600)
			n, rerr := h.ReadAt(b, int64(pos))
			if rerr != nil && rerr != io.EOF {
				failed = true
				continue
			}
			if !bytes.Equal(b[:n], blob[pos:min(pos+600, len(blob))]) {
				c.Violation("consumer-sparse", "sparse file read at %d returned nil error and bytes that differ from the blob", pos)
				return
			}
		}
		h.Close()
		if !failed {
			c.Violation("consumer-sparse", "every sparse file read succeeded over a poisoned store")
			return
		}
	}
	// a new sparse file pre-loaded from the state file of an earlier mount that had read everything
	stateFile := filepath.Join(dir, "sparse.state")
	st := bytes.Repeat([]byte{0xff}, (len(idx.Chunks)+7)/8)
	dsu.WriteFile(stateFile, st)
	sf2, err := desync.NewSparseFile(filepath.Join(dir, "sparse2.cache"), idx, s, desync.SparseFileOptions{StateInitFile: stateFile, StateInitConcurrency: 1 + rng.Intn(4)})
	if err == nil {
		h, _ := sf2.Open()
		failed := false
		for round := 0; round < 2; round++ { // (the pre-loading runs in the background: read everything twice)
			for pos := 0; pos < len(blob); pos += 600 {
				b := make([]byte, 600)
				n, rerr := h.ReadAt(b, int64(pos))
				if rerr != nil && rerr != io.EOF {
					failed = true
					continue
				}
				if !bytes.Equal(b[:n], blob[pos:min(pos+600, len(blob))]) {
					c.Violation("consumer-sparse-preload", "sparse file pre-loaded from a state file: read at %d returned nil error and bytes that differ from the blob", pos)
					return
				}
			}
		}
		h.Close()
		if !failed {
			c.Violation("consumer-sparse-preload", "every read of the pre-loaded sparse file succeeded over a poisoned store")
			return
		}
	}
	c.Count("consumer_runs", 1)
	_ = strings.TrimSpace
}

// cliConsumers: the commands themselves must exit non-zero over the poisoned store and not emit wrong bytes.
func cliConsumers(c *harness.Ctx, dir string, b *backend, blob []byte, idx desync.Index) {
	idxFile := filepath.Join(dir, "poisoned.caidx")
	dsu.Must(dsu.WriteIndex(idxFile, idx))
	cfg := filepath.Join(dir, "cli-config.json")
	dsu.WriteFile(cfg, []byte(fmt.Sprintf(`{"store-options": {%q: {"uncompressed": %v, "error-retry": 1}}}`, b.cliLoc, b.uncompressed)))
	// (every other case with --trust-insecure: a switch about TLS certificates, nothing to do with chunk validation)
	trust := c.Rng.Intn(2) == 0
	run := func(args ...string) ([]byte, []byte, error) {
		if trust && len(args) > 0 && (args[0] == "extract" || args[0] == "cat" || args[0] == "untar") {
			args = append([]string{args[0], "-t"}, args[1:]...)
		}
		cmd := exec.Command(cli, append([]string{"--config", cfg}, args...)...)
		cmd.Env = append(append(os.Environ(), "HOME="+dir), b.cliEnv...)
		var so, se bytes.Buffer
		cmd.Stdout, cmd.Stderr = &so, &se
		err := cmd.Run()
		return so.Bytes(), se.Bytes(), err
	}
	out := filepath.Join(dir, "cli-extract.out")
	if _, se, err := run("extract", "-s", b.cliLoc, "-e", "1", idxFile, out); err == nil {
		got, _ := os.ReadFile(out)
		c.Violation("cli-extract", "`desync extract` over a %s store with a poisoned chunk exited 0 (output equals blob: %v) %s", b.kind, bytes.Equal(got, blob), se)
		return
	} else if bytes.Contains(se, []byte("panic:")) {
		c.Violation("cli-crash", "%s", se)
		return
	}
	if so, se, err := run("cat", "-s", b.cliLoc, "-e", "1", idxFile); err == nil || !bytes.HasPrefix(blob, so) {
		c.Violation("cli-cat", "`desync cat` over a %s store with a poisoned chunk: exit error %v, %d bytes on stdout, correct prefix=%v %s", b.kind, err, len(so), bytes.HasPrefix(blob, so), se)
		return
	}
	dst := filepath.Join(dir, "cli-untar.dst")
	os.MkdirAll(dst, 0755)
	if _, se, err := run("untar", "-i", "-s", b.cliLoc, "-e", "1", "--no-same-owner", idxFile, dst); err == nil {
		c.Violation("cli-untar", "`desync untar -i` over a %s store with a poisoned chunk exited 0 %s", b.kind, se)
		return
	}
	// the poisoned store as the second member of a failover group whose first member is down and - as recommended for
	// a chunk server in the chain - configured with skip-verify: the options of one member are not those of the other
	if !strings.Contains(b.cliLoc, "|") {
		down := httptest.NewServer(http.HandlerFunc(func(w http.ResponseWriter, r *http.Request) { http.Error(w, "down", 500) }))
		defer down.Close()
		cfg2 := filepath.Join(dir, "cli-config-group.json")
		dsu.WriteFile(cfg2, []byte(fmt.Sprintf(`{"store-options": {%q: {"skip-verify": true, "error-retry": 0}, %q: {"uncompressed": %v, "error-retry": 1}}}`, down.URL+"/", b.cliLoc, b.uncompressed)))
		group := down.URL + "/|" + b.cliLoc
		cmd := exec.Command(cli, "--config", cfg2, "cat", "-s", group, idxFile)
		cmd.Env = append(append(os.Environ(), "HOME="+dir), b.cliEnv...)
		var so, se bytes.Buffer
		cmd.Stdout, cmd.Stderr = &so, &se
		if err := cmd.Run(); err == nil || !bytes.HasPrefix(blob, so.Bytes()) {
			c.Violation("cli-cat-group", "`desync cat -s 'down-http|%s'` (skip-verify configured for the first member only) over a poisoned second member: exit error %v, %d bytes on stdout, correct prefix=%v %s", b.kind, err, so.Len(), bytes.HasPrefix(blob, so.Bytes()), se.String())
			return
		}
		c.Count("cli_group_runs", 1)
	}
	c.Count("cli_consumer_runs", 1)
}
