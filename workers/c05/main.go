// C05: tar then untar reproduces the directory tree.
package main

import (
	"archive/tar"
	"bufio"
	"bytes"
	"context"
	"crypto/sha256"
	"crypto/sha512"
	"fmt"
	"io"
	"os"
	"os/exec"
	"path/filepath"
	"sort"
	"strconv"
	"strings"
	"syscall"
	"time"

	"github.com/folbricht/desync"
	"golang.org/x/sys/unix"

	"verif/dsu"
	"verif/harness"
	"verif/treegen"
)

var cli string

func main() {
	harness.Main(&harness.Config{
		Prop:  "C05",
		Level: "exploration",
		Rule: "Generated trees (nesting <=5, fan-out up to hundreds, empty directories, names of arbitrary bytes, files 0 B..several chunks, symlinks of every kind, random uid/gid, set-id/sticky modes, mtimes with ns precision / before 1970 / far future / exactly 0, user xattrs on files and directories, char and block devices) " +
			"through the paths {Tar->catar->UnTar, tar -i->store->untar -i (library and CLI, sha512-256 and sha256), tar-stream input (GNU tar and Go archive/tar streams of the tree), gnu-tar output (read back by Go's tar reader and GNU tar), mtree output (own line parser)}; two packs of the same tree must be byte-identical. " +
			"Oracle: typed snapshot diff (path, type, permission+special bits, uid, gid, symlink target, xattrs, rdev, content hash, mtime); for the tar-stream and gnu-tar/mtree legs only the fields the format carries. Differences are classified by (writer, entry type, field) so that each known finding covers one class. " +
			"Non-trivial: tree with >=3 entry types and >=1 non-default metadata field; distinct by (path, digest, features)",
		Assumptions:   []string{"runs as root on ext4 (chown, mknod, user xattrs available)", "tar-stream ground truth is what Go's archive/tar reader reports for the stream; gnu-tar output is read back with Go's tar reader and listed with GNU tar"},
		Cases:         cases,
		Run:           run,
		ParentSetup:   parentSetup,
		Setup:         func(c *harness.Ctx) { cli = os.Getenv("VERIF_CLI") },
		MinNonTrivial: 20,
		CaseTimeout:   180 * time.Second,
	})
}

func cases(tier string) int {
	if tier == "thorough" {
		return 12000
	}
	return 1500
}

func parentSetup(tier string, seed int64, work string) ([]string, error) {
	p, err := harness.BuildCLI(work, "desync-verif", "verif", false)
	if err != nil {
		return nil, err
	}
	return []string{"VERIF_CLI=" + p}, nil
}

// report turns typed diffs into violations, one class per (writer, type, field[, qualifier]).
func report(c *harness.Ctx, writer string, diffs []treegen.Diff, want map[string]treegen.Snap) bool {
	seen := map[string]bool{}
	for _, d := range diffs {
		q := ""
		if d.Field == "mtime" {
			w := want[d.Path]
			switch {
			case w.MTime == 0:
				q = "-zero"
			case d.Type == "dir" && hasChildren(want, d.Path):
				q = "-nonempty"
			}
		}
		if d.Field == "mode" {
			w, _ := strconv.ParseUint(d.Want, 8, 32)
			g, _ := strconv.ParseUint(d.Got, 8, 32)
			if w&0777 == g&0777 {
				q = "-special-bits"
			}
		}
		class := fmt.Sprintf("%s:%s:%s%s", writer, d.Type, d.Field, q)
		if seen[class] {
			continue
		}
		seen[class] = true
		c.Violation(class, "%s: %q (%s) field %s: want %s, got %s", writer, d.Path, d.Type, d.Field, d.Want, d.Got)
	}
	return len(diffs) == 0
}

func hasChildren(m map[string]treegen.Snap, dir string) bool {
	prefix := dir + "/"
	if dir == "." {
		return len(m) > 1
	}
	for p := range m {
		if strings.HasPrefix(p, prefix) {
			return true
		}
	}
	return false
}

func run(c *harness.Ctx, i int) {
	rng := c.Rng
	sha256d := rng.Intn(3) == 0
	if sha256d {
		desync.Digest = desync.SHA256{}
	} else {
		desync.Digest = desync.SHA512256{}
	}
	o := treegen.Options{MaxDepth: rng.Intn(5), MaxFanout: 1 + rng.Intn(10), FixedFanout: -1, Devices: rng.Intn(2) == 0, Xattrs: rng.Intn(2) == 0, OddNames: rng.Intn(2) == 0, OddMeta: rng.Intn(3) != 0, BigFiles: rng.Intn(3) == 0, ZeroMTime: rng.Intn(4) == 0}
	if rng.Intn(12) == 0 {
		o.FixedFanout = 200 + rng.Intn(800)
		o.MaxDepth = 1
	}
	leg := []string{"catar", "catar", "index", "index-cli", "tar-in", "gnu-tar-out", "mtree-out"}[rng.Intn(7)]
	if i%16 == 5 {
		oneFileSystem(c, o)
		return
	}
	entries := treegen.Generate(rng, o)
	c.Info("leg=%s sha256=%v entries=%d depth<=%d devices=%v xattrs=%v oddnames=%v oddmeta=%v zero-mtime=%v", leg, sha256d, len(entries), o.MaxDepth, o.Devices, o.Xattrs, o.OddNames, o.OddMeta, o.ZeroMTime)
	c.LogInfo()
	dir := c.CaseDir()
	src := filepath.Join(dir, "src")
	if err := treegen.Materialize(src, entries); err != nil {
		c.Skip("cannot materialize: %v", err)
		return
	}
	want, err := treegen.Snapshot(src)
	dsu.Must(err)
	types := map[string]bool{}
	oddField := false
	for _, s := range want {
		types[s.Type] = true
		if s.Mode&07000 != 0 || s.UID != 0 || len(s.Xattrs) > 0 || s.MTime < 0 {
			oddField = true
		}
	}

	// pack twice: identical bytes
	var cat, cat2 bytes.Buffer
	if err := desync.Tar(context.Background(), &cat, desync.NewLocalFS(src, desync.LocalFSOptions{})); err != nil {
		c.Violation("tar-failed", "%v", err)
		return
	}
	dsu.Must(desync.Tar(context.Background(), &cat2, desync.NewLocalFS(src, desync.LocalFSOptions{})))
	if !bytes.Equal(cat.Bytes(), cat2.Bytes()) {
		c.Violation("nondeterministic-archive", "two packs of the same tree differ (%d vs %d bytes)", cat.Len(), cat2.Len())
		return
	}
	// packing must not have changed the source (atime aside)
	after, _ := treegen.Snapshot(src)
	if d := treegen.Compare(want, after); len(d) > 0 {
		c.Violation("source-modified", "packing changed the source tree: %+v", d[0])
		return
	}
	dst := filepath.Join(dir, "dst")
	os.MkdirAll(dst, 0755)
	ok := true
	switch leg {
	case "catar":
		overlay := rng.Intn(3) == 0
		outside := filepath.Join(dir, "outside-file")
		if overlay {
			// the destination already holds an older copy of the tree in which some paths were something else: a
			// symlink (dangling, or to a file outside) where a file comes now, a file where a symlink or device comes,
			// files with other content, mode, owner, times and attributes that are gone in the new version
			os.WriteFile(outside, []byte("outside\n"), 0600)
			var older []treegen.Entry
			for _, e := range entries {
				o := e
				if e.Path != "." && e.Kind != "dir" && rng.Intn(2) == 0 {
					switch e.Kind {
					case "file":
						if rng.Intn(2) == 0 {
							o = treegen.Entry{Path: e.Path, Kind: "symlink", Mode: 0777, Target: []string{outside, "dangling", "."}[rng.Intn(3)], MTime: 1400000000_000000000}
						} else {
							o.Data = []byte("older content")
							o.Mode = 0600
							o.MTime = 1400000000_000000000
							o.UID, o.GID = 7, 8
							o.Xattrs = map[string]string{"user.stale": "left over"}
						}
					default: // symlink, chr, blk
						o = treegen.Entry{Path: e.Path, Kind: "file", Mode: 0640, Data: []byte("was a file once"), MTime: 1400000000_000000000, Xattrs: map[string]string{"user.stale": "left over"}}
					}
				}
				older = append(older, o)
			}
			if err := treegen.Materialize(dst, older); err != nil {
				c.Skip("cannot materialize the older copy: %v", err)
				return
			}
			c.Count("unpacked_over_older_copy", 1)
			leg = "catar-over-older-copy"
		}
		if err := desync.UnTar(context.Background(), bytes.NewReader(cat.Bytes()), desync.NewLocalFS(dst, desync.LocalFSOptions{})); err != nil {
			c.Violation("untar-failed", "UnTar of an archive desync just wrote failed: %v", err)
			return
		}
		got, _ := treegen.Snapshot(dst)
		ok = report(c, "disk", treegen.Compare(want, got), want)
		if overlay {
			if b, _ := os.ReadFile(outside); string(b) != "outside\n" {
				c.Violation("disk:overlay:wrote-through-symlink", "unpacking over an older copy changed a file outside the destination that an old symlink pointed to")
				ok = false
			}
		}
	case "index":
		ms := dsu.NewMemStore("s")
		if rng.Intn(2) == 0 {
			// a slow store (S3, SFTP): the workers storing chunks lag behind the chunker reading on
			ms.Gate = func(op string, id desync.ChunkID, n int64) {
				if op == "store" {
					time.Sleep(time.Duration(200+n%7*300) * time.Microsecond)
				}
			}
		}
		sz := dsu.Sizes{Min: 1024, Avg: 4096, Max: 16384}
		ch, err := desync.NewChunker(bytes.NewReader(cat.Bytes()), sz.Min, sz.Avg, sz.Max)
		dsu.Must(err)
		idx, err := desync.ChunkStream(context.Background(), ch, ms, 1+rng.Intn(4))
		if err != nil {
			c.Violation("chunkstream-failed", "%v", err)
			return
		}
		// through the index file format, as tar -i / untar -i do
		var ib bytes.Buffer
		idx.Index.FeatureFlags |= desync.TarFeatureFlags &^ desync.CaFormatSHA512256
		idx.WriteTo(&ib)
		idx2, err := desync.IndexFromReader(bytes.NewReader(ib.Bytes()))
		if err != nil {
			c.Violation("index-unreadable", "the index of the chunked archive cannot be read back under digest sha256=%v: %v", sha256d, err)
			return
		}
		if err := desync.UnTarIndex(context.Background(), desync.NewLocalFS(dst, desync.LocalFSOptions{}), idx2, ms, 1+rng.Intn(4), &dsu.CountPB{}); err != nil {
			c.Violation("untarindex-failed", "%v", err)
			return
		}
		got, _ := treegen.Snapshot(dst)
		ok = report(c, "disk", treegen.Compare(want, got), want)
	case "index-cli":
		store := filepath.Join(dir, "store")
		os.MkdirAll(store, 0755)
		idxFile := filepath.Join(dir, "tree.caidx")
		dg := []string{}
		if sha256d {
			dg = []string{"--digest", "sha256"}
		}
		run := func(args ...string) error {
			cmd := exec.Command(cli, append(append([]string{}, dg...), args...)...)
			cmd.Env = append(os.Environ(), "HOME="+dir)
			out, err := cmd.CombinedOutput()
			if err != nil {
				return fmt.Errorf("desync %v: %v: %s", args, err, out)
			}
			return nil
		}
		if err := run("tar", "-i", "-s", store, "-m", "1:4:16", idxFile, src); err != nil {
			c.Violation("cli-tar-failed", "%v", err)
			return
		}
		if err := run("untar", "-i", "-s", store, idxFile, dst); err != nil {
			c.Violation("cli-untar-failed", "sha256=%v: %v", sha256d, err)
			return
		}
		got, _ := treegen.Snapshot(dst)
		ok = report(c, "disk", treegen.Compare(want, got), want)
	case "tar-in":
		ok = tarIn(c, rng, src, dst, dir, want)
	case "gnu-tar-out":
		ok = gnuTarOut(c, cat.Bytes(), dir, want)
	case "mtree-out":
		ok = mtreeOut(c, cat.Bytes(), want, sha256d, src)
	}
	c.Count("trees", 1)
	c.Count("entries", int64(len(want)))
	if len(types) >= 3 && oddField {
		c.NonTrivial("%s|sha256=%v|dev%v|x%v|names%v|ok%v", leg, sha256d, o.Devices, o.Xattrs, o.OddNames, ok)
	}
	c.Sample(map[string]interface{}{"leg": leg, "sha256": sha256d, "entries": len(want), "archive_bytes": cat.Len(), "entry_types": len(types)})
}

// oneFileSystem: a tree with another filesystem (tmpfs) mounted on one of its directories, packed with the
// one-file-system option: what lives on the mounted filesystem stays out, every entry of the tree's own filesystem -
// in particular those that sort after the mount point - is reproduced.
func oneFileSystem(c *harness.Ctx, o treegen.Options) {
	rng := c.Rng
	o.MaxDepth = 1 + rng.Intn(3)
	o.FixedFanout = 3 + rng.Intn(8)
	o.Devices = false
	entries := treegen.Generate(rng, o)
	dir := c.CaseDir()
	src := filepath.Join(dir, "src")
	if err := treegen.Materialize(src, entries); err != nil {
		c.Skip("cannot materialize: %v", err)
		return
	}
	// mount point: an existing directory of the tree, or a new one whose name sorts early / in the middle / late
	var dirs []string
	for _, e := range entries {
		if e.Kind == "dir" && e.Path != "." {
			dirs = append(dirs, e.Path)
		}
	}
	mp := ""
	if len(dirs) > 0 && rng.Intn(2) == 0 {
		mp = dirs[rng.Intn(len(dirs))]
	} else {
		parent := "."
		if len(dirs) > 0 && rng.Intn(2) == 0 {
			parent = dirs[rng.Intn(len(dirs))]
		}
		mp = filepath.Join(parent, []string{"0-mnt", "m-mnt", "zzz-mnt"}[rng.Intn(3)])
		if err := os.Mkdir(filepath.Join(src, mp), 0755); err != nil {
			c.Skip("mkdir mount point: %v", err)
			return
		}
		pt := time.Unix(1500000000, 0)
		os.Chtimes(filepath.Join(src, filepath.Dir(mp)), pt, pt)
	}
	c.Info("leg=one-file-system entries=%d mount-point=%q", len(entries), mp)
	c.LogInfo()
	want, err := treegen.Snapshot(src)
	dsu.Must(err)
	if err := syscall.Mount("tmpfs", filepath.Join(src, mp), "tmpfs", 0, "size=1m"); err != nil {
		c.Count("one_file_system_skipped_no_mount", 1)
		return
	}
	defer syscall.Unmount(filepath.Join(src, mp), syscall.MNT_DETACH)
	os.WriteFile(filepath.Join(src, mp, "on-the-other-filesystem"), []byte("x"), 0644)
	os.MkdirAll(filepath.Join(src, mp, "sub", "deeper"), 0755)
	os.WriteFile(filepath.Join(src, mp, "sub", "deeper", "f"), []byte("y"), 0644)
	var cat bytes.Buffer
	if err := desync.Tar(context.Background(), &cat, desync.NewLocalFS(src, desync.LocalFSOptions{OneFileSystem: true})); err != nil {
		c.Violation("tar-failed", "one-file-system: %v", err)
		return
	}
	dst := filepath.Join(dir, "dst")
	os.MkdirAll(dst, 0755)
	if err := desync.UnTar(context.Background(), bytes.NewReader(cat.Bytes()), desync.NewLocalFS(dst, desync.LocalFSOptions{})); err != nil {
		c.Violation("untar-failed", "one-file-system archive: %v", err)
		return
	}
	got, _ := treegen.Snapshot(dst)
	// what was below the mount point before mounting is hidden; the mount point itself may or may not be recorded
	under := func(p string) bool { return p == mp || strings.HasPrefix(p, mp+"/") }
	w2 := map[string]treegen.Snap{}
	for p, sn := range want {
		if !under(p) {
			w2[p] = sn
		}
	}
	g2 := map[string]treegen.Snap{}
	for p, sn := range got {
		if strings.HasPrefix(p, mp+"/") {
			c.Violation("ofs:crossed-filesystem", "one-file-system archive holds %q, which lives on the filesystem mounted at %q", p, mp)
			return
		}
		if p != mp {
			g2[p] = sn
		}
	}
	// mtimes of the directories above the mount point changed by mounting/creating: not judged
	var diffs []treegen.Diff
	for _, d := range treegen.Compare(w2, g2) {
		if d.Field == "mtime" && (d.Path == filepath.Dir(mp) || d.Path == ".") {
			continue
		}
		diffs = append(diffs, d)
	}
	ok := report(c, "disk", diffs, w2)
	c.Count("one_file_system_trees", 1)
	c.NonTrivial("one-file-system|%s|ok%v", filepath.Base(mp), ok)
	c.Sample(map[string]interface{}{"leg": "one-file-system", "entries": len(w2), "mount_point": mp, "archive_bytes": cat.Len()})
}

// tarIn: a tar stream of the tree (GNU tar or Go's writer) -> TarReader -> catar -> disk; ground truth = what Go's tar reader says the stream holds.
func tarIn(c *harness.Ctx, rng interface{ Intn(int) int }, src, dst, dir string, srcSnap map[string]treegen.Snap) bool {
	tarFile := filepath.Join(dir, "in.tar")
	// a second link to one of the files: GNU tar writes the second name as a hard-link member without content
	hardlinks := false
	if rng.Intn(4) == 0 {
		var files []string
		for p, sn := range srcSnap {
			if sn.Type == "file" && len(p) < 200 {
				files = append(files, p)
			}
		}
		sort.Strings(files)
		if len(files) > 0 {
			f := files[rng.Intn(len(files))]
			if os.Link(filepath.Join(src, f), filepath.Join(src, f+".2nd-link")) == nil {
				hardlinks = true
				pt := time.Unix(0, srcSnap[filepath.Dir(f)].MTime)
				os.Chtimes(filepath.Join(src, filepath.Dir(f)), pt, pt)
			}
		}
	}
	producer := []string{"gnutar-gnu", "gnutar-pax"}[rng.Intn(2)]
	format := "gnu"
	args := []string{"-cf", tarFile, "--numeric-owner", "--no-recursion", "-C", src}
	if producer == "gnutar-pax" {
		format = "posix"
		args = append(args, "--xattrs", "--xattrs-include=user.*")
	}
	args = append(args, "--format="+format, "--null", "--verbatim-files-from", "-T", "-")
	// member list in depth-first order, parents first, names sorted (what desync's tar reader expects)
	var list bytes.Buffer
	var walk func(rel string)
	walk = func(rel string) {
		ents, _ := os.ReadDir(filepath.Join(src, rel))
		for _, e := range ents {
			p := e.Name()
			if rel != "." {
				p = rel + "/" + e.Name()
			}
			list.WriteString("./" + p)
			list.WriteByte(0)
			if e.IsDir() {
				walk(p)
			}
		}
	}
	list.WriteString(".")
	list.WriteByte(0)
	walk(".")
	cmd := exec.Command("tar", args...)
	cmd.Stdin = &list
	if out, err := cmd.CombinedOutput(); err != nil {
		c.Skip("GNU tar could not pack the tree: %v %s", err, out)
		return true
	}
	raw, _ := os.ReadFile(tarFile)
	// variants of the stream that other producers write: a pax global header in front (every `git archive` tarball has
	// one), and a member appended later to a directory that came earlier in the stream (`tar -r`)
	variant := []string{"plain", "plain", "global-header", "appended-member"}[rng.Intn(4)]
	switch variant {
	case "global-header":
		var gb bytes.Buffer
		tw := tar.NewWriter(&gb)
		tw.WriteHeader(&tar.Header{Typeflag: tar.TypeXGlobalHeader, Name: "pax_global_header", PAXRecords: map[string]string{"comment": "0123456789abcdef0123456789abcdef01234567"}})
		tw.Flush()
		raw = append(gb.Bytes(), raw...)
	case "appended-member":
		firstDir := ""
		for p, sn := range srcSnap {
			if sn.Type == "dir" && p != "." && !strings.Contains(p, "/") && (firstDir == "" || p < firstDir) {
				firstDir = p
			}
		}
		var last string
		for p := range srcSnap {
			if !strings.Contains(p, "/") && p > last {
				last = p
			}
		}
		if firstDir == "" || firstDir == last || len(firstDir) > 80 || strings.ContainsAny(firstDir, "\x00") {
			variant = "plain"
			break
		}
		// appended by GNU tar itself
		extra := filepath.Join(dir, "extra")
		os.MkdirAll(filepath.Join(extra, firstDir), 0755)
		os.WriteFile(filepath.Join(extra, firstDir, "appended-later"), []byte("later"), 0644)
		if out, err := exec.Command("tar", "--numeric-owner", "--no-recursion", "-rf", tarFile, "-C", extra, "./"+firstDir+"/appended-later").CombinedOutput(); err != nil {
			c.Count("tar_append_failed", 1)
			_ = out
			variant = "plain"
			break
		}
		raw, _ = os.ReadFile(tarFile)
	}
	producer += "+" + variant
	// ground truth from the stream
	want := map[string]treegen.Snap{}
	tr := tar.NewReader(bytes.NewReader(raw))
	for {
		h, err := tr.Next()
		if err == io.EOF {
			break
		}
		if err != nil {
			c.Skip("Go's tar reader rejects the stream: %v", err)
			return true
		}
		p := filepath.Clean(h.Name)
		s := treegen.Snap{Mode: uint32(h.Mode) & 07777, UID: uint32(h.Uid), GID: uint32(h.Gid), MTime: h.ModTime.UnixNano()}
		switch h.Typeflag {
		case tar.TypeDir:
			s.Type = "dir"
		case tar.TypeReg:
			s.Type = "file"
			b, _ := io.ReadAll(tr)
			s.Size = int64(len(b))
			s.Hash = sha256.Sum256(b)
		case tar.TypeSymlink:
			s.Type = "symlink"
			s.Target = h.Linkname
		case tar.TypeChar:
			s.Type = "chr"
			s.Rdev = unix.Mkdev(uint32(h.Devmajor), uint32(h.Devminor))
		case tar.TypeBlock:
			s.Type = "blk"
			s.Rdev = unix.Mkdev(uint32(h.Devmajor), uint32(h.Devminor))
		case tar.TypeLink:
			// a hard link: the content of the member it names
			t, ok := want[filepath.Clean(h.Linkname)]
			if !ok {
				continue
			}
			s.Type, s.Size, s.Hash = "file", t.Size, t.Hash
		default:
			continue
		}
		for k, v := range h.PAXRecords {
			if strings.HasPrefix(k, "SCHILY.xattr.") && v != "" { // an empty PAX value means "deleted" to Go's tar reader
				if s.Xattrs == nil {
					s.Xattrs = map[string]string{}
				}
				s.Xattrs[strings.TrimPrefix(k, "SCHILY.xattr.")] = v
			}
		}
		want[p] = s
	}
	var cat bytes.Buffer
	if err := desync.Tar(context.Background(), &cat, desync.NewTarReader(bytes.NewReader(raw), desync.TarReaderOptions{})); err != nil {
		if hardlinks {
			// the archive format has no hard links and the content is not at hand when the link member comes: refusing
			// the stream is fine, writing an empty file under the second name is not
			c.Count("tar_streams_refused_for_hard_links", 1)
			return true
		}
		if variant == "appended-member" {
			// members that do not follow their directory cannot be represented in one pass: refusing them is fine,
			// dropping them silently is not
			c.Count("tar_streams_refused_for_member_order", 1)
			return true
		}
		c.Violation("tar-from-stream-failed", "%s stream: %v", producer, err)
		return false
	}
	if err := desync.UnTar(context.Background(), bytes.NewReader(cat.Bytes()), desync.NewLocalFS(dst, desync.LocalFSOptions{})); err != nil {
		c.Violation("untar-failed", "archive made from a %s stream cannot be unpacked: %v", producer, err)
		return false
	}
	got, _ := treegen.Snapshot(dst)
	return report(c, "disk", treegen.Compare(want, got), want)
}

// gnuTarOut: catar -> TarWriter; read back with Go's tar reader (and GNU tar must be able to list it).
func gnuTarOut(c *harness.Ctx, cat []byte, dir string, want map[string]treegen.Snap) bool {
	var out bytes.Buffer
	tw := desync.NewTarWriter(&out)
	if err := desync.UnTar(context.Background(), bytes.NewReader(cat), tw); err != nil {
		c.Violation("gnutar-write-failed", "%v", err)
		return false
	}
	tw.Close()
	tarFile := filepath.Join(dir, "out.tar")
	os.WriteFile(tarFile, out.Bytes(), 0644)
	if lst, err := exec.Command("tar", "-tvf", tarFile, "--numeric-owner").CombinedOutput(); err != nil {
		c.Violation("gnutar-unreadable", "GNU tar cannot list the archive written by the gnu-tar writer: %v %s", err, lst[:min(len(lst), 300)])
		return false
	}
	got := map[string]treegen.Snap{}
	tr := tar.NewReader(bytes.NewReader(out.Bytes()))
	for {
		h, err := tr.Next()
		if err == io.EOF {
			break
		}
		if err != nil {
			c.Violation("gnutar-unreadable", "tar reader rejects the output: %v", err)
			return false
		}
		s := treegen.Snap{Mode: uint32(h.Mode) & 07777, UID: uint32(h.Uid), GID: uint32(h.Gid), MTime: h.ModTime.UnixNano()}
		switch h.Typeflag {
		case tar.TypeDir:
			s.Type = "dir"
		case tar.TypeReg:
			s.Type = "file"
			b, _ := io.ReadAll(tr)
			s.Size = int64(len(b))
			s.Hash = sha256.Sum256(b)
		case tar.TypeSymlink:
			s.Type = "symlink"
			s.Target = h.Linkname
		case tar.TypeChar:
			s.Type = "chr"
			s.Rdev = unix.Mkdev(uint32(h.Devmajor), uint32(h.Devminor))
		case tar.TypeBlock:
			s.Type = "blk"
			s.Rdev = unix.Mkdev(uint32(h.Devmajor), uint32(h.Devminor))
		}
		if len(h.Xattrs) > 0 {
			s.Xattrs = map[string]string{}
			for k, v := range h.Xattrs {
				s.Xattrs[k] = v
			}
		}
		got[filepath.Clean(h.Name)] = s
	}
	// the GNU format carries whole seconds only (entries with xattrs are PAX and carry ns); a writer may
	// truncate or round: anything within the second is accepted
	w2 := map[string]treegen.Snap{}
	for p, s := range want {
		if g, ok := got[p]; ok {
			if d := g.MTime - floorSec(s.MTime); d >= 0 && d <= 1000000000 {
				g.MTime = s.MTime
				got[p] = g
			}
		}
		// a PAX record cannot carry an empty value (archive/tar reads that as "delete"): not demanded
		if len(s.Xattrs) > 0 {
			x := map[string]string{}
			for k, v := range s.Xattrs {
				if v != "" {
					x[k] = v
				}
			}
			s.Xattrs = x
			if len(x) == 0 {
				s.Xattrs = nil
			}
		}
		w2[p] = s
	}
	return report(c, "gnutar", treegen.Compare(w2, got), w2)
}

func floorSec(ns int64) int64 {
	s := ns / 1000000000
	if ns%1000000000 < 0 {
		s--
	}
	return s * 1000000000
}

func unescapeMtree(s string) string {
	var b []byte
	for i := 0; i < len(s); i++ {
		if s[i] == '\\' && i+3 < len(s) {
			if v, err := strconv.ParseUint(s[i+1:i+4], 8, 8); err == nil {
				b = append(b, byte(v))
				i += 3
				continue
			}
		}
		b = append(b, s[i])
	}
	return string(b)
}

// mtreeOut: catar -> MtreeFS; parse the lines.
func mtreeOut(c *harness.Ctx, cat []byte, want map[string]treegen.Snap, sha256d bool, src string) bool {
	var out bytes.Buffer
	mfs, err := desync.NewMtreeFS(&out)
	dsu.Must(err)
	if err := desync.UnTar(context.Background(), bytes.NewReader(cat), mfs); err != nil {
		c.Violation("mtree-write-failed", "%v", err)
		return false
	}
	got := map[string]treegen.Snap{}
	sc := bufio.NewScanner(&out)
	sc.Buffer(make([]byte, 1<<20), 1<<24)
	first := true
	for sc.Scan() {
		line := sc.Text()
		if first {
			first = false
			if line != "#mtree v1.0" {
				c.Violation("mtree-header", "first line %q", line)
				return false
			}
			continue
		}
		f := strings.Split(line, " ")
		s := treegen.Snap{}
		p := filepath.Clean(unescapeMtree(f[0]))
		for _, kv := range f[1:] {
			x := strings.SplitN(kv, "=", 2)
			if len(x) != 2 {
				c.Violation("mtree:line-syntax", "keyword without value %q in line %q", kv, line)
				return false
			}
			switch x[0] {
			case "type":
				s.Type = map[string]string{"dir": "dir", "file": "file", "link": "symlink", "char": "chr", "block": "blk"}[x[1]]
			case "mode":
				m, _ := strconv.ParseUint(x[1], 8, 32)
				s.Mode = uint32(m)
			case "uid":
				v, _ := strconv.ParseUint(x[1], 10, 32)
				s.UID = uint32(v)
			case "gid":
				v, _ := strconv.ParseUint(x[1], 10, 32)
				s.GID = uint32(v)
			case "size":
				s.Size, _ = strconv.ParseInt(x[1], 10, 64)
			case "time":
				t := strings.SplitN(x[1], ".", 2)
				sec, e1 := strconv.ParseInt(t[0], 10, 64)
				var ns int64
				var e2 error
				if len(t) == 2 {
					if len(t[1]) != 9 {
						e2 = fmt.Errorf("nanoseconds %q", t[1])
					} else {
						ns, e2 = strconv.ParseInt(t[1], 10, 64)
					}
				}
				if e1 != nil || e2 != nil {
					c.Violation("mtree:time-syntax", "unparsable time %q in line %q", x[1], line)
					return false
				}
				s.MTime = sec*1000000000 + ns
			case "target":
				s.Target = unescapeMtree(x[1])
			case "sha512256digest", "sha256digest":
				copy(s.Hash[:], []byte(x[1])[:min(32, len(x[1]))]) // compared as text below
				s.Xattrs = map[string]string{x[0]: x[1]}
			}
		}
		got[p] = s
	}
	ok := true
	for p, w := range want {
		g, found := got[p]
		if !found {
			c.Violation("mtree:"+w.Type+":missing", "%q not listed", p)
			return false
		}
		chk := func(field string, a, b interface{}) {
			if fmt.Sprint(a) != fmt.Sprint(b) && ok {
				q := ""
				if field == "mode" {
					q = "-special-bits"
				}
				c.Violation("mtree:"+w.Type+":"+field+q, "%q: want %v, mtree says %v", p, a, b)
				ok = false
			}
		}
		chk("type", w.Type, g.Type)
		if w.Mode&0777 != g.Mode&0777 {
			chk("perm", w.Mode&0777, g.Mode&0777)
		} else {
			chk("mode", fmt.Sprintf("%o", w.Mode), fmt.Sprintf("%o", g.Mode))
		}
		chk("uid", w.UID, g.UID)
		chk("gid", w.GID, g.GID)
		if w.MTime >= 0 {
			chk("mtime", w.MTime, g.MTime)
		}
		if w.Type == "file" {
			chk("size", w.Size, g.Size)
			// the one place where file content shows in this format: keyword and value follow the configured digest
			if b, rerr := os.ReadFile(filepath.Join(src, p)); rerr == nil {
				wantKV := fmt.Sprintf("sha512256digest=%x", sha512.Sum512_256(b))
				if sha256d {
					wantKV = fmt.Sprintf("sha256digest=%x", sha256.Sum256(b))
				}
				gotKV := ""
				for k, v := range g.Xattrs {
					gotKV = k + "=" + v
				}
				chk("content-digest", wantKV, gotKV)
			}
		}
		if w.Type == "symlink" {
			chk("target", w.Target, g.Target)
		}
	}
	_ = sha512.Sum512_256
	return ok
}
