// C08: process death never exposes a partial chunk or a partial extract target.
package main

import (
	"bytes"
	"context"
	"encoding/hex"
	"fmt"
	"io"
	"math/rand"
	"net/http"
	"net/http/httptest"
	"os"
	"os/exec"
	"path/filepath"
	"strings"
	"sync"
	"sync/atomic"
	"syscall"
	"time"

	"github.com/anishathalye/porcupine"
	"github.com/folbricht/desync"
	"github.com/klauspost/compress/zstd"

	"verif/dsu"
	"verif/harness"
)

var cli, cliPlain string
var zdec, _ = zstd.NewReader(nil)

func main() {
	harness.Main(&harness.Config{
		Prop:  "C08",
		Level: "fault_enumeration",
		Rule: "Crash points. (a) `desync chop` children writing into a local store (compressed / uncompressed, n in {1,8}, duplicate-heavy inputs), killed by failpoints at the k-th hit of every step of LocalStore.StoreChunk " +
			"(after temp create+write, before rename) and after writing only the first j bytes of the temp file (j sampled over 0..len), by SIGKILL after a random delay, by strace-injected SIGKILL at the k-th write/rename syscall of the unhooked binary (thorough), " +
			"and pairs of processes storing the same chunks where one sleeps before its rename while the other dies mid-write; post-mortem walk of the store in this (separate) process: every chunk-named file must decode and hash to its name, anything else in a chunk directory must be a .tmp-cacnk* file, and prune must remove those. " +
			"(b) `desync extract` (temp-file mode and -k, n in {1,4,10}, destination absent or holding old content) SIGKILLed while the k-th chunk request is held by the HTTP store, every k: destination unchanged without -k; with -k the re-run completes with output == blob and requests no chunk more often than it has index positions that were not in place at kill time. " +
			"(c) porcupine: concurrent StoreChunk/GetChunk/HasChunk/RemoveChunk histories on a local store against a per-ID presence register, ChunkInvalid on a read is illegal. " +
			"Non-trivial: the child really died at the crash point (exit by signal) / history with overlapping operations; distinct by (leg, format, crash kind, k or byte bucket, n)",
		Assumptions: []string{"a SIGKILLed process stands for power loss only as far as the page cache survives: ordering of data vs. rename on disk after a machine crash is not observable here",
			"zstd frames are decoded with klauspost/compress directly"},
		Cases:         cases,
		Run:           run,
		ParentSetup:   parentSetup,
		Setup:         func(c *harness.Ctx) { cli = os.Getenv("VERIF_CLI"); cliPlain = os.Getenv("VERIF_CLI_PLAIN") },
		MinNonTrivial: 20,
		CaseTimeout:   120 * time.Second,
	})
}

func cases(tier string) int {
	if tier == "thorough" {
		return 40000
	}
	return 3000
}

func parentSetup(tier string, seed int64, work string) ([]string, error) {
	p, err := harness.BuildCLI(work, "desync-verif", "verif", false)
	if err != nil {
		return nil, err
	}
	p2, err := harness.BuildCLI(work, "desync-plain", "", false)
	if err != nil {
		return nil, err
	}
	return []string{"VERIF_CLI=" + p, "VERIF_CLI_PLAIN=" + p2}, nil
}

func run(c *harness.Ctx, i int) {
	desync.Digest = desync.SHA512256{}
	if i%20 == 6 {
		visibleKill(c)
		return
	}
	if i%20 == 12 {
		transientShortage(c)
		return
	}
	if i%20 == 16 {
		extractPair(c)
		return
	}
	switch i % 6 {
	case 0, 1, 2:
		storeCrash(c, i)
	case 3, 4:
		if i%30 == 3 {
			extractSyscallCrash(c)
		} else {
			extractCrash(c, i)
		}
	case 5:
		linearizable(c)
	}
}

// ---------------------------------------------------------------------------

// transientShortage: a write that is cut short after some bytes (the file system is full) and the shortage going away a
// moment later, with retries configured for the store: whatever the writer does about it, the chunk name never holds
// anything but the complete chunk. The chunks are larger than what is free, so the cut falls inside a chunk; a watcher
// frees the room (removes a ballast file) as soon as the file system reports no free block.
func transientShortage(c *harness.Ctx) {
	rng := c.Rng
	dir := c.CaseDir()
	uncompressed := rng.Intn(2) == 0
	sz := dsu.Sizes{Min: 16 << 10, Avg: 32 << 10, Max: 64 << 10}
	blob := dsu.MakeBlob(rng, "random", (150+rng.Intn(200))<<10, sz)
	idx := dsu.RefIndex(blob, sz)
	store := filepath.Join(dir, "store")
	os.MkdirAll(store, 0755)
	file := filepath.Join(dir, "blob")
	dsu.WriteFile(file, blob)
	idxFile := filepath.Join(dir, "blob.caibx")
	dsu.Must(dsu.WriteIndex(idxFile, idx))
	retries := rng.Intn(4)
	interval := time.Duration(5+rng.Intn(30)) * time.Millisecond
	cfgFile := filepath.Join(dir, "config.json")
	dsu.WriteFile(cfgFile, []byte(fmt.Sprintf(`{"store-options": {%q: {"uncompressed": %v, "error-retry": %d, "error-retry-base-interval": %d}}}`, store, uncompressed, retries, int64(interval))))
	ballastPages := len(blob)/4096 + 64
	freePages := 1 + rng.Intn(40)
	if err := syscall.Mount("tmpfs", store, "tmpfs", 0, fmt.Sprintf("size=%dk", 4*(ballastPages+freePages))); err != nil {
		c.Skip("cannot mount a tmpfs: %v", err)
		return
	}
	defer syscall.Unmount(store, syscall.MNT_DETACH)
	ballast := filepath.Join(store, "ballast")
	dsu.Must(os.WriteFile(ballast, make([]byte, 4096*ballastPages), 0644))
	c.Info("transient-shortage uncompressed=%v chunks=%d free=%d pages retries=%d interval=%v", uncompressed, len(idx.Chunks), freePages, retries, interval)
	c.LogInfo()
	cmd := exec.Command(cliPlain, "--config", cfgFile, "chop", "-n", "1", "-s", store, idxFile, file)
	cmd.Env = append(os.Environ(), "HOME="+dir)
	stop := make(chan struct{})
	full := make(chan bool, 1)
	go func() {
		for {
			select {
			case <-stop:
				full <- false
				return
			default:
			}
			var st syscall.Statfs_t
			if syscall.Statfs(store, &st) == nil && st.Bfree == 0 {
				os.Remove(ballast)
				full <- true
				return
			}
			time.Sleep(200 * time.Microsecond)
		}
	}()
	err := cmd.Run()
	close(stop)
	wasFull := <-full
	os.Remove(ballast)
	chunks, _, ok := validateStore(c, store, fmt.Sprintf("after a transient shortage (%d pages free, retries=%d)", freePages, retries))
	c.Count("transient_shortage_runs", 1)
	c.Count("chunk_files_validated", int64(chunks))
	if !ok {
		return
	}
	if err == nil {
		s, _ := desync.NewLocalStore(store, desync.StoreOptions{Uncompressed: uncompressed})
		for _, ch := range idx.Chunks {
			if has, _ := s.HasChunk(ch.ID); !has {
				c.Violation("chop-success-incomplete", "chop exited 0 after a transient shortage but chunk %x is missing", ch.ID[:4])
				return
			}
		}
	}
	if wasFull {
		c.Count("shortages_hit", 1)
		c.NonTrivial("store|transient-shortage|u%v|r%d|err%v", uncompressed, retries, err != nil)
	}
	c.Sample(map[string]interface{}{"leg": "transient-shortage", "uncompressed": uncompressed, "free_pages": freePages, "retries": retries, "fs_was_full": wasFull, "writer_exit": fmt.Sprint(err), "chunk_files": chunks})
}

// validateStore walks a local store directory after the writer died.
func validateStore(c *harness.Ctx, dir string, what string) (chunks, temps int, ok bool) {
	ok = true
	filepath.Walk(dir, func(p string, info os.FileInfo, err error) error {
		if err != nil || info.IsDir() {
			return nil
		}
		name := filepath.Base(p)
		parent := filepath.Base(filepath.Dir(p))
		if strings.HasPrefix(name, ".tmp-cacnk") {
			temps++
			return nil
		}
		id := strings.TrimSuffix(name, ".cacnk")
		raw, derr := hex.DecodeString(id)
		if derr != nil || len(raw) != 32 || parent != id[:4] {
			c.Violation("foreign-file-in-store", "%s: unexpected file %s/%s in the store", what, parent, name)
			ok = false
			return nil
		}
		b, rerr := os.ReadFile(p)
		dsu.Must(rerr)
		data := b
		if strings.HasSuffix(name, ".cacnk") {
			data, derr = zdec.DecodeAll(b, nil)
			if derr != nil {
				c.Violation("partial-chunk-visible", "%s: %s (%d bytes) is not a complete zstd frame: %v", what, name, len(b), derr)
				ok = false
				return nil
			}
		}
		sum := dsu.Sum(data)
		if hex.EncodeToString(sum[:]) != id {
			c.Violation("partial-chunk-visible", "%s: content of %s (%d bytes) does not hash to its name", what, name, len(b))
			ok = false
			return nil
		}
		chunks++
		return nil
	})
	return
}

func died(err error) bool {
	if ee, ok := err.(*exec.ExitError); ok {
		if ws, ok := ee.Sys().(syscall.WaitStatus); ok {
			return ws.Signaled()
		}
	}
	return false
}

func storeCrash(c *harness.Ctx, i int) {
	rng := c.Rng
	dir := c.CaseDir()
	uncompressed := rng.Intn(2) == 0
	n := []int{1, 8}[rng.Intn(2)]
	sz := dsu.Sizes{Min: 1024, Avg: 2048, Max: 4096}
	class := []string{"repetitive", "random"}[rng.Intn(2)]
	blob := dsu.MakeBlob(rng, class, 2048*(3+rng.Intn(10)), sz)
	idx := dsu.RefIndex(blob, sz)
	store := filepath.Join(dir, "store")
	os.MkdirAll(store, 0755)
	file := filepath.Join(dir, "blob")
	dsu.WriteFile(file, blob)
	idxFile := filepath.Join(dir, "blob.caibx")
	dsu.Must(dsu.WriteIndex(idxFile, idx))
	cfgFile := filepath.Join(dir, "config.json")
	dsu.WriteFile(cfgFile, []byte(fmt.Sprintf(`{"store-options": {%q: {"uncompressed": %v}}}`, store, uncompressed)))
	kinds := []string{"partial", "partial", "afterWrite", "beforeRename", "feeder", "sigkill", "pair", "pair", "full-fs"}
	if c.Tier == "thorough" {
		kinds = append(kinds, "strace-write", "strace-rename")
	}
	kind := kinds[rng.Intn(len(kinds))]
	k := 1 + rng.Intn(len(idx.Chunks)+1)
	j := 0
	fp := ""
	switch kind {
	case "partial":
		// byte count: 0, 1, small, or anywhere up to a chunk
		switch rng.Intn(4) {
		case 0:
			j = 0
		case 1:
			j = 1
		case 2:
			j = 1 + rng.Intn(16)
		default:
			j = rng.Intn(4097)
		}
		fp = fmt.Sprintf("local.store.write=partial(%d)@%d", j, k)
	case "afterWrite":
		fp = fmt.Sprintf("local.store.afterWrite=kill@%d", k)
	case "beforeRename":
		fp = fmt.Sprintf("local.store.beforeRename=kill@%d", k)
	case "feeder":
		fp = fmt.Sprintf("chop.feeder=kill@%d", k)
	}
	if kind == "full-fs" {
		// not a death but a write cut short by the kernel: the store lives on a file system with room for a part of
		// the chunks only. Whatever the writer reports, no partial file may sit under a chunk name.
		pages := 1 + rng.Intn(len(idx.Chunks)+1)
		if err := syscall.Mount("tmpfs", store, "tmpfs", 0, fmt.Sprintf("size=%dk", 4*pages)); err != nil {
			kind = "sigkill"
		} else {
			defer syscall.Unmount(store, syscall.MNT_DETACH)
			k = pages
		}
	}
	c.Info("store-crash kind=%s k=%d bytes=%d uncompressed=%v n=%d chunks=%d", kind, k, j, uncompressed, n, len(idx.Chunks))
	c.LogInfo()
	args := []string{"--config", cfgFile, "chop", "-n", fmt.Sprint(n), "-s", store, idxFile, file}
	mk := func(bin string, fps string) *exec.Cmd {
		cmd := exec.Command(bin, args...)
		cmd.Env = append(os.Environ(), "HOME="+dir, "VERIF_FAILPOINTS="+fps)
		return cmd
	}
	var err error
	childDied := false
	switch kind {
	case "sigkill":
		cmd := mk(cli, "local.store.afterWrite=sleep(1)")
		dsu.Must(cmd.Start())
		time.Sleep(time.Duration(rng.Intn(40)) * time.Millisecond)
		cmd.Process.Kill()
		err = cmd.Wait()
		childDied = died(err)
	case "pair":
		// A writes and closes its temp file, then waits before the rename; B comes later and dies in the middle of writing the same chunk
		a := mk(cli, "local.store.beforeRename=sleep(120)")
		args[4] = "1"
		b := mk(cli, fmt.Sprintf("local.store.write=partial(%d)@1", rng.Intn(200)))
		dsu.Must(a.Start())
		time.Sleep(40 * time.Millisecond)
		berr := b.Run()
		childDied = died(berr)
		// kill A half of the time after its first rename, else let it finish
		if rng.Intn(2) == 0 {
			time.Sleep(100 * time.Millisecond)
			a.Process.Kill()
		}
		err = a.Wait()
	case "full-fs":
		cmd := mk(cliPlain, "")
		// sometimes the shortage is transient: a ballast file takes most of the room and is removed a little later, so
		// that a write that was cut short is followed by writes that succeed (the CLI retries store operations)
		ballast := filepath.Join(store, "ballast")
		if rng.Intn(2) == 0 {
			os.WriteFile(ballast, make([]byte, 4096*(k-1)+100+rng.Intn(3000)), 0644)
			go func(d time.Duration) {
				time.Sleep(d)
				os.Remove(ballast)
			}(time.Duration(1+rng.Intn(30)) * time.Millisecond)
		}
		err = cmd.Run()
		os.Remove(ballast)
		childDied = false
		if err != nil {
			c.Count("writers_failed_on_full_fs", 1)
		}
	case "strace-write", "strace-rename":
		sc := "write"
		if kind == "strace-rename" {
			sc = "renameat"
		}
		cmd := exec.Command("strace", append([]string{"-f", "-o", "/dev/null", "-e", "trace=" + sc, "-e", fmt.Sprintf("inject=%s:signal=KILL:when=%d", sc, k), cliPlain}, args...)...)
		cmd.Env = append(os.Environ(), "HOME="+dir)
		err = cmd.Run()
		childDied = err != nil
	default:
		cmd := mk(cli, fp)
		err = cmd.Run()
		childDied = died(err)
	}
	chunks, temps, ok := validateStore(c, store, fmt.Sprintf("after %s (k=%d, %d bytes)", kind, k, j))
	c.Count("store_crash_runs", 1)
	c.Count("chunk_files_validated", int64(chunks))
	c.Count("temp_files_left", int64(temps))
	if childDied {
		c.Count("children_died_at_crash_point", 1)
	}
	if !ok {
		return
	}
	// a survivor that reported success must have stored everything
	if kind == "full-fs" {
		if err != nil {
			c.NonTrivial("store|full-fs|u%v|n%d|pages%d", uncompressed, n, k)
		}
		c.Sample(map[string]interface{}{"leg": "store-crash", "kind": kind, "fs_pages": k, "uncompressed": uncompressed, "n": n, "writer_exit": fmt.Sprint(err), "chunk_files": chunks})
		return
	}
	if err == nil && kind != "pair" {
		s, _ := desync.NewLocalStore(store, desync.StoreOptions{Uncompressed: uncompressed})
		for _, ch := range idx.Chunks {
			if has, _ := s.HasChunk(ch.ID); !has {
				c.Violation("chop-success-incomplete", "chop exited 0 (crash point not reached) but chunk %x is missing", ch.ID[:4])
				return
			}
		}
	}
	// prune (keeping everything) removes abandoned temp files and nothing else
	prune := exec.Command(cli, "--config", cfgFile, "prune", "-y", "-s", store, idxFile)
	prune.Env = append(os.Environ(), "HOME="+dir)
	if out, perr := prune.CombinedOutput(); perr != nil {
		c.Violation("prune-failed", "prune after the crash failed: %v\n%s", perr, out)
		return
	}
	chunks2, temps2, ok2 := validateStore(c, store, "after prune")
	if !ok2 {
		return
	}
	if temps2 != 0 {
		c.Violation("temp-files-survive-prune", "%d abandoned temp files left after prune", temps2)
		return
	}
	if chunks2 != chunks {
		c.Violation("prune-removed-chunks", "prune with every chunk referenced went from %d to %d chunk files", chunks, chunks2)
		return
	}
	if childDied {
		bucket := "0"
		switch {
		case j == 0:
		case j < 17:
			bucket = "1-16"
		default:
			bucket = fmt.Sprint(j / 1024)
		}
		c.NonTrivial("store|%s|u%v|n%d|k%d|b%s", kind, uncompressed, n, (k+1)/2, bucket)
	}
	c.Sample(map[string]interface{}{"leg": "store-crash", "kind": kind, "failpoint": fp, "uncompressed": uncompressed, "n": n, "child_died": childDied, "chunk_files": chunks, "temp_files": temps})
}

// ---------------------------------------------------------------------------

// visibleKill: the writer is killed at the very instant a chunk's final name becomes visible. Large chunks make the
// time a writer needs for the data long against that instant; the store is either one directory tree or "sharded":
// the chunk directories are symlinks into another filesystem (tmpfs), so that the store root and the chunk's directory
// are on different filesystems (a rename across them is impossible).
func visibleKill(c *harness.Ctx) {
	rng := c.Rng
	dir := c.CaseDir()
	uncompressed := rng.Intn(2) == 0
	sharded := rng.Intn(3) != 0
	nch := 1 + rng.Intn(3)
	size := (1 + rng.Intn(6)) << 20
	blob := make([]byte, nch*size)
	rng.Read(blob)
	idx := desync.Index{Index: desync.FormatIndex{FeatureFlags: desync.CaFormatSHA512256, ChunkSizeMin: uint64(size), ChunkSizeAvg: uint64(size), ChunkSizeMax: uint64(size)}}
	for k := 0; k < nch; k++ {
		idx.Chunks = append(idx.Chunks, desync.IndexChunk{Start: uint64(k * size), Size: uint64(size), ID: dsu.Sum(blob[k*size : (k+1)*size])})
	}
	store := filepath.Join(dir, "store")
	os.MkdirAll(store, 0755)
	ext := ".cacnk"
	if uncompressed {
		ext = ""
	}
	var finals []string
	var shm string
	if sharded {
		var err error
		shm, err = os.MkdirTemp("/dev/shm", "verif-c08-")
		if err != nil {
			c.Skip("no second filesystem: %v", err)
			return
		}
		defer os.RemoveAll(shm)
	}
	for _, ch := range idx.Chunks {
		s := ch.ID.String()
		if sharded {
			os.MkdirAll(filepath.Join(shm, s[:4]), 0755)
			os.Symlink(filepath.Join(shm, s[:4]), filepath.Join(store, s[:4]))
		}
		finals = append(finals, filepath.Join(store, s[:4], s+ext))
	}
	file := filepath.Join(dir, "blob")
	dsu.WriteFile(file, blob)
	idxFile := filepath.Join(dir, "blob.caibx")
	dsu.Must(dsu.WriteIndex(idxFile, idx))
	cfgFile := filepath.Join(dir, "config.json")
	dsu.WriteFile(cfgFile, []byte(fmt.Sprintf(`{"store-options": {%q: {"uncompressed": %v}}}`, store, uncompressed)))
	c.Info("visible-kill sharded=%v uncompressed=%v chunks=%d of %d MiB", sharded, uncompressed, nch, size>>20)
	c.LogInfo()
	cmd := exec.Command(cliPlain, "--config", cfgFile, "chop", "-n", "1", "-s", store, idxFile, file)
	cmd.Env = append(os.Environ(), "HOME="+dir)
	var stderr bytes.Buffer
	cmd.Stderr = &stderr
	dsu.Must(cmd.Start())
	done := make(chan error, 1)
	go func() { done <- cmd.Wait() }()
	seen := ""
	var werr error
	exited := false
poll:
	for {
		for _, f := range finals {
			if _, err := os.Lstat(f); err == nil {
				seen = f
				cmd.Process.Kill()
				break poll
			}
		}
		select {
		case werr = <-done:
			exited = true
			break poll
		default:
		}
	}
	if !exited {
		werr = <-done
	}
	c.Count("visible_kill_runs", 1)
	if seen == "" {
		// the writer ended before any chunk became visible (an error, e.g. a store layout it refuses): nothing to decide
		c.Count("visible_kill_nothing_visible", 1)
		c.Sample(map[string]interface{}{"leg": "visible-kill", "sharded": sharded, "exit": fmt.Sprint(werr), "stderr": strings.TrimSpace(stderr.String())})
		return
	}
	for k, f := range finals {
		b, err := os.ReadFile(f)
		if err != nil {
			continue
		}
		data := b
		if !uncompressed {
			data, err = zdec.DecodeAll(b, nil)
			if err != nil {
				c.Violation("partial-chunk-visible", "writer killed the moment %s became visible (sharded=%v): the file (%d bytes) is not a complete zstd frame: %v", filepath.Base(seen), sharded, len(b), err)
				return
			}
		}
		if dsu.Sum(data) != idx.Chunks[k].ID {
			c.Violation("partial-chunk-visible", "writer killed the moment %s became visible (sharded=%v, uncompressed=%v): %d of %d bytes are under the chunk name and do not hash to it", filepath.Base(seen), sharded, uncompressed, len(b), size)
			return
		}
		c.Count("chunk_files_validated", 1)
	}
	if died(werr) {
		c.Count("children_died_at_crash_point", 1)
		c.NonTrivial("visible-kill|sharded=%v|u%v|%dMiB", sharded, uncompressed, size>>20)
	}
	c.Sample(map[string]interface{}{"leg": "visible-kill", "sharded": sharded, "uncompressed": uncompressed, "chunks": nch, "MiB": size >> 20, "child_died": died(werr)})
}

// ---------------------------------------------------------------------------

func extractCrash(c *harness.Ctx, i int) {
	rng := c.Rng
	dir := c.CaseDir()
	sz := dsu.Sizes{Min: 1024, Avg: 2048, Max: 4096}
	class := []string{"repetitive", "random", "zero-runs"}[rng.Intn(3)]
	blob := dsu.MakeBlob(rng, class, 2048*(4+rng.Intn(12)), sz)
	// (the other digest algorithm now and then: what is in place is recognised by hashing it)
	sha256d := rng.Intn(4) == 0
	if sha256d {
		desync.Digest = desync.SHA256{}
		defer func() { desync.Digest = desync.SHA512256{} }()
	}
	idx := dsu.RefIndex(blob, sz)
	inPlace := rng.Intn(2) == 0
	n := []int{1, 4, 10}[rng.Intn(3)]
	k := int64(1 + rng.Intn(len(idx.Chunks)))
	destKind := []string{"absent", "old", "old", "symlink"}[rng.Intn(4)]
	store := dsu.NewMemStore("s")
	for _, ch := range idx.Chunks {
		store.PutRaw(ch.ID, blob[ch.Start:ch.Start+ch.Size])
	}
	var reqs int64
	var childPid int64
	var killed int32
	var mu sync.Mutex
	perID := map[string]int{}
	h := desync.NewHTTPHandler(store, false, false, desync.Converters{desync.Compressor{}}, "")
	srv := httptest.NewServer(http.HandlerFunc(func(w http.ResponseWriter, r *http.Request) {
		if r.Method == "GET" {
			nreq := atomic.AddInt64(&reqs, 1)
			if nreq == k && atomic.LoadInt32(&killed) == 0 {
				var pid int64
				for w := 0; w < 2000 && pid == 0; w++ {
					if pid = atomic.LoadInt64(&childPid); pid == 0 {
						time.Sleep(time.Millisecond)
					}
				}
				if pid != 0 {
					syscall.Kill(int(pid), syscall.SIGKILL)
					atomic.StoreInt32(&killed, 1)
					time.Sleep(20 * time.Millisecond)
				}
			}
		}
		h.ServeHTTP(w, r)
	}))
	defer srv.Close()
	idxFile := filepath.Join(dir, "blob.caibx")
	dsu.Must(dsu.WriteIndex(idxFile, idx))
	// destination names: ordinary, odd, and so long that a temporary sibling name (prefix and random suffix added) does
	// or does not fit into NAME_MAX any more
	destName := "dest"
	switch rng.Intn(6) {
	case 0:
		destName = ".hidden dest with blanks"
	case 1:
		destName = strings.Repeat("n", []int{200, 240, 243, 244, 245, 250, 254, 255}[rng.Intn(8)])
	case 2:
		destName = "d\xc3\xa9st-\xe2\x82\xac"
	}
	dest := filepath.Join(dir, destName)
	old := []byte("old content\n")
	behind := filepath.Join(dir, "behind-the-link")
	if destKind == "old" {
		if inPlace {
			old = dsu.MakeBlob(rng, "random", len(blob)/2, sz) // in-place over garbage
		}
		dsu.WriteFile(dest, old)
	}
	readDest := func() []byte {
		b, _ := os.ReadFile(dest)
		return b
	}
	if inPlace && i%5 == 4 {
		// the destination of an in-place extract is a block device (what -k is mostly used for): a loop device over a
		// file of garbage a little larger than the blob
		img := filepath.Join(dir, "device.img")
		dsu.WriteFile(img, dsu.MakeBlob(rng, "random", (len(blob)+8191)/4096*4096, sz))
		if out, lerr := exec.Command("losetup", "-f", "--show", img).Output(); lerr == nil {
			dev := strings.TrimSpace(string(out))
			defer exec.Command("losetup", "-d", dev).Run()
			dest, destKind, destName = dev, "blockdev", "loop"
			readDest = func() []byte {
				f, oerr := os.Open(dev)
				if oerr != nil {
					return nil
				}
				defer f.Close()
				b := make([]byte, len(blob))
				n, _ := io.ReadFull(f, b)
				return b[:n]
			}
			c.Count("in_place_extracts_onto_a_block_device", 1)
		}
	}
	if destKind == "symlink" {
		// the destination is a symlink to a regular file holding the previous version
		inPlace = false
		dsu.WriteFile(behind, old)
		os.Symlink(behind, dest)
	}
	c.Info("extract-crash inplace=%v n=%d kill-at-request=%d chunks=%d dest=%s name-length=%d sha256=%v", inPlace, n, k, len(idx.Chunks), destKind, len(destName), sha256d)
	c.LogInfo()
	args := []string{"extract", "-n", fmt.Sprint(n), "-s", srv.URL, "-e", "1"}
	if sha256d {
		args = append([]string{"--digest", "sha256"}, args...)
	}
	if inPlace {
		args = append(args, "-k")
	}
	if i%3 == 1 {
		// with a seed (an older version that shares the first half): whatever looking at the seed involves, the
		// destination is not touched before the extract is complete
		seedBlob := append(append([]byte(nil), blob[:len(blob)/2]...), dsu.MakeBlob(rng, "random", 3000, sz)...)
		seedFile := filepath.Join(dir, "older-version")
		dsu.WriteFile(seedFile, seedBlob)
		seedIdx := filepath.Join(dir, "older-version.caibx")
		dsu.Must(dsu.WriteIndex(seedIdx, dsu.RefIndex(seedBlob, sz)))
		args = append(args, "--seed", seedIdx+":"+seedFile)
		if k > int64(len(idx.Chunks))/3 {
			k = 1 + k%3 // the seed supplies half of the chunks: only a few requests reach the store
		}
		c.Count("extract_crash_runs_with_a_seed", 1)
	}
	args = append(args, idxFile, dest)
	cmd := exec.Command(cli, args...)
	cmd.Env = append(os.Environ(), "HOME="+dir)
	dsu.Must(cmd.Start())
	atomic.StoreInt64(&childPid, int64(cmd.Process.Pid))
	err := cmd.Wait()
	childDied := died(err)
	c.Count("extract_crash_runs", 1)
	if childDied {
		c.Count("children_died_at_crash_point", 1)
	}
	if !childDied {
		// finished before the kill landed (or failed otherwise): nothing to decide here except plain success
		if err == nil {
			got := readDest()
			if !bytes.Equal(got, blob) {
				c.Violation("extract-success-wrong", "extract exited 0 but the destination differs from the blob")
			}
		}
		return
	}
	if !inPlace {
		got, rerr := os.ReadFile(dest)
		switch destKind {
		case "absent":
			if rerr == nil {
				c.Violation("dest-touched:absent", "extract (temp-file mode) was killed at chunk request %d and the destination now exists with %d bytes", k, len(got))
				return
			}
		case "old":
			if rerr != nil || !bytes.Equal(got, old) {
				c.Violation("dest-touched:old", "extract (temp-file mode) was killed at chunk request %d and the destination changed (%d bytes, err %v)", k, len(got), rerr)
				return
			}
		case "symlink":
			t, lerr := os.Readlink(dest)
			b, _ := os.ReadFile(behind)
			if lerr != nil || t != behind || !bytes.Equal(b, old) {
				c.Violation("dest-touched:symlink", "extract (temp-file mode) was killed at chunk request %d: the destination link or the file behind it changed (link: %v %q, %d bytes behind it, %d before)", k, lerr, t, len(b), len(old))
				return
			}
		}
		c.NonTrivial("extract|tmp|n%d|k%d|%s|name%d", n, k, destKind, len(destName)/100)
	} else {
		// what is in place now?
		part := readDest()
		notInPlace := map[string]int{}
		inPlaceCount := 0
		for _, ch := range idx.Chunks {
			okc := uint64(len(part)) >= ch.Start+ch.Size && dsu.Sum(part[ch.Start:ch.Start+ch.Size]) == ch.ID
			if okc {
				inPlaceCount++
			} else {
				notInPlace[hex.EncodeToString(ch.ID[:])]++
			}
		}
		// the re-run talks to a second server over the same store, so that late requests of the dead child are not counted
		srv2 := httptest.NewServer(http.HandlerFunc(func(w http.ResponseWriter, r *http.Request) {
			if r.Method == "GET" {
				mu.Lock()
				perID[strings.TrimSuffix(filepath.Base(r.URL.Path), ".cacnk")]++
				mu.Unlock()
			}
			h.ServeHTTP(w, r)
		}))
		defer srv2.Close()
		for a := range args {
			if args[a] == srv.URL {
				args[a] = srv2.URL
			}
		}
		re := exec.Command(cli, args...)
		re.Env = append(os.Environ(), "HOME="+dir)
		out, rerr := re.CombinedOutput()
		if rerr != nil {
			c.Violation("rerun-failed", "in-place extract was killed at chunk request %d; the re-run failed: %v\n%s", k, rerr, out)
			return
		}
		got := readDest()
		if !bytes.Equal(got, blob) {
			c.Violation("rerun-wrong-output", "in-place extract was killed at chunk request %d; the re-run exited 0 but the output differs from the blob", k)
			return
		}
		mu.Lock()
		defer mu.Unlock()
		for id, cnt := range perID {
			if cnt > notInPlace[id] {
				c.Violation("rerun-refetched", "re-run requested chunk %s %d times although only %d of its index positions were not in place after the kill (%d chunks were in place)", id[:8], cnt, notInPlace[id], inPlaceCount)
				return
			}
		}
		c.Count("chunks_in_place_after_kill", int64(inPlaceCount))
		c.NonTrivial("extract|inplace|n%d|k%d|%s", n, k, destKind)
	}
	c.Sample(map[string]interface{}{"leg": "extract-crash", "in_place": inPlace, "n": n, "kill_at_request": k, "dest": destKind, "child_died": childDied})
}

// ---------------------------------------------------------------------------

type regIn struct {
	Op string
	ID int
}

func linearizable(c *harness.Ctx) {
	rng := c.Rng
	dir := c.CaseDir()
	uncompressed := rng.Intn(2) == 0
	s, err := desync.NewLocalStore(dir, desync.StoreOptions{Uncompressed: uncompressed})
	dsu.Must(err)
	nIDs := 1 + rng.Intn(3)
	var datas [][]byte
	var ids []desync.ChunkID
	for k := 0; k < nIDs; k++ {
		b := dsu.MakeBlob(rng, "random", 2000+rng.Intn(60000), dsu.Sizes{Min: 64, Avg: 128, Max: 256})
		datas = append(datas, b)
		ids = append(ids, dsu.Sum(b))
	}
	workers := 3 + rng.Intn(8)
	c.Info("linearizability ids=%d goroutines=%d uncompressed=%v", nIDs, workers, uncompressed)
	c.LogInfo()
	var mu sync.Mutex
	var hist []porcupine.Operation
	var wg sync.WaitGroup
	var invalid int32
	for w := 0; w < workers; w++ {
		wg.Add(1)
		seed := rng.Int63()
		remover := w == 0
		go func(w int) {
			defer wg.Done()
			r := rand.New(rand.NewSource(seed))
			for k := 0; k < 6+r.Intn(10); k++ {
				x := r.Intn(nIDs)
				op := []string{"store", "store", "get", "get", "has"}[r.Intn(5)]
				if remover && r.Intn(2) == 0 {
					op = "remove"
				}
				t0 := dsu.Tick()
				out := ""
				switch op {
				case "store":
					if e := s.StoreChunk(desync.NewChunk(datas[x])); e != nil {
						out = "err:" + e.Error()
					} else {
						out = "ok"
					}
				case "get":
					ch, e := s.GetChunk(ids[x])
					switch e.(type) {
					case nil:
						b, _ := ch.Data()
						if bytes.Equal(b, datas[x]) {
							out = "present"
						} else {
							out = "invalid"
						}
					case desync.ChunkMissing:
						out = "absent"
					case desync.ChunkInvalid:
						out = "invalid"
					default:
						out = "err:" + e.Error()
					}
					if out == "invalid" {
						atomic.AddInt32(&invalid, 1)
					}
				case "has":
					h, e := s.HasChunk(ids[x])
					if e != nil {
						out = "err:" + e.Error()
					} else if h {
						out = "present"
					} else {
						out = "absent"
					}
				case "remove":
					e := s.RemoveChunk(ids[x])
					switch e.(type) {
					case nil:
						out = "present" // it was there
					case desync.ChunkMissing:
						out = "absent"
					default:
						out = "err:" + e.Error()
					}
				}
				t1 := dsu.Tick()
				mu.Lock()
				hist = append(hist, porcupine.Operation{ClientId: w, Input: regIn{op, x}, Output: out, Call: t0, Return: t1})
				mu.Unlock()
			}
		}(w)
	}
	wg.Wait()
	if invalid > 0 {
		c.Violation("partial-chunk-visible", "%d reads of a local store with concurrent writers returned ChunkInvalid / wrong bytes: a partially written chunk was visible under its final name", invalid)
		return
	}
	for _, o := range hist {
		if strings.HasPrefix(o.Output.(string), "err:") {
			c.Violation("store-op-error", "%v failed: %s", o.Input, o.Output)
			return
		}
	}
	model := porcupine.Model{
		Partition: func(h []porcupine.Operation) [][]porcupine.Operation {
			parts := make([][]porcupine.Operation, nIDs)
			for _, o := range h {
				x := o.Input.(regIn).ID
				parts[x] = append(parts[x], o)
			}
			return parts
		},
		Init: func() interface{} { return false },
		Step: func(st, in, out interface{}) (bool, interface{}) {
			i, o, present := in.(regIn), out.(string), st.(bool)
			switch i.Op {
			case "store":
				return o == "ok", true
			case "remove":
				if o == "present" {
					return present, false
				}
				return !present, false
			default:
				return (o == "present") == present, present
			}
		},
	}
	res := porcupine.CheckOperationsTimeout(model, hist, 20*time.Second)
	c.Count("porcupine_histories", 1)
	c.Count("porcupine_ops", int64(len(hist)))
	switch res {
	case porcupine.Illegal:
		c.Violation("store-not-linearizable", "history of %d StoreChunk/GetChunk/HasChunk/RemoveChunk operations on a local store is not linearizable against a presence register", len(hist))
		return
	case porcupine.Unknown:
		c.Count("porcupine_timeouts", 1)
		return
	}
	c.NonTrivial("linearizable|ids%d|g%d|u%v", nIDs, workers, uncompressed)
	c.Sample(map[string]interface{}{"leg": "linearizability", "ids": nIDs, "goroutines": workers, "ops": len(hist)})
	_ = context.Background
}

// extractPair: two extracts (temp-file mode) of the same index onto the same destination at the same time, as two
// containers sharing a volume run them - each in a PID namespace of its own, so both have the same process ID - or as
// two plain processes. The second one starts while the first is half way and dies after a few chunks (SIGKILL at a
// failpoint). The first one goes on: if it reports success the destination holds the blob, otherwise its previous state.
func extractPair(c *harness.Ctx) {
	rng := c.Rng
	dir := c.CaseDir()
	sz := dsu.Sizes{Min: 1024, Avg: 2048, Max: 4096}
	blob := dsu.MakeBlob(rng, "random", 2048*(6+rng.Intn(10)), sz)
	idx := dsu.RefIndex(blob, sz)
	if len(idx.Chunks) < 4 {
		return
	}
	store := dsu.NewMemStore("s")
	for _, ch := range idx.Chunks {
		store.PutRaw(ch.ID, blob[ch.Start:ch.Start+ch.Size])
	}
	h := desync.NewHTTPHandler(store, false, false, desync.Converters{desync.Compressor{}}, "")
	holdAt := int64(2 + rng.Intn(len(idx.Chunks)-2))
	var reqsA int64
	held := make(chan struct{})
	release := make(chan struct{})
	var once sync.Once
	srvA := httptest.NewServer(http.HandlerFunc(func(w http.ResponseWriter, r *http.Request) {
		if r.Method == "GET" && atomic.AddInt64(&reqsA, 1) == holdAt {
			once.Do(func() { close(held) })
			<-release
		}
		h.ServeHTTP(w, r)
	}))
	defer srvA.Close()
	srvB := httptest.NewServer(h)
	defer srvB.Close()
	idxFile := filepath.Join(dir, "blob.caibx")
	dsu.Must(dsu.WriteIndex(idxFile, idx))
	dest := filepath.Join(dir, "dest")
	old := []byte("old content\n")
	hadOld := rng.Intn(2) == 0
	if hadOld {
		dsu.WriteFile(dest, old)
	}
	namespaces := rng.Intn(3) != 0
	killAt := 1 + rng.Intn(3)
	c.Info("extract-pair namespaces=%v chunks=%d first-held-at-request=%d second-killed-at-chunk=%d old-destination=%v", namespaces, len(idx.Chunks), holdAt, killAt, hadOld)
	c.LogInfo()
	mk := func(url string, env ...string) *exec.Cmd {
		args := []string{cli, "extract", "-n", "1", "-s", url, "-e", "1", idxFile, dest}
		var cmd *exec.Cmd
		if namespaces {
			// (not as process 1 of the namespace, which no signal from inside can kill: the shell is, the command gets 2)
			cmd = exec.Command("unshare", append([]string{"--pid", "--fork", "--kill-child", "/bin/sh", "-c", `"$@" & wait $!`, "sh"}, args...)...)
		} else {
			cmd = exec.Command(args[0], args[1:]...)
		}
		cmd.Env = append(append(os.Environ(), "HOME="+dir), env...)
		return cmd
	}
	a := mk(srvA.URL)
	var aerrOut bytes.Buffer
	a.Stderr = &aerrOut
	if err := a.Start(); err != nil {
		c.Skip("cannot start: %v", err)
		close(release)
		return
	}
	adone := make(chan error, 1)
	go func() { adone <- a.Wait() }()
	select {
	case <-held:
	case err := <-adone:
		close(release)
		if namespaces && err != nil {
			c.Skip("unshare: %v %s", err, aerrOut.String())
		}
		return
	}
	b := mk(srvB.URL, fmt.Sprintf("VERIF_FAILPOINTS=assemble.beforeGetChunk=kill@%d", killAt))
	berr := b.Run()
	close(release)
	aerr := <-adone
	c.Count("extract_pairs", 1)
	if berr != nil {
		c.Count("extract_pairs_second_died", 1)
	}
	got, rerr := os.ReadFile(dest)
	switch {
	case aerr == nil && (rerr != nil || !bytes.Equal(got, blob)):
		c.Violation("extract-success-wrong", "two extracts onto one destination (own PID namespaces: %v), the second started while the first was at chunk request %d and died at its chunk %d: the first exited 0, the destination (%d bytes, err %v) is not the blob (%d bytes)", namespaces, holdAt, killAt, len(got), rerr, len(blob))
		return
	case aerr != nil && berr != nil:
		// both failed: previous state
		if hadOld && !bytes.Equal(got, old) {
			c.Violation("dest-touched:old", "two extracts onto one destination both failed and the destination no longer holds its previous content (%d bytes, err %v)", len(got), rerr)
			return
		}
		if !hadOld && rerr == nil {
			c.Violation("dest-touched:absent", "two extracts onto one destination both failed and the destination now exists with %d bytes", len(got))
			return
		}
	}
	c.NonTrivial("extract-pair|ns%v|a%v|b%v|old%v", namespaces, aerr == nil, berr == nil, hadOld)
	c.Sample(map[string]interface{}{"leg": "extract-pair", "namespaces": namespaces, "first_ok": aerr == nil, "second_died": berr != nil})
}

// extractSyscallCrash: a temp-file extract over an existing destination is killed (strace injection, unhooked binary)
// on entering its k-th rename / unlink system call: the destination keeps its previous state.
func extractSyscallCrash(c *harness.Ctx) {
	rng := c.Rng
	dir := c.CaseDir()
	sz := dsu.Sizes{Min: 1024, Avg: 2048, Max: 4096}
	blob := dsu.MakeBlob(rng, "random", 2048*(3+rng.Intn(6)), sz)
	idx := dsu.RefIndex(blob, sz)
	store := filepath.Join(dir, "store")
	_, err := dsu.FillLocalStore(store, blob, idx, false)
	dsu.Must(err)
	idxFile := filepath.Join(dir, "blob.caibx")
	dsu.Must(dsu.WriteIndex(idxFile, idx))
	dest := filepath.Join(dir, "dest")
	old := []byte("old content of the destination\n")
	dsu.WriteFile(dest, old)
	set := []string{"rename,renameat,renameat2", "unlink,unlinkat"}[rng.Intn(2)]
	k := 1 + rng.Intn(2)
	c.Info("extract-syscall-crash kill at %s #%d", set, k)
	c.LogInfo()
	cmd := exec.Command("strace", "-f", "-o", "/dev/null", "-e", "trace="+set, "-e", fmt.Sprintf("inject=%s:signal=KILL:when=%d", set, k),
		cliPlain, "extract", "-n", "2", "-s", store, idxFile, dest)
	cmd.Env = append(os.Environ(), "HOME="+dir)
	rerr := cmd.Run()
	got, gerr := os.ReadFile(dest)
	c.Count("extract_syscall_crash_runs", 1)
	if rerr != nil {
		c.Count("children_died_at_crash_point", 1)
		if gerr != nil || !bytes.Equal(got, old) {
			c.Violation("dest-touched:syscall", "extract (temp-file mode) died on entering %s #%d and the destination no longer holds its previous content (read error %v, %d bytes)", set, k, gerr, len(got))
			return
		}
		c.NonTrivial("extract-syscall|%s|k%d", set, k)
	} else if !bytes.Equal(got, blob) {
		c.Violation("extract-success-wrong", "extract exited 0 but the destination differs from the blob")
		return
	}
	c.Sample(map[string]interface{}{"leg": "extract-syscall-crash", "syscalls": set, "k": k, "child_died": rerr != nil})
}
