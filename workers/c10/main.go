// C10: copy-on-read sparse files return the blob's bytes or an error, never stale zeros.
package main

import (
	"bytes"
	"fmt"
	"io"
	"math/rand"
	"os"
	"path/filepath"
	"sync"
	"time"

	"github.com/folbricht/desync"
	"github.com/hanwen/go-fuse/v2/fuse"

	"verif/dsu"
	"verif/harness"
)

func main() {
	harness.Main(&harness.Config{
		Prop:  "C10",
		Level: "exploration",
		Rule: "PRNG histories: 1-3 sessions on one cache file; each session opens a SparseFile (or the sparse mount node through go-fuse's bridge) and issues ReadAt(offset,len) sequences on 1-8 handles, sequentially or concurrently (-race, yields in loadChunk), " +
			"against an in-memory store with transient fault patterns {healthy, fail call k, fail a window of calls, fail some IDs then heal}; WriteState at random quiescent points; restarts with {same cache + saved state, state absent, cache absent, cache shortened/extended, state of wrong length}; preload from an init-state file (faults during preload). " +
			"Oracle: nil/EOF result => bytes == blob[off:off+n] and n == min(len, size-off); errors only when a fault was injected; after restart with an accepted state, chunks whose every index position was done at save time are not fetched again; quiescent invariant done-bit => cache range == chunk bytes. " +
			"Non-trivial: history in which a read followed a failed load of the same chunk, or a restart reused state, or >=2 handles read concurrently; distinct by (leg, blob class, fault pattern, restart kinds, events)",
		Assumptions:     []string{"in-memory store; FUSE node driven in process through go-fuse's bridge", "cache 'resized' means truncated shorter or extended by the filesystem (zeros), never filled with foreign data"},
		Cases:           cases,
		Run:             run,
		SpinIsViolation: true,
		MinNonTrivial:   20,
		RaceIsViolation: true,
		CaseTimeout:     60 * time.Second,
	})
}

func cases(tier string) int {
	if tier == "thorough" {
		return 400000
	}
	return 20000
}

type world struct {
	c        *harness.Ctx
	rng      *rand.Rand
	blob     []byte
	idx      desync.Index
	ms       *dsu.MemStore
	sz       dsu.Sizes
	events   map[string]bool
	injected int64 // faults delivered (atomic via mutex)
	errKind  int   // kind of the injected store errors (dsu.FaultErr)
	mu       sync.Mutex
	failedID map[desync.ChunkID]bool
	viol     bool
	restarts *[]string
}

func (w *world) violation(class, f string, a ...interface{}) {
	w.mu.Lock()
	first := !w.viol
	w.viol = true
	w.mu.Unlock()
	if first {
		w.c.Violation(class, f+fmt.Sprintf(" [restarts so far: %v]", *w.restarts), a...)
	}
}

func run(c *harness.Ctx, i int) {
	rng := c.Rng
	desync.Digest = desync.SHA512256{}
	sz := dsu.SmallSizes[rng.Intn(4)]
	class := []string{"random", "random", "zero-runs", "repetitive", "mixed", "zeros", "empty", "tiny"}[rng.Intn(8)]
	var blob []byte
	switch class {
	case "empty":
	case "tiny":
		blob = dsu.MakeBlob(rng, "random", 1+rng.Intn(int(sz.Min)), sz)
	default:
		blob = dsu.MakeBlob(rng, class, rng.Intn(int(sz.Max)*25), sz)
	}
	idx := dsu.RefIndex(blob, sz)
	ms := dsu.NewMemStore("s")
	for _, ch := range idx.Chunks {
		ms.PutRaw(ch.ID, blob[ch.Start:ch.Start+ch.Size])
	}
	w := &world{c: c, rng: rng, blob: blob, idx: idx, ms: ms, sz: sz, events: map[string]bool{}, failedID: map[desync.ChunkID]bool{}, errKind: rng.Intn(5)}
	dir := c.CaseDir()
	cache := filepath.Join(dir, "cache")
	state := filepath.Join(dir, "state")
	initState := filepath.Join(dir, "init-state")
	nsess := 1 + rng.Intn(3)
	fuseLeg := rng.Intn(4) == 0
	ymode := rng.Intn(3)
	faultKind := []string{"healthy", "healthy", "call-k", "window", "ids-then-heal"}[rng.Intn(5)]
	c.Info("class=%s len=%d sizes=%s chunks=%d sessions=%d fuse=%v fault=%s ymode=%d", class, len(blob), sz, len(idx.Chunks), nsess, fuseLeg, faultKind, ymode)
	c.LogInfo()
	y := dsu.NewYielder(ymode, uint64(rng.Int63()))
	y.Install()
	defer y.Remove()

	var doneAtSave []bool // per chunk: done when the state was last written (nil: no state written)
	var restarts []string
	w.restarts = &restarts
	for s := 0; s < nsess && !w.viol; s++ {
		// restart variant (from the second session on)
		stateAccepted := false
		opt := desync.SparseFileOptions{StateSaveFile: state}
		if s > 0 {
			kind := []string{"same", "same", "state-absent", "cache-absent", "cache-shorter", "cache-longer", "state-wrong-length", "preload", "foreign-cache-no-state", "failed-start", "foreign-cache-init-state"}[rng.Intn(11)]
			restarts = append(restarts, kind)
			st, _ := os.Stat(cache)
			switch kind {
			case "same":
				stateAccepted = doneAtSave != nil && st != nil && st.Size() == int64(len(blob))
			case "state-absent":
				os.Remove(state)
				doneAtSave = nil
			case "cache-absent":
				os.Remove(cache)
			case "cache-shorter":
				if st != nil && st.Size() > 0 {
					os.Truncate(cache, int64(rng.Intn(int(st.Size()))))
				}
			case "cache-longer":
				if st != nil {
					os.Truncate(cache, st.Size()+1+int64(rng.Intn(5000)))
				}
			case "state-wrong-length":
				os.WriteFile(state, make([]byte, len(idx.Chunks)/8+2+rng.Intn(3)), 0644)
				doneAtSave = nil
			case "foreign-cache-no-state":
				// some other file of exactly the right length sits at the cache path and there is no state for it
				junk := make([]byte, len(blob))
				rng.Read(junk)
				os.WriteFile(cache, junk, 0644)
				os.Remove(state)
				doneAtSave = nil
			case "foreign-cache-init-state":
				// a file of the right length that holds nothing of the blob sits at the cache path (left by a session
				// without a state file, say), the save state is absent or empty (first start with that option, a
				// writer that died), and the state to initialise from - taken on another host - marks every chunk
				junk := make([]byte, len(blob))
				if rng.Intn(2) == 0 {
					rng.Read(junk)
				}
				os.WriteFile(cache, junk, 0644)
				os.Remove(state)
				if rng.Intn(2) == 0 {
					os.WriteFile(state, nil, 0644)
				}
				os.WriteFile(initState, bytes.Repeat([]byte{0xff}, (len(idx.Chunks)+7)/8), 0644)
				opt.StateInitFile = initState
				opt.StateInitConcurrency = 1 + rng.Intn(4)
				doneAtSave = nil
			case "failed-start":
				// the cache file is gone, the saved state is still there, and a start in between fails after it has
				// created a fresh cache file (its init-state file does not exist)
				os.Remove(cache)
				if _, ferr := desync.NewSparseFile(cache, idx, ms, desync.SparseFileOptions{StateSaveFile: state, StateInitFile: filepath.Join(filepath.Dir(cache), "no-such-init-state")}); ferr != nil {
					w.events["failed-start"] = true
				}
				doneAtSave = nil
			case "preload":
				// new cache, preloaded from the previous state
				if b, err := os.ReadFile(state); err == nil && doneAtSave != nil {
					os.Remove(cache)
					if rng.Intn(2) == 0 {
						// the documented "same file for save and init" configuration
						opt.StateInitFile = state
						restarts[len(restarts)-1] = "preload-samefile"
					} else {
						os.WriteFile(initState, b, 0644)
						os.Remove(state)
						opt.StateInitFile = initState
					}
					opt.StateInitConcurrency = 1 + rng.Intn(4)
					w.events["preload"] = true
				}
				doneAtSave = nil
			}
			if kind != "same" {
				if st2, err := os.Stat(cache); err != nil || st2.Size() != int64(len(blob)) {
					stateAccepted = false
				}
			}
		}
		if !stateAccepted {
			// whatever state file exists now was not taken over (desync rewrites it for the reset cache)
			doneAtSave = nil
		}
		w.setFaults(faultKind)
		ms.ResetLog()
		getsBefore := ms.CountOf("get")

		var sf *desync.SparseFile
		var ff *dsu.FuseFile
		var err error
		if fuseLeg {
			var mfs *desync.SparseMountFS
			mfs, err = desync.NewSparseMountFS(idx, "blob", ms, cache, opt)
			if err == nil {
				ff, err = dsu.MountBridge(mfs, "blob")
				defer mfs.Close()
			}
		} else {
			sf, err = desync.NewSparseFile(cache, idx, ms, opt)
		}
		if err != nil {
			w.violation("open-failed", "session %d (%v): %v", s, restarts, err)
			return
		}
		// reads
		nh := 1 + rng.Intn(8)
		concurrent := rng.Intn(2) == 0
		if concurrent && nh > 1 {
			w.events["concurrent"] = true
		}
		var sharedHandle *desync.SparseFileHandle
		if sf != nil && concurrent && nh > 1 && rng.Intn(3) == 0 {
			if sh, err := sf.Open(); err == nil {
				sharedHandle = sh
				defer sh.Close()
				w.events["shared-handle"] = true
			}
		}
		var wg sync.WaitGroup
		for h := 0; h < nh; h++ {
			seed := rng.Int63()
			f := func() {
				defer wg.Done()
				w.handle(rand.New(rand.NewSource(seed)), sf, ff, sharedHandle)
			}
			wg.Add(1)
			if concurrent {
				go f()
			} else {
				f()
			}
		}
		wg.Wait()
		if w.viol {
			return
		}
		// chunks that were done at save time must not have been fetched again
		if stateAccepted && doneAtSave != nil {
			w.events["state-reused"] = true
			allDone := map[desync.ChunkID]bool{}
			for k, ch := range idx.Chunks {
				if v, ok := allDone[ch.ID]; !ok {
					allDone[ch.ID] = doneAtSave[k]
				} else {
					allDone[ch.ID] = v && doneAtSave[k]
				}
			}
			for _, cl := range ms.Calls() {
				if cl.Op == "get" && allDone[cl.ID] {
					w.violation("refetched-after-restart", "chunk %x was marked done in the saved state (all its positions), the state was reused, yet it was fetched again (restarts %v)", cl.ID[:4], restarts)
					return
				}
			}
		}
		c.Count("store_gets", ms.CountOf("get")-getsBefore)
		// quiescent: heal the store, check the invariant, save state
		w.setFaults("healthy")
		if sf != nil {
			time.Sleep(0)
			if opt.StateInitFile == "" { // preload runs in the background: not quiescent
				data, _ := os.ReadFile(cache)
				for k, ch := range idx.Chunks {
					if sf.VerifDone(k) && (uint64(len(data)) < ch.Start+ch.Size || !bytes.Equal(data[ch.Start:ch.Start+ch.Size], blob[ch.Start:ch.Start+ch.Size])) {
						w.violation("done-bit-without-data", "chunk %d is marked done but the cache file range differs from the chunk", k)
						return
					}
				}
			}
			if rng.Intn(4) != 0 {
				if err := sf.WriteState(); err != nil {
					w.violation("writestate-failed", "%v", err)
					return
				}
				doneAtSave = make([]bool, len(idx.Chunks))
				for k := range idx.Chunks {
					doneAtSave[k] = sf.VerifDone(k)
				}
				if opt.StateInitFile != "" {
					doneAtSave = nil // preload may still be running while the state is written
				}
			}
		} else {
			doneAtSave = nil
		}
		if opt.StateInitFile != "" {
			// The pre-loading of this session runs in the background. A real restart ends it; within this one process
			// it would carry on into the next "session" and write into a cache file the harness has meanwhile
			// shortened or replaced. Wait for it: with a healthy store, read a byte of every chunk (a load in progress
			// holds the chunk's lock; a chunk that is loaded is not written again).
			w.ms.SetFault(nil)
			one := make([]byte, 1)
			if sf != nil {
				if h, err := sf.Open(); err == nil {
					for _, ch := range idx.Chunks {
						h.ReadAt(one, int64(ch.Start))
					}
					h.Close()
				}
			} else if ff != nil {
				if fh, st := ff.Open(); st == fuse.OK {
					for _, ch := range idx.Chunks {
						ff.Read(fh, ch.Start, 1)
					}
					ff.Release(fh)
				}
			}
		}
	}
	if w.viol {
		return
	}
	c.Count("sessions", int64(nsess))
	if w.events["read-after-failed-load"] || w.events["state-reused"] || w.events["concurrent"] || w.events["preload"] {
		var ev []string
		for _, k := range []string{"read-after-failed-load", "state-reused", "concurrent", "preload", "error-seen", "null-chunk", "eof"} {
			if w.events[k] {
				ev = append(ev, k)
			}
		}
		c.NonTrivial("%s|%s|%v|%s|%v|%v", class, sz, fuseLeg, faultKind, restarts, ev)
	}
	c.Sample(map[string]interface{}{"blob": class, "len": len(blob), "sizes": sz.String(), "sessions": nsess, "restarts": restarts, "fuse": fuseLeg, "fault": faultKind})
}

func (w *world) setFaults(kind string) {
	rng := w.rng
	switch kind {
	case "healthy":
		w.ms.SetFault(nil)
	case "call-k":
		k := int64(1 + rng.Intn(6))
		base := w.ms.CountOf("get")
		w.ms.SetFault(func(op string, n int64, id desync.ChunkID) error {
			if op == "get" && n-base == k {
				return w.inject(id, n)
			}
			return nil
		})
	case "window":
		k := int64(1 + rng.Intn(4))
		l := int64(1 + rng.Intn(4))
		base := w.ms.CountOf("get")
		w.ms.SetFault(func(op string, n int64, id desync.ChunkID) error {
			if op == "get" && n-base >= k && n-base < k+l {
				return w.inject(id, n)
			}
			return nil
		})
	case "ids-then-heal":
		bad := map[desync.ChunkID]int{}
		for _, ch := range w.idx.Chunks {
			if rng.Intn(3) == 0 {
				bad[ch.ID] = 1 + rng.Intn(2)
			}
		}
		var mu sync.Mutex
		w.ms.SetFault(func(op string, n int64, id desync.ChunkID) error {
			if op != "get" {
				return nil
			}
			mu.Lock()
			defer mu.Unlock()
			if bad[id] > 0 {
				bad[id]--
				return w.inject(id, n)
			}
			return nil
		})
	}
}

func (w *world) inject(id desync.ChunkID, n int64) error {
	w.mu.Lock()
	w.injected++
	w.failedID[id] = true
	w.mu.Unlock()
	if w.errKind == 4 {
		// no error from the store: a chunk object whose content cannot be unpacked (a store that does not verify)
		w.c.Count("undecodable_chunks_delivered_without_error", 1)
		return dsu.ErrDeliverGarbled
	}
	return dsu.FaultErr(w.errKind, fmt.Sprintf("get#%d", n))
}

// handle issues a sequence of reads on one handle.
func (w *world) handle(rng *rand.Rand, sf *desync.SparseFile, ff *dsu.FuseFile, shared *desync.SparseFileHandle) {
	L := int64(len(w.blob))
	var h *desync.SparseFileHandle
	var fh uint64
	if shared != nil {
		h = shared // several goroutines read through one handle (what kernel read-ahead does on a mounted file)
	} else if sf != nil {
		var err error
		h, err = sf.Open()
		if err != nil {
			w.violation("handle-open", "%v", err)
			return
		}
		defer h.Close()
	} else {
		var st fuse.Status
		fh, st = ff.Open()
		if st != fuse.OK {
			w.violation("handle-open", "fuse open: %v", st)
			return
		}
		defer ff.Release(fh)
	}
	nullID := dsu.Sum(make([]byte, w.sz.Max))
	for k := 0; k < 3+rng.Intn(25); k++ {
		var off int64
		switch rng.Intn(8) {
		case 0:
			off = L
		case 1:
			off = L + int64(rng.Intn(300))
		case 2:
			if len(w.idx.Chunks) > 0 {
				off = int64(w.idx.Chunks[rng.Intn(len(w.idx.Chunks))].Start)
			}
		default:
			if L > 0 {
				off = int64(rng.Intn(int(L)))
			}
		}
		n := rng.Intn(int(w.sz.Max)*3 + 1)
		if rng.Intn(12) == 0 {
			n = 0
		}
		if rng.Intn(8) == 0 && L > 0 {
			// one read over dozens of chunks (a large buffer, `cat` of the mounted file), from anywhere
			n = rng.Intn(int(L) + 1)
			if rng.Intn(2) == 0 {
				n = int(L)
			}
		}
		w.mu.Lock()
		injBefore := w.injected
		w.mu.Unlock()
		var got []byte
		var err error
		if h != nil {
			b := make([]byte, n)
			var m int
			m, err = h.ReadAt(b, off)
			got = b[:m]
		} else {
			if n == 0 {
				n = 1
			}
			var st fuse.Status
			got, st = ff.Read(fh, uint64(off), uint32(n))
			if st != fuse.OK {
				err = fmt.Errorf("fuse status %v", st)
			}
		}
		w.mu.Lock()
		injAfter := w.injected
		w.mu.Unlock()
		if err != nil && err != io.EOF {
			// an error is fine if a fault was injected (by this or a concurrent read: the loader is shared) ...
			if injAfter == 0 {
				w.violation("error-without-fault", "ReadAt(%d bytes @%d of %d) failed on a healthy store: %v", n, off, L, err)
				return
			}
			_ = injBefore
			w.mu.Lock()
			w.events["error-seen"] = true
			w.mu.Unlock()
			continue
		}
		// success: exactly the blob's bytes
		want := []byte{}
		if off < L {
			want = w.blob[off:]
			if int64(len(want)) > int64(n) {
				want = want[:n]
			}
		}
		if !bytes.Equal(got, want) {
			zeros := len(got) > 0 && bytes.Equal(got, make([]byte, len(got)))
			cls := "wrong-bytes"
			if zeros {
				cls = "stale-zeros"
			}
			w.violation(cls, "ReadAt(%d bytes @%d of %d) returned err=%v and %d bytes that differ from the blob (all zero: %v; faults injected so far: %d)", n, off, L, err, len(got), zeros, injAfter)
			return
		}
		if err == io.EOF {
			w.mu.Lock()
			w.events["eof"] = true
			w.mu.Unlock()
		}
		// did this successful read cover a chunk whose load failed before?
		w.mu.Lock()
		for _, ch := range w.idx.Chunks {
			if int64(ch.Start) < off+int64(len(got)) && int64(ch.Start+ch.Size) > off {
				if w.failedID[ch.ID] {
					w.events["read-after-failed-load"] = true
				}
				if ch.ID == nullID {
					w.events["null-chunk"] = true
				}
			}
		}
		w.mu.Unlock()
	}
}
