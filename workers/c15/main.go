// C15: HTTP servers enforce authorization, read-only mode and path confinement.
package main

import (
	"bufio"
	"bytes"
	"encoding/hex"
	"fmt"
	"io"
	"math/rand"
	"net"
	"net/http"
	"net/http/httptest"
	"net/url"
	"os"
	"os/exec"
	"path"
	"path/filepath"
	"strings"
	"sync"
	"time"

	"github.com/folbricht/desync"
	"github.com/klauspost/compress/zstd"

	"verif/dsu"
	"verif/harness"
	"verif/treegen"
)

var cli string
var zenc, _ = zstd.NewWriter(nil)
var zdec, _ = zstd.NewReader(nil)

func main() {
	harness.Main(&harness.Config{
		Prop:  "C15",
		Level: "exploration",
		Rule: "Raw TCP requests (so that nothing is normalised by a client): methods {GET, HEAD, PUT, POST, DELETE, PATCH, OPTIONS} x paths {well-formed, wrong prefix, wrong/extra suffix, .., %2e%2e, %2f, //, over-long, empty, absolute-URI, upper-case hex, other chunk's id} " +
			"x Authorization {none, wrong, right, different case, inner/outer whitespace, prefix/suffix of the value, two headers} x {chunk server, index server} x {writable, read-only} x {verify-write on/off} x {compressed, uncompressed}; " +
			"against desync's handlers behind httptest over a local store directory placed in a sandbox with sentinel siblings, and against real `desync chunk-server` / `index-server` children (authorization from --authorization and from DESYNC_HTTP_AUTH). " +
			"Oracle (negative only for authorization): a request without exactly the configured value changes nothing in the sandbox and gets no object bytes; a read-only server never changes the sandbox; verify-write refuses mismatching uploads; every path created or modified is the canonical name of the requested ID / index base name inside the served directory; a 200 GET body is exactly the object. " +
			"Non-trivial: request that carried a hostile path / bad credentials / a write; distinct by (server, via, method, path class, auth class, config)",
		Assumptions:   []string{"HTTP/1.1 over loopback TCP; TLS and mutual TLS are not exercised"},
		Cases:         cases,
		Run:           run,
		ParentSetup:   parentSetup,
		Setup:         func(c *harness.Ctx) { cli = os.Getenv("VERIF_CLI") },
		MinNonTrivial: 20,
		CaseTimeout:   120 * time.Second,
	})
}

func cases(tier string) int {
	if tier == "thorough" {
		return 40000
	}
	return 1500
}

func parentSetup(tier string, seed int64, work string) ([]string, error) {
	p, err := harness.BuildCLI(work, "desync-verif", "verif", false)
	if err != nil {
		return nil, err
	}
	return []string{"VERIF_CLI=" + p}, nil
}

type response struct {
	status int
	body   []byte
	err    error
}

func rawRequest(addr, method, target string, headers []string, body []byte) response {
	conn, err := net.DialTimeout("tcp", addr, 5*time.Second)
	if err != nil {
		return response{err: err}
	}
	defer conn.Close()
	conn.SetDeadline(time.Now().Add(20 * time.Second))
	var b bytes.Buffer
	fmt.Fprintf(&b, "%s %s HTTP/1.1\r\nHost: %s\r\nConnection: close\r\n", method, target, addr)
	for _, h := range headers {
		b.WriteString(h + "\r\n")
	}
	if body != nil {
		fmt.Fprintf(&b, "Content-Length: %d\r\n", len(body))
	}
	b.WriteString("\r\n")
	b.Write(body)
	if _, err := conn.Write(b.Bytes()); err != nil {
		return response{err: err}
	}
	req, _ := http.NewRequest(method, "http://x/", nil)
	resp, err := http.ReadResponse(bufio.NewReader(conn), req)
	if err != nil {
		return response{err: err}
	}
	defer resp.Body.Close()
	rb, _ := io.ReadAll(resp.Body)
	return response{status: resp.StatusCode, body: rb}
}

// the configured authorization value of the case (run picks it)
var secret = "Bearer s3cr3t-Token"

var secrets = []string{"Bearer s3cr3t-Token", "Bearer s3cr3t-Token", "Bearer s3cr3t,", `Digest username="x", response="y"`, "tok-a,tok-b", "Basic dXNlcjpwYXNz"}

type authCase struct {
	class   string
	headers []string
	valid   bool // carries exactly the configured value (after OWS trimming)
}

func authCases() []authCase {
	return []authCase{
		{"none", nil, false},
		{"right", []string{"Authorization: " + secret}, true},
		{"right-ows", []string{"Authorization:   " + secret + "  "}, true},
		{"wrong", []string{"Authorization: Bearer other"}, false},
		{"case", []string{"Authorization: " + strings.ToLower(secret)}, strings.ToLower(secret) == secret},
		{"inner-ws", []string{"Authorization: Bearer  s3cr3t-Token"}, false},
		{"prefix", []string{"Authorization: " + secret[:len(secret)-1]}, false},
		{"suffix", []string{"Authorization: " + secret + "x"}, false},
		{"empty", []string{"Authorization: "}, false},
		{"other-header", []string{"X-Authorization: " + secret, "Cookie: " + secret}, false},
		{"two-wrong-first", []string{"Authorization: nope", "Authorization: " + secret}, false}, // ambiguous: not counted as valid, nor asserted
		// pieces of a value that holds commas are not the value
		{"comma-piece-first", []string{"Authorization: " + strings.TrimSpace(strings.SplitN(secret+",", ",", 2)[0])}, !strings.Contains(secret, ",")},
		{"comma-piece-last", []string{"Authorization: " + strings.TrimSpace(secret[strings.LastIndex(secret, ",")+1:])}, !strings.Contains(secret, ",")},
	}
}

func run(c *harness.Ctx, i int) {
	rng := c.Rng
	desync.Digest = desync.SHA512256{}
	server := []string{"chunk", "chunk", "index"}[rng.Intn(3)]
	via := "handler"
	if i%8 == 3 {
		via = "cli"
	}
	writable := rng.Intn(2) == 0
	verifyWrite := rng.Intn(2) == 0
	uncompressed := rng.Intn(2) == 0
	useAuth := rng.Intn(3) != 0
	authVia := []string{"flag", "env"}[rng.Intn(2)]
	skipVerifyRead := rng.Intn(2) == 0
	secret = secrets[rng.Intn(len(secrets))]
	proxied := server == "index" && via == "handler" && rng.Intn(3) == 0
	if proxied {
		via = "handler-http-upstream"
	}
	c.Info("server=%s via=%s writable=%v verify-write=%v uncompressed=%v auth=%v(%s)", server, via, writable, verifyWrite, uncompressed, useAuth, authVia)
	c.LogInfo()

	// sandbox: <dir>/box/served (the store), <dir>/box/outside (sentinels), <dir>/box/sentinel
	dir := c.CaseDir()
	box := filepath.Join(dir, "box")
	served := filepath.Join(box, "served")
	os.MkdirAll(served, 0755)
	os.MkdirAll(filepath.Join(box, "outside"), 0755)
	dsu.WriteFile(filepath.Join(box, "sentinel"), []byte("sentinel\n"))
	dsu.WriteFile(filepath.Join(box, "outside", "sentinel"), []byte("outside sentinel\n"))

	// content
	var ids []desync.ChunkID
	plain := map[desync.ChunkID][]byte{}
	store, _ := desync.NewLocalStore(served, desync.StoreOptions{Uncompressed: uncompressed})
	ext := ".cacnk"
	if uncompressed {
		ext = ""
	}
	idx := dsu.RefIndex(dsu.MakeBlob(rng, "random", 3000, dsu.Sizes{Min: 64, Avg: 128, Max: 256}), dsu.Sizes{Min: 64, Avg: 128, Max: 256})
	var idxBytes bytes.Buffer
	idx.WriteTo(&idxBytes)
	if server == "chunk" {
		for k := 0; k < 3; k++ {
			b := dsu.MakeBlob(rng, "random", 100+rng.Intn(2000), dsu.Sizes{Min: 64, Avg: 128, Max: 256})
			id := dsu.Sum(b)
			ids = append(ids, id)
			plain[id] = b
			dsu.Must(store.StoreChunk(desync.NewChunk(b)))
		}
	} else {
		dsu.WriteFile(filepath.Join(served, "present.caibx"), idxBytes.Bytes())
		// other objects of the store whose names are those of the request targets plus a suffix or prefix a careless
		// implementation might use for its temporary files: a request for X must not touch them
		for _, base := range []string{"present.caibx", "new.caibx"} {
			for _, f := range []string{base + ".tmp", base + "~", base + ".part", base + ".new", base + ".bak", "." + base + ".tmp", base + ".lock"} {
				dsu.WriteFile(filepath.Join(served, f), idxBytes.Bytes())
			}
		}
		dsu.WriteFile(filepath.Join(box, "outside", "secret.caibx"), idxBytes.Bytes())
	}
	// a chunk that is not stored yet (upload target) and one whose upload carries wrong content
	newData := dsu.MakeBlob(rng, "random", 500, dsu.Sizes{Min: 64, Avg: 128, Max: 256})
	newID := dsu.Sum(newData)
	form := func(b []byte) []byte {
		if uncompressed {
			return b
		}
		return zenc.EncodeAll(b, nil)
	}

	// start the server
	var addr string
	cfgAuth := ""
	if useAuth {
		cfgAuth = secret
	}
	if via == "handler" || proxied {
		var h http.Handler
		if server == "chunk" {
			var conv desync.Converters
			if !uncompressed {
				conv = desync.Converters{desync.Compressor{}}
			}
			h = desync.NewHTTPHandler(store, writable, !verifyWrite, conv, cfgAuth)
		} else if proxied {
			// the index server's store is an HTTP location: a plain file-tree server (GET/PUT of cleaned paths below
			// the sandbox) whose sub-tree /served/ is what the index server is configured with
			up := httptest.NewServer(http.HandlerFunc(func(w http.ResponseWriter, r *http.Request) {
				p := filepath.Join(box, filepath.FromSlash(path.Clean("/"+r.URL.Path)))
				switch r.Method {
				case "GET", "HEAD":
					b, err := os.ReadFile(p)
					if err != nil {
						http.NotFound(w, r)
						return
					}
					w.Write(b)
				case "PUT":
					b, _ := io.ReadAll(r.Body)
					if os.WriteFile(p, b, 0644) != nil {
						http.Error(w, "cannot write", 500)
					}
				default:
					http.Error(w, "no", 405)
				}
			}))
			defer up.Close()
			uu, _ := url.Parse(up.URL + "/served/")
			is, _ := desync.NewRemoteHTTPIndexStore(uu, desync.StoreOptions{ErrorRetry: 0})
			h = desync.NewHTTPIndexHandler(is, writable, cfgAuth)
		} else {
			is, _ := desync.NewLocalIndexStore(served)
			h = desync.NewHTTPIndexHandler(is, writable, cfgAuth)
		}
		srv := httptest.NewServer(h)
		defer srv.Close()
		addr = strings.TrimPrefix(srv.URL, "http://")
	} else {
		var stderr bytes.Buffer
		a, cmd, err := dsu.StartServerCmd(func(addr string) *exec.Cmd {
			var args []string
			if server == "chunk" {
				cfgFile := filepath.Join(dir, "config.json")
				dsu.WriteFile(cfgFile, []byte(fmt.Sprintf(`{"store-options": {%q: {"uncompressed": %v}}}`, served, uncompressed)))
				args = []string{"--config", cfgFile, "chunk-server", "-s", served, "-l", addr, fmt.Sprintf("--skip-verify-write=%v", !verifyWrite), fmt.Sprintf("--skip-verify-read=%v", skipVerifyRead)}
				if uncompressed {
					args = append(args, "-u")
				}
			} else {
				args = []string{"index-server", "-s", served, "-l", addr}
			}
			if writable {
				args = append(args, "-w")
			}
			env := append(os.Environ(), "HOME="+dir)
			if useAuth {
				if authVia == "flag" {
					args = append(args, "--authorization", secret)
				} else {
					env = append(env, "DESYNC_HTTP_AUTH="+secret)
				}
			}
			cmd := exec.Command(cli, args...)
			cmd.Env = env
			cmd.Stderr = &stderr
			return cmd
		})
		if err != nil {
			c.Skip("server did not come up: %v %s", err, stderr.String())
			return
		}
		defer dsu.StopServerCmd(cmd)
		addr = a
	}

	type pathCase struct {
		class  string
		target string
	}
	var paths []pathCase
	if server == "chunk" {
		sid := ids[0].String()
		nid := newID.String()
		other := ids[1].String()
		paths = []pathCase{
			{"wellformed", "/" + sid[:4] + "/" + sid + ext},
			{"new", "/" + nid[:4] + "/" + nid + ext},
			{"wrong-prefix", "/" + other[:4] + "/" + sid + ext},
			{"no-prefix", "/" + sid + ext},
			{"extra-suffix", "/" + sid[:4] + "/" + sid + ext + ".x"},
			{"other-ext", "/" + sid[:4] + "/" + sid + map[bool]string{true: ".cacnk", false: ""}[uncompressed]},
			{"dotdot", "/" + sid[:4] + "/../" + sid[:4] + "/" + sid + ext},
			{"dotdot-out", "/../outside/sentinel"},
			{"enc-dotdot", "/%2e%2e/outside/sentinel"},
			{"enc-slash", "/" + sid[:4] + "%2f" + sid + ext},
			{"enc-slash-out", "/..%2Foutside%2Fsentinel"},
			{"double-slash", "//" + sid[:4] + "//" + sid + ext},
			{"upper-hex", "/" + strings.ToUpper(sid[:4]) + "/" + strings.ToUpper(sid) + ext},
			{"overlong", "/" + sid[:4] + "/" + sid + strings.Repeat("a", 5000) + ext},
			{"overlong-by-a-byte", "/" + sid[:4] + "/" + sid + other[:2*(1+rng.Intn(3))] + ext},
			{"empty", "/"},
			{"absolute-uri", "http://" + addr + "/" + sid[:4] + "/" + sid + ext},
			{"query", "/" + sid[:4] + "/" + sid + ext + "?x=../../outside/sentinel"},
			{"short", "/ab/cd"},
			// the all-zero ID is also what an undecodable body "hashes" to inside desync
			{"zero-id", "/0000/" + strings.Repeat("0", 64) + ext},
		}
	} else {
		paths = []pathCase{
			{"wellformed", "/present.caibx"},
			{"new", "/new.caibx"},
			{"nested", "/a/b/present.caibx"},
			{"dotdot-out", "/../outside/secret.caibx"},
			{"dotdot-out2", "/x/../../outside/secret.caibx"},
			{"enc-dotdot", "/%2e%2e/outside/secret.caibx"},
			{"enc-slash-out", "/..%2Foutside%2Fsecret.caibx"},
			{"enc-slash-out2", "/%2E%2E%2Foutside%2Fplanted.caibx"},
			{"enc-slash-nested", "/a/..%2f..%2foutside%2fsecret.caibx"},
			{"enc2-slash-out", "/..%252Foutside%252Fsecret.caibx"},
			{"enc2-slash-out2", "/..%252Foutside%252Fplanted.caibx"},
			{"enc2-dotdot", "/%252e%252e%252Foutside%252Fsecret.caibx"},
			{"double-slash", "//present.caibx"},
			{"dot", "/."},
			{"dotdot", "/.."},
			{"empty", "/"},
			{"overlong", "/" + strings.Repeat("n", 5000) + ".caibx"},
			{"absolute-uri", "http://" + addr + "/present.caibx"},
			{"backslash", "/..\\outside\\secret.caibx"},
		}
	}
	// side doors: paths that handlers registered next to desync's own on the same mux would answer (profiling, expvar,
	// metrics): whatever sits there answers in front of the authorization check
	for _, sd := range []string{"/debug/pprof/", "/debug/pprof/cmdline", "/debug/pprof/goroutine?debug=1", "/debug/pprof/heap?debug=1", "/debug/vars", "/metrics", "/healthz", "/status", "/debug/requests", "/debug/events"} {
		paths = append(paths, pathCase{"side-door", sd})
	}
	methods := []string{"GET", "HEAD", "PUT", "PUT-bad", "PUT-bad", "POST", "DELETE", "PATCH", "OPTIONS"}
	auths := authCases()
	nreq := 60
	polluted := false
	for r := 0; r < nreq; r++ {
		pc := paths[rng.Intn(len(paths))]
		method := methods[rng.Intn(len(methods))]
		ac := auths[rng.Intn(len(auths))]
		var body []byte
		m := method
		expectID := ids0(ids)
		if method == "PUT" || method == "PUT-bad" || method == "POST" || method == "PATCH" {
			if server == "chunk" {
				body = form(newData)
				if pc.class != "new" {
					body = form(plainOf(plain, ids)) // the right content for ids[0]
				}
				if method == "PUT-bad" {
					body = form([]byte("this is not the content of that chunk"))
					if rng.Intn(2) == 0 {
						// not even in the server's storage format (no zstd frame on a compressing server)
						body = []byte("\x00garbage that is neither a frame nor the chunk\xff")
					}
				}
			} else {
				body = idxBytes.Bytes()
				if method == "PUT-bad" {
					body = []byte("not an index")
				}
			}
			if method == "PUT-bad" {
				m = "PUT"
			}
		}
		before, err := treegen.Snapshot(box)
		dsu.Must(err)
		resp := rawRequest(addr, m, pc.target, ac.headers, body)
		after, err := treegen.Snapshot(box)
		dsu.Must(err)
		diffs := treegen.Compare(before, after)
		what := fmt.Sprintf("%s %s [auth %s] on %s server (via %s, writable=%v verify-write=%v uncompressed=%v auth-configured=%v/%s) -> %d", method, pc.target[:min(len(pc.target), 120)], ac.class, server, via, writable, verifyWrite, uncompressed, useAuth, authVia, resp.status)
		c.Count("requests", 1)
		cfg := fmt.Sprintf("w%v|v%v|u%v|a%v", writable, verifyWrite, uncompressed, useAuth)
		// (0) a path that is no chunk and no index of the store is not answered with success by anything: whatever
		// answers there sits next to desync's handler, in front of the authorization check and outside the store
		// (chunk server: none of these paths names a chunk. For the index server any base name is a legal index name, a
		// PUT of an index to /metrics stores the index "metrics"; what GET and HEAD answer there is judged by the rules below.)
		if pc.class == "side-door" && server == "chunk" && resp.status/100 == 2 {
			c.Violation("side-door-answered:"+server, "%s: %d bytes that are no object of the store (%.60q...)", what, len(resp.body), resp.body)
			return
		}
		// (1) authorization, negative
		if useAuth && !ac.valid && ac.class != "two-wrong-first" {
			if len(diffs) > 0 {
				c.Violation("unauthorized-write:"+server, "%s: the sandbox changed: %+v", what, diffs[0])
				return
			}
			if resp.status == 200 && m == "GET" && len(resp.body) > 0 && isObject(resp.body, server, uncompressed, plain, idxBytes.Bytes()) {
				c.Violation("unauthorized-read:"+server, "%s: object bytes were served without the configured authorization", what)
				return
			}
			if resp.status == 200 && (m == "HEAD" || m == "GET") {
				c.Violation("unauthorized-200:"+server, "%s: status 200 without the configured authorization", what)
				return
			}
		}
		// (2) read-only
		if !writable && len(diffs) > 0 {
			c.Violation("readonly-modified:"+server, "%s: a server not started writable changed the sandbox: %+v", what, diffs[0])
			return
		}
		// (3) confinement: whatever changed must be the canonical object inside the served directory
		for _, d := range diffs {
			allowed := false
			if server == "chunk" {
				for _, id := range []desync.ChunkID{newID, expectID, {}} {
					if id == (desync.ChunkID{}) && pc.class != "zero-id" {
						continue
					}
					s := id.String()
					cp := "served/" + s[:4] + "/" + s + ext
					if d.Path == cp || d.Path == "served/"+s[:4] || d.Path == "served" {
						allowed = true
					}
				}
				if strings.HasPrefix(d.Path, "served/") && strings.Contains(filepath.Base(d.Path), ".tmp-cacnk") {
					allowed = true
				}
			} else {
				base := decodedBase(pc.target)
				if d.Path == "served/"+base || d.Path == "served" {
					allowed = true
				}
			}
			if !allowed {
				c.Violation("path-escape:"+server+":"+pc.class, "%s: touched %q (%s: %s -> %s), which is not the canonical object of the request", what, d.Path, d.Field, d.Want, d.Got)
				return
			}
		}
		// with write verification disabled a mismatching upload is legitimately accepted; from then on the store may
		// hold (and a non-verifying server may serve) bytes that do not hash to their name
		if server == "chunk" && method == "PUT-bad" && !verifyWrite && resp.status == 200 {
			polluted = true
		}
		// ... the same for a plain PUT whose (valid) body belongs to another ID than the path names, as under the
		// all-zero ID (found by the thorough tier: the oracle then took the stored upload for a wrong object served)
		if server == "chunk" && m == "PUT" && !verifyWrite && resp.status/100 == 2 {
			data := body
			var derr error
			if !uncompressed {
				data, derr = zdec.DecodeAll(body, nil)
			}
			if id, ok := idFromTarget(pc.target, ext); derr != nil || !ok || dsu.Sum(data) != id {
				polluted = true
			}
		}
		// (4) a 200 GET body is exactly the requested object
		if m == "GET" && resp.status == 200 && !(server == "chunk" && polluted) {
			if server == "chunk" {
				data := resp.body
				var derr error
				if !uncompressed {
					data, derr = zdec.DecodeAll(resp.body, nil)
				}
				id, ok := idFromTarget(pc.target, ext)
				if derr != nil || !ok || dsu.Sum(data) != id {
					c.Violation("wrong-object-served:chunk:"+pc.class, "%s: body (%d bytes) is not the chunk named by the path", what, len(resp.body))
					return
				}
			} else if !bytes.Equal(resp.body, idxBytes.Bytes()) {
				c.Violation("wrong-object-served:index:"+pc.class, "%s: body (%d bytes) is not an index of the store", what, len(resp.body))
				return
			} else if _, exists := before["served/"+decodedBase(pc.target)]; !exists {
				// index bytes for a name that is not in the served directory: read from somewhere else
				c.Violation("read-outside:index:"+pc.class, "%s: served an index although %q does not exist in the served directory (a copy exists outside of it)", what, decodedBase(pc.target))
				return
			}
		}
		// (5) verify-write: mismatching upload refused
		if server == "chunk" && method == "PUT-bad" && verifyWrite && resp.status == 200 {
			c.Violation("bad-upload-accepted", "%s: an upload whose content does not hash to the ID was accepted with write verification on", what)
			return
		}
		// stored chunks stay valid whenever verification is on
		if server == "chunk" && verifyWrite && len(diffs) > 0 {
			for _, id := range []desync.ChunkID{newID, expectID} {
				if ch, err := store.GetChunk(id); err != nil {
					if _, missing := err.(desync.ChunkMissing); !missing {
						c.Violation("invalid-chunk-stored", "%s: the store now holds an invalid object for %x: %v", what, id[:4], err)
						return
					}
				} else {
					ch.Data()
				}
			}
		}
		hostile := pc.class != "wellformed" || !ac.valid || m != "GET"
		if hostile {
			oc := "other"
			switch {
			case resp.err != nil:
				oc = "closed"
			case resp.status == 200:
				oc = "200"
			case resp.status == 401:
				oc = "401"
			case resp.status >= 400 && resp.status < 500:
				oc = "4xx"
			case resp.status >= 500:
				oc = "5xx"
			}
			c.NonTrivial("%s|%s|%s|%s|%s|%s|%s", server, via, method, pc.class, ac.class, cfg, oc)
		}
		if r == 0 {
			c.Sample(map[string]interface{}{"server": server, "via": via, "method": method, "target": pc.target[:min(len(pc.target), 100)], "auth": ac.class, "config": cfg, "status": resp.status, "sandbox_changes": len(diffs)})
		}
	}
	// upload storm on a verifying writable chunk server: uploads cut short mid-body (the announced length never arrives),
	// then many valid uploads of distinct chunks at the same time. Whatever the server stored must hash to its name.
	if server == "chunk" && writable && verifyWrite && !polluted {
		right := []string{"Authorization: " + secret}
		type up struct {
			id   desync.ChunkID
			data []byte
		}
		var ups []up
		for k := 0; k < 24; k++ {
			b := make([]byte, 200+rng.Intn(60000))
			rng.Read(b)
			ups = append(ups, up{dsu.Sum(b), b})
		}
		target := func(id desync.ChunkID) string { s := id.String(); return "/" + s[:4] + "/" + s + ext }
		aborted := 0
		abort := func(u up) {
			conn, err := net.DialTimeout("tcp", addr, 5*time.Second)
			if err != nil {
				return
			}
			body := form(u.data)
			fmt.Fprintf(conn, "PUT %s HTTP/1.1\r\nHost: %s\r\n%s\r\nContent-Length: %d\r\n\r\n", target(u.id), addr, right[0], len(body)+1000)
			conn.Write(body[:len(body)/2])
			conn.Close()
			aborted++
		}
		for k := 0; k < 1+rng.Intn(4); k++ {
			abort(ups[rng.Intn(len(ups))])
		}
		time.Sleep(5 * time.Millisecond)
		var wg sync.WaitGroup
		statuses := make([]int, len(ups))
		for g := 0; g < 8; g++ {
			wg.Add(1)
			go func(g int) {
				defer wg.Done()
				for k := g; k < len(ups); k += 8 {
					statuses[k] = rawRequest(addr, "PUT", target(ups[k].id), right, form(ups[k].data)).status
					if k%5 == 0 {
						abort2 := ups[(k+1)%len(ups)]
						if conn, err := net.DialTimeout("tcp", addr, 5*time.Second); err == nil {
							body := form(abort2.data)
							fmt.Fprintf(conn, "PUT %s HTTP/1.1\r\nHost: %s\r\n%s\r\nContent-Length: %d\r\n\r\n", target(abort2.id), addr, right[0], len(body)+1000)
							conn.Write(body[:len(body)/3])
							conn.Close()
						}
					}
				}
			}(g)
		}
		wg.Wait()
		accepted := 0
		for k, u := range ups {
			s := u.id.String()
			raw, err := os.ReadFile(filepath.Join(served, s[:4], s+ext))
			if err != nil {
				if statuses[k] == 200 {
					c.Violation("upload-lost", "a valid upload of %s was answered 200 but the store holds no such object", s[:10])
					return
				}
				continue
			}
			data := raw
			if !uncompressed {
				data, err = zdec.DecodeAll(raw, nil)
			}
			if err != nil || dsu.Sum(data) != u.id {
				c.Violation("invalid-chunk-stored", "after %d uploads cut short mid-body and 24 concurrent valid uploads to a verifying server (uncompressed=%v, via %s) the store holds %d bytes under %s that do not hash to that ID (status of its upload: %d)", aborted, uncompressed, via, len(raw), s[:10], statuses[k])
				return
			}
			accepted++
		}
		c.Count("storm_uploads_checked", int64(accepted))
		c.NonTrivial("upload-storm|%s|u%v", via, uncompressed)
	}
	_ = rand.Int
}

func ids0(ids []desync.ChunkID) desync.ChunkID {
	if len(ids) > 0 {
		return ids[0]
	}
	return desync.ChunkID{}
}

func plainOf(plain map[desync.ChunkID][]byte, ids []desync.ChunkID) []byte {
	if len(ids) > 0 {
		return plain[ids[0]]
	}
	return nil
}

// decodedBase is the last path component of the request target as the server sees it (percent-decoded).
func decodedBase(target string) string {
	t := target
	if i := strings.Index(t, "?"); i >= 0 {
		t = t[:i]
	}
	if strings.HasPrefix(t, "http://") {
		t = t[len("http://"):]
		if i := strings.Index(t, "/"); i >= 0 {
			t = t[i:]
		}
	}
	if d, err := url.PathUnescape(t); err == nil {
		t = d
	}
	return path.Base(t)
}

func idFromTarget(target, ext string) (desync.ChunkID, bool) {
	// parsed here, not with desync's own function: exactly 64 hex digits
	base := strings.TrimSuffix(decodedBase(target), ext)
	var id desync.ChunkID
	if len(base) != 2*len(id) {
		return id, false
	}
	b, err := hex.DecodeString(base)
	if err != nil {
		return id, false
	}
	copy(id[:], b)
	return id, true
}

func isObject(body []byte, server string, uncompressed bool, plain map[desync.ChunkID][]byte, idx []byte) bool {
	if server == "index" {
		return bytes.Equal(body, idx)
	}
	data := body
	if !uncompressed {
		d, err := zdec.DecodeAll(body, nil)
		if err != nil {
			return false
		}
		data = d
	}
	_, ok := plain[dsu.Sum(data)]
	return ok
}
