// C14: remote transports preserve data and report missing vs. failed truthfully.
package main

import (
	"bufio"
	"bytes"
	"fmt"
	"io"
	"math/rand"
	"net"
	"net/http"
	"net/http/httptest"
	"net/url"
	"os"
	"os/exec"
	"path/filepath"
	"strings"
	"sync"
	"sync/atomic"
	"time"

	"github.com/folbricht/desync"
	"github.com/klauspost/compress/zstd"

	"verif/dsu"
	"verif/fakes"
	"verif/harness"
)

var cli, shim string
var zenc, _ = zstd.NewWriter(nil)

func main() {
	harness.Main(&harness.Config{
		Prop:  "C14",
		Level: "fault_enumeration",
		Rule: "(a) matrix {client compressed?} x {server -u?} x {upstream compressed?} x chunks {1 B, incompressible, zeros, max size}: StoreChunk / GetChunk / HasChunk through desync's chunk handler and through real `desync chunk-server` children; indexes through the index handler / `index-server` (GET, HEAD, PUT; present and missing), also an index server proxying an HTTP upstream. " +
			"(b) scripted raw-TCP server: PRNG response sequences (length 0..8) of {200, 404, 403, 400, 500, 503, connection reset, short body} x error-retry in {0,1,2,3,5} (base interval 1 ms) for GET/HEAD/PUT of chunks and GET of indexes; " +
			"(c) ssh:// through the shim to `desync pull`: present, missing, present again on the same session; (d) a compressing chunk handler in front of an ssh:// upstream with one session under 8 concurrent clients. " +
			"Oracle: (a) byte/ index equality and the upstream's on-disk format; (b) computed from the script alone: attempts <= max(1, error-retry), outcome = first non-transient response within the budget (200 -> data/true/ok, 404 -> missing/false/NoSuchObject, other 4xx -> error), all-transient -> error, never 'missing' or success out of a failure; (c),(d) typed result per request, every present chunk delivered. " +
			"Non-trivial: transfer that crossed a format conversion, or a script holding >=1 transient or non-200 response; distinct by (leg, operation, configuration / script shape, outcome)",
		Assumptions:   []string{"loopback HTTP/1.1 without TLS; every scripted response closes its connection, so the Go transport adds no hidden retries", "the ssh transport is the real client against `desync pull` started through a shim instead of ssh"},
		Cases:         cases,
		Run:           run,
		ParentSetup:   parentSetup,
		Setup:         func(c *harness.Ctx) { cli = os.Getenv("VERIF_CLI"); shim = os.Getenv("VERIF_SHIM") },
		MinNonTrivial: 20,
		CaseTimeout:   120 * time.Second,
	})
}

func cases(tier string) int {
	if tier == "thorough" {
		return 150000
	}
	return 6000
}

func parentSetup(tier string, seed int64, work string) ([]string, error) {
	p, err := harness.BuildCLI(work, "desync-verif", "verif", false)
	if err != nil {
		return nil, err
	}
	sh, err := harness.BuildHelper(work, "shim", "./helpers/shim", "verif")
	if err != nil {
		return nil, err
	}
	return []string{"VERIF_CLI=" + p, "VERIF_SHIM=" + sh}, nil
}

func run(c *harness.Ctx, i int) {
	desync.Digest = desync.SHA512256{}
	switch {
	case i%10 < 6:
		scripted(c)
	case i%10 < 8:
		matrix(c, i)
	case i%10 == 8:
		indexes(c)
	default:
		switch i % 40 {
		case 9:
			sshSession(c)
		case 19:
			hasSemantics(c)
		case 29:
			damagedConcurrent(c)
		default:
			sshBehindHTTP(c)
		}
	}
}

// ---------------------------------------------------------------------------
// (b) scripted server

type scriptedServer struct {
	l       net.Listener
	mu      sync.Mutex
	script  []string
	n       int
	body200 []byte
	reqs    []string
	bodies  [][]byte
}

func newScripted(script []string, body []byte) *scriptedServer {
	l, err := net.Listen("tcp", "127.0.0.1:0")
	for try := 0; err != nil && try < 100; try++ { // ephemeral ports can run out for a moment on a busy machine
		time.Sleep(100 * time.Millisecond)
		l, err = net.Listen("tcp", "127.0.0.1:0")
	}
	dsu.Must(err)
	s := &scriptedServer{l: l, script: script, body200: body}
	go func() {
		for {
			conn, err := l.Accept()
			if err != nil {
				return
			}
			go s.handle(conn)
		}
	}()
	return s
}

func (s *scriptedServer) handle(conn net.Conn) {
	defer conn.Close()
	req, err := http.ReadRequest(bufio.NewReader(conn))
	if err != nil {
		return
	}
	rb, _ := io.ReadAll(req.Body)
	s.mu.Lock()
	k := s.n
	s.n++
	s.reqs = append(s.reqs, req.Method+" "+req.URL.Path)
	s.bodies = append(s.bodies, rb)
	s.mu.Unlock()
	el := "200"
	if k < len(s.script) {
		el = s.script[k]
	}
	write := func(status int, body []byte) {
		fmt.Fprintf(conn, "HTTP/1.1 %d %s\r\nContent-Length: %d\r\nConnection: close\r\n\r\n", status, http.StatusText(status), len(body))
		if req.Method != "HEAD" {
			conn.Write(body)
		}
	}
	switch el {
	case "200":
		if req.Method == "PUT" || req.Method == "HEAD" {
			write(200, nil)
		} else {
			write(200, s.body200)
		}
	case "404", "403", "400", "500", "503":
		var st int
		fmt.Sscan(el, &st)
		write(st, []byte("scripted "+el))
	case "RST":
		if tc, ok := conn.(*net.TCPConn); ok {
			tc.SetLinger(0)
		}
	case "SHORT":
		fmt.Fprintf(conn, "HTTP/1.1 200 OK\r\nContent-Length: %d\r\nConnection: close\r\n\r\n", len(s.body200)+100)
		conn.Write(s.body200[:len(s.body200)/2])
	case "STALL":
		// no answer at all: hold the connection until the client gives up on this attempt (its per-request timeout)
		conn.SetReadDeadline(time.Now().Add(20 * time.Second))
		io.Copy(io.Discard, conn)
	}
}

func (s *scriptedServer) count() int {
	s.mu.Lock()
	defer s.mu.Unlock()
	return s.n
}

func transient(el string) bool {
	return el == "500" || el == "503" || el == "RST" || el == "SHORT" || el == "STALL"
}

func scripted(c *harness.Ctx) {
	rng := c.Rng
	op := []string{"get", "get", "has", "store", "index", "index-store"}[rng.Intn(6)]
	retry := []int{0, 1, 2, 3, 5}[rng.Intn(5)]
	uncompressed := rng.Intn(2) == 0
	elems := []string{"200", "404", "403", "400", "500", "503", "RST", "SHORT", "500", "RST"}
	n := rng.Intn(9)
	var script []string
	for k := 0; k < n; k++ {
		el := elems[rng.Intn(len(elems))]
		if el == "SHORT" && op != "get" && op != "index" {
			el = "503"
		}
		script = append(script, el)
	}
	// an attempt that gets no answer within the store's timeout is one more transient failure: the next attempt has
	// its own full timeout (at most two stalls per script, the timeout is one second)
	stalls := 0
	if n > 0 && rng.Intn(12) == 0 {
		for k := 0; k < 1+rng.Intn(2); k++ {
			script[rng.Intn(len(script))] = "STALL"
		}
		for _, el := range script {
			if el == "STALL" {
				stalls++
			}
		}
	}
	data := dsu.MakeBlob(rng, "random", 200+rng.Intn(3000), dsu.Sizes{Min: 64, Avg: 128, Max: 256})
	id := dsu.Sum(data)
	body := data
	if !uncompressed {
		body = zenc.EncodeAll(data, nil)
	}
	idx := dsu.RefIndex(dsu.MakeBlob(rng, "random", 2000, dsu.Sizes{Min: 64, Avg: 128, Max: 256}), dsu.Sizes{Min: 64, Avg: 128, Max: 256})
	var idxBytes bytes.Buffer
	idx.WriteTo(&idxBytes)
	if op == "index" {
		body = idxBytes.Bytes()
	}
	c.Info("scripted op=%s retry=%d uncompressed=%v script=%v", op, retry, uncompressed, script)
	c.LogInfo()
	// One attempt at the script. The verdict of a script with stalled attempts depends on the client's clock (a busy
	// machine can make an answered attempt look stalled): such a verdict is only reported when it shows again in two
	// repetitions with a longer time-out - a defect of the client is a function of the script and shows every time.
	var got, final string
	var seen, attempts, budget int
	try := func(timeout time.Duration) (string, string) {
		srv := newScripted(script, body)
		defer srv.l.Close()
		u, _ := url.Parse("http://" + srv.l.Addr().String() + "/")
		opt := desync.StoreOptions{ErrorRetry: retry, ErrorRetryBaseInterval: time.Millisecond, Uncompressed: uncompressed, N: 1}
		if stalls > 0 {
			opt.Timeout = timeout
		}

		// expected outcome from the script alone
		budget = retry
		if budget < 1 {
			budget = 1
		}
		final = "" // "" = all transient within the budget
		attempts = budget
		for a := 0; a < budget; a++ {
			el := "200"
			if a < len(script) {
				el = script[a]
			}
			if !transient(el) {
				final = el
				attempts = a + 1
				break
			}
		}
		want := "error"
		switch final {
		case "200":
			want = "ok"
		case "404":
			want = "missing"
			if op == "store" || op == "index-store" {
				want = "error"
			}
		}
		got = ""
		switch op {
		case "get":
			s, err := desync.NewRemoteHTTPStore(u, opt)
			dsu.Must(err)
			ch, err := s.GetChunk(id)
			switch err.(type) {
			case nil:
				b, derr := ch.Data()
				if derr != nil || !bytes.Equal(b, data) {
					got = "wrong-data"
				} else {
					got = "ok"
				}
			case desync.ChunkMissing:
				got = "missing"
			default:
				got = "error"
			}
		case "has":
			s, err := desync.NewRemoteHTTPStore(u, opt)
			dsu.Must(err)
			h, err := s.HasChunk(id)
			switch {
			case err != nil:
				got = "error"
			case h:
				got = "ok"
			default:
				got = "missing"
			}
		case "store":
			s, err := desync.NewRemoteHTTPStore(u, opt)
			dsu.Must(err)
			if err := s.StoreChunk(desync.NewChunk(data)); err != nil {
				got = "error"
			} else {
				got = "ok"
			}
		case "index-store":
			s, err := desync.NewRemoteHTTPIndexStore(u, opt)
			dsu.Must(err)
			if err := s.StoreIndex("x.caibx", idx); err != nil {
				got = "error"
			} else {
				got = "ok"
				// what the server received with the accepted attempt must be the index
				srv.mu.Lock()
				last := srv.bodies[len(srv.bodies)-1]
				srv.mu.Unlock()
				if !bytes.Equal(last, idxBytes.Bytes()) {
					return "index-store-body", fmt.Sprintf("StoreIndex reported success (script %v, error-retry %d) but the accepted PUT carried %d bytes, the index has %d", script, retry, len(last), idxBytes.Len())
				}
			}
		case "index":
			s, err := desync.NewRemoteHTTPIndexStore(u, opt)
			dsu.Must(err)
			ix, err := s.GetIndex("x.caibx")
			switch e := err.(type) {
			case nil:
				if len(ix.Chunks) != len(idx.Chunks) || ix.Length() != idx.Length() {
					got = "wrong-data"
				} else {
					got = "ok"
				}
			case desync.NoSuchObject:
				got = "missing"
			default:
				_ = e
				got = "error"
				if strings.Contains(err.Error(), "missing from store") {
					got = "missing"
				}
			}
		}
		seen = srv.count()
		if seen > budget {
			return "too-many-attempts:" + op, fmt.Sprintf("error-retry=%d allows %d attempt(s), the server saw %d requests (script %v)", retry, budget, seen, script)
		}
		if got != want {
			cls := "wrong-outcome"
			switch {
			case want == "ok" && got != "ok":
				cls = "transient-run-visible"
			case got == "missing":
				cls = "failure-reported-as-missing"
			case got == "ok":
				cls = "failure-reported-as-success"
			case want == "missing":
				cls = "missing-reported-as-error"
			}
			return cls + ":" + op, fmt.Sprintf("op=%s error-retry=%d script=%v: the caller saw %q, the script determines %q (first non-transient response within %d attempts: %q); server saw %d requests", op, retry, script, got, want, budget, final, seen)
		}
		if seen != attempts {
			return "attempt-count:" + op, fmt.Sprintf("script %v with error-retry=%d takes exactly %d attempt(s), the server saw %d", script, retry, attempts, seen)
		}
		return "", ""
	}
	cls, msg := try(time.Second)
	if stalls > 0 {
		c.Count("scripts_with_stalled_attempts", 1)
		for r := 0; r < 2 && cls != ""; r++ {
			c.Count("stalled_scripts_repeated_with_a_longer_timeout", 1)
			cls, msg = try(4 * time.Second)
		}
	}
	c.Count("scripts", 1)
	c.Count("requests_seen", int64(seen))
	if cls != "" {
		c.Violation(cls, "%s", msg)
		return
	}
	hostile := false
	shape := ""
	for a := 0; a < len(script) && a < budget; a++ {
		if script[a] != "200" {
			hostile = true
		}
		if transient(script[a]) {
			shape += "T"
		} else {
			shape += script[a][:1]
		}
	}
	if hostile {
		c.NonTrivial("scripted|%s|r%d|u%v|%s|%s", op, retry, uncompressed, shape, got)
	}
	c.Sample(map[string]interface{}{"leg": "scripted", "op": op, "error_retry": retry, "script": script, "outcome": got, "requests_seen": seen})
}

// ---------------------------------------------------------------------------
// (a) compression matrix

func matrix(c *harness.Ctx, i int) {
	rng := c.Rng
	clientU := rng.Intn(2) == 0
	serverU := rng.Intn(2) == 0
	upstreamU := rng.Intn(2) == 0
	if rng.Intn(5) != 0 {
		clientU = serverU
	}
	via := "handler"
	if i%50 == 7 {
		via = "cli"
	}
	class := []string{"one-byte", "incompressible", "zeros", "max"}[rng.Intn(4)]
	var data []byte
	switch class {
	case "one-byte":
		data = []byte{byte(rng.Intn(256))}
	case "incompressible":
		data = dsu.MakeBlob(rng, "random", 1000+rng.Intn(50000), dsu.Sizes{Min: 64, Avg: 128, Max: 256})
	case "zeros":
		data = make([]byte, 1+rng.Intn(100000))
	case "max":
		data = dsu.MakeBlob(rng, "mixed", 262144, dsu.Sizes{Min: 1024, Avg: 4096, Max: 16384})
	}
	id := dsu.Sum(data)
	c.Info("matrix via=%s client-uncompressed=%v server-u=%v upstream-uncompressed=%v chunk=%s(%d)", via, clientU, serverU, upstreamU, class, len(data))
	c.LogInfo()
	dir := c.CaseDir()
	up := filepath.Join(dir, "upstream")
	os.MkdirAll(up, 0755)
	var base string
	if via == "cli" && rng.Intn(3) == 0 {
		cachedServer(c, rng, dir, up, data, id, clientU, serverU, upstreamU)
		return
	}
	if via == "handler" {
		ls, _ := desync.NewLocalStore(up, desync.StoreOptions{Uncompressed: upstreamU})
		var conv desync.Converters
		if !serverU {
			conv = desync.Converters{desync.Compressor{}}
		}
		srv := httptest.NewServer(desync.NewHTTPHandler(ls, true, rng.Intn(2) == 0, conv, ""))
		defer srv.Close()
		base = srv.URL
	} else {
		cfg := filepath.Join(dir, "config.json")
		dsu.WriteFile(cfg, []byte(fmt.Sprintf(`{"store-options": {%q: {"uncompressed": %v}}}`, up, upstreamU)))
		addr, cmd, err := dsu.StartServerCmd(func(addr string) *exec.Cmd {
			args := []string{"--config", cfg, "chunk-server", "-w", "-s", up, "-l", addr, "--skip-verify-write=false"}
			if serverU {
				args = append(args, "-u")
			}
			cmd := exec.Command(cli, args...)
			cmd.Env = append(os.Environ(), "HOME="+dir)
			return cmd
		})
		if err != nil {
			c.Skip("chunk-server: %v", err)
			return
		}
		defer dsu.StopServerCmd(cmd)
		base = "http://" + addr
	}
	u, _ := url.Parse(base + "/")
	// (the client verifies what it gets, or - as the upstream side of a chunk server does by default - does not)
	clientSkipVerify := rng.Intn(3) == 0
	cl, err := desync.NewRemoteHTTPStore(u, desync.StoreOptions{Uncompressed: clientU, SkipVerify: clientSkipVerify, ErrorRetry: 1, ErrorRetryBaseInterval: time.Millisecond})
	dsu.Must(err)
	mismatch := clientU != serverU
	// missing first
	has, herr := cl.HasChunk(id)
	_, gerr := cl.GetChunk(id)
	_, isMissing := gerr.(desync.ChunkMissing)
	if !mismatch {
		if herr != nil || has {
			c.Violation("missing-misreported:has", "HasChunk of an absent chunk: %v %v", has, herr)
			return
		}
		if !isMissing {
			c.Violation("missing-misreported:get", "GetChunk of an absent chunk returned %v, not ChunkMissing", gerr)
			return
		}
	}
	serr := cl.StoreChunk(desync.NewChunk(data))
	if mismatch {
		// a client asking a server for the other format is a configuration error: nothing may be stored wrongly or served
		// as good data - with the chunk present upstream, and whether or not the client verifies what it gets
		if serr != nil {
			if us, uerr := desync.NewLocalStore(up, desync.StoreOptions{Uncompressed: upstreamU}); uerr == nil {
				us.StoreChunk(desync.NewChunk(data))
			}
		}
		ch, err := cl.GetChunk(id)
		if err == nil {
			if b, derr := ch.Data(); derr == nil && !bytes.Equal(b, data) {
				c.Violation("mismatch-wrong-data", "client/server format mismatch (client uncompressed=%v skip-verify=%v, server -u=%v) delivered %d bytes that are not the chunk (%d bytes)", clientU, clientSkipVerify, serverU, len(b), len(data))
				return
			}
		}
		c.Count("matrix_mismatch_cells", 1)
	} else {
		if serr != nil {
			c.Violation("store-failed", "StoreChunk through a healthy chunk server failed: %v", serr)
			return
		}
		// upstream holds it in ITS format
		us, _ := desync.NewLocalStore(up, desync.StoreOptions{Uncompressed: upstreamU})
		uch, err := us.GetChunk(id)
		if err != nil {
			c.Violation("upstream-format", "after StoreChunk the upstream store (uncompressed=%v) cannot read the chunk: %v", upstreamU, err)
			return
		}
		if b, _ := uch.Data(); !bytes.Equal(b, data) {
			c.Violation("upstream-data", "upstream holds different bytes")
			return
		}
		s := id.String()
		name := filepath.Join(up, s[:4], s)
		if !upstreamU {
			name += ".cacnk"
		}
		raw, err := os.ReadFile(name)
		if err != nil {
			c.Violation("upstream-format", "upstream file %s: %v", name, err)
			return
		}
		if upstreamU && !bytes.Equal(raw, data) {
			c.Violation("upstream-format", "uncompressed upstream file does not hold the raw bytes")
			return
		}
		has, herr := cl.HasChunk(id)
		if herr != nil || !has {
			c.Violation("present-misreported:has", "HasChunk of a present chunk: %v %v", has, herr)
			return
		}
		ch, err := cl.GetChunk(id)
		if err != nil {
			c.Violation("present-not-delivered", "GetChunk of a present chunk over a healthy transport failed: %v", err)
			return
		}
		if b, derr := ch.Data(); derr != nil || !bytes.Equal(b, data) {
			c.Violation("data-changed", "chunk arrived changed (client-u=%v server-u=%v upstream-u=%v)", clientU, serverU, upstreamU)
			return
		}
		c.Count("matrix_cells", 1)
		// a server that does not verify what it reads (the chunk-server default) in front of a damaged object:
		// when it cannot even convert the object it must answer with a failure, not with 200
		if via == "handler" {
			damage := []string{"empty", "garbage"}[rng.Intn(2)]
			if damage == "empty" {
				os.WriteFile(name, nil, 0644)
			} else {
				g := make([]byte, 50+rng.Intn(500))
				rng.Read(g)
				os.WriteFile(name, g, 0644)
			}
			ls2, _ := desync.NewLocalStore(up, desync.StoreOptions{Uncompressed: upstreamU, SkipVerify: true})
			var conv2 desync.Converters
			if !serverU {
				conv2 = desync.Converters{desync.Compressor{}}
			}
			srv2 := httptest.NewServer(desync.NewHTTPHandler(ls2, false, false, conv2, ""))
			ext := ".cacnk"
			if serverU {
				ext = ""
			}
			resp, herr := http.Get(srv2.URL + "/" + s[:4] + "/" + s + ext)
			if herr == nil {
				body, _ := io.ReadAll(resp.Body)
				resp.Body.Close()
				cannotConvert := damage == "empty" || (!upstreamU && serverU)
				if cannotConvert && resp.StatusCode == 200 {
					c.Violation("server-failure-as-200", "upstream object of %x is %s (upstream uncompressed=%v, server -u=%v): the server cannot produce the chunk, yet it answered 200 with %d bytes", id[:4], damage, upstreamU, serverU, len(body))
					srv2.Close()
					return
				}
				cl2, _ := desync.NewRemoteHTTPStore(mustURL(srv2.URL+"/"), desync.StoreOptions{Uncompressed: clientU, ErrorRetry: 1, ErrorRetryBaseInterval: time.Millisecond})
				if ch2, e2 := cl2.GetChunk(id); e2 == nil {
					if b2, d2 := ch2.Data(); d2 == nil && !bytes.Equal(b2, data) {
						c.Violation("damaged-delivered", "a verifying client got wrong bytes for %x through a skip-verify server", id[:4])
						srv2.Close()
						return
					}
				}
			}
			srv2.Close()
			c.Count("damaged_upstream_cells", 1)
		}
		if serverU != upstreamU || class == "max" {
			c.NonTrivial("matrix|%s|c%v|s%v|u%v|%s", via, clientU, serverU, upstreamU, class)
		}
	}
	c.Sample(map[string]interface{}{"leg": "matrix", "via": via, "client_uncompressed": clientU, "server_u": serverU, "upstream_uncompressed": upstreamU, "chunk": class, "bytes": len(data)})
}

// cachedServer: a read-only `desync chunk-server -s upstream -c cache`: a chunk that is in neither is missing (404,
// ChunkMissing after one request), one that is upstream is delivered (and again from the cache).
func cachedServer(c *harness.Ctx, rng *rand.Rand, dir, up string, data []byte, id desync.ChunkID, clientU, serverU, upstreamU bool) {
	cfg := filepath.Join(dir, "config.json")
	cache := filepath.Join(dir, "cache")
	os.MkdirAll(cache, 0755)
	dsu.WriteFile(cfg, []byte(fmt.Sprintf(`{"store-options": {%q: {"uncompressed": %v}}}`, up, upstreamU)))
	addr, cmd, err := dsu.StartServerCmd(func(addr string) *exec.Cmd {
		args := []string{"--config", cfg, "chunk-server", "-s", up, "-c", cache, "-l", addr}
		if serverU {
			args = append(args, "-u")
		}
		cmd := exec.Command(cli, args...)
		cmd.Env = append(os.Environ(), "HOME="+dir)
		return cmd
	})
	if err != nil {
		c.Skip("chunk-server: %v", err)
		return
	}
	defer dsu.StopServerCmd(cmd)
	cl, err := desync.NewRemoteHTTPStore(mustURL("http://"+addr+"/"), desync.StoreOptions{Uncompressed: serverU, ErrorRetry: 2, ErrorRetryBaseInterval: time.Millisecond})
	dsu.Must(err)
	_, gerr := cl.GetChunk(id)
	if _, isMissing := gerr.(desync.ChunkMissing); !isMissing {
		c.Violation("missing-misreported:get:cached-server", "chunk server with a cache, chunk in neither the cache nor upstream: GetChunk returned %v, not ChunkMissing", gerr)
		return
	}
	if has, herr := cl.HasChunk(id); herr != nil || has {
		c.Violation("missing-misreported:has:cached-server", "chunk server with a cache: HasChunk of an absent chunk: %v %v", has, herr)
		return
	}
	us, _ := desync.NewLocalStore(up, desync.StoreOptions{Uncompressed: upstreamU})
	dsu.Must(us.StoreChunk(desync.NewChunk(data)))
	for round := 0; round < 2; round++ {
		ch, err := cl.GetChunk(id)
		if err != nil {
			c.Violation("present-not-delivered:cached-server", "round %d: %v", round, err)
			return
		}
		if b, derr := ch.Data(); derr != nil || !bytes.Equal(b, data) {
			c.Violation("data-changed:cached-server", "chunk arrived changed through a caching chunk server (server -u=%v upstream-u=%v)", serverU, upstreamU)
			return
		}
	}
	c.Count("cached_server_cells", 1)
	c.NonTrivial("matrix|cached-server|s%v|u%v", serverU, upstreamU)
}

// ---------------------------------------------------------------------------
// indexes: handler / index-server / proxying index server

func indexes(c *harness.Ctx) {
	rng := c.Rng
	dir := c.CaseDir()
	idx := dsu.RefIndex(dsu.MakeBlob(rng, "random", 1000+rng.Intn(20000), dsu.Sizes{Min: 64, Avg: 128, Max: 256}), dsu.Sizes{Min: 64, Avg: 128, Max: 256})
	shape := []string{"handler", "proxy", "cli", "s3-upstream", "sftp-upstream"}[rng.Intn(5)]
	c.Info("indexes shape=%s chunks=%d", shape, len(idx.Chunks))
	c.LogInfo()
	os.MkdirAll(filepath.Join(dir, "idx"), 0755)
	ls, _ := desync.NewLocalIndexStore(filepath.Join(dir, "idx"))
	var base string
	switch shape {
	case "handler":
		srv := httptest.NewServer(desync.NewHTTPIndexHandler(ls, true, ""))
		defer srv.Close()
		base = srv.URL
	case "proxy":
		srv1 := httptest.NewServer(desync.NewHTTPIndexHandler(ls, true, ""))
		defer srv1.Close()
		u1, _ := url.Parse(srv1.URL + "/")
		upstream, _ := desync.NewRemoteHTTPIndexStore(u1, desync.StoreOptions{ErrorRetry: 1, ErrorRetryBaseInterval: time.Millisecond})
		srv2 := httptest.NewServer(desync.NewHTTPIndexHandler(upstream, true, ""))
		defer srv2.Close()
		base = srv2.URL
	case "s3-upstream":
		// index server in front of an S3 index store
		f := fakes.NewS3("bucket")
		defer f.Close()
		up, err := desync.NewS3IndexStore(f.URL("indexes"), fakes.Creds(), fakes.Region, desync.StoreOptions{ErrorRetry: 0}, fakes.Lookup)
		dsu.Must(err)
		srv := httptest.NewServer(desync.NewHTTPIndexHandler(up, true, ""))
		defer srv.Close()
		base = srv.URL
	case "sftp-upstream":
		os.Setenv("CASYNC_SSH_PATH", shim)
		os.Setenv("SHIM_SFTP_FAULT", "none@0")
		defer os.Unsetenv("SHIM_SFTP_FAULT")
		us, _ := url.Parse("sftp://localhost" + filepath.Join(dir, "idx"))
		up, err := desync.NewSFTPIndexStore(us, desync.StoreOptions{N: 1})
		if err != nil {
			c.Skip("sftp shim: %v", err)
			return
		}
		defer up.Close()
		srv := httptest.NewServer(desync.NewHTTPIndexHandler(up, true, ""))
		defer srv.Close()
		base = srv.URL
	case "cli":
		addr, cmd, err := dsu.StartServerCmd(func(addr string) *exec.Cmd {
			cmd := exec.Command(cli, "index-server", "-w", "-s", filepath.Join(dir, "idx"), "-l", addr)
			cmd.Env = append(os.Environ(), "HOME="+dir)
			return cmd
		})
		if err != nil {
			c.Skip("index-server: %v", err)
			return
		}
		defer dsu.StopServerCmd(cmd)
		base = "http://" + addr
	}
	u, _ := url.Parse(base + "/")
	cl, _ := desync.NewRemoteHTTPIndexStore(u, desync.StoreOptions{ErrorRetry: 1, ErrorRetryBaseInterval: time.Millisecond})
	head := func(name string) int {
		resp, err := http.Head(base + "/" + name)
		if err != nil {
			return -1
		}
		resp.Body.Close()
		return resp.StatusCode
	}
	// missing
	_, err := cl.GetIndex("a.caibx")
	if _, ok := err.(desync.NoSuchObject); !ok {
		c.Violation("index-missing-misreported:"+shape, "GetIndex of an absent index through %s returned %v, not NoSuchObject", shape, err)
		return
	}
	if st := head("a.caibx"); st != 404 {
		c.Violation("index-head-missing:"+shape, "HEAD of an absent index answered %d", st)
		return
	}
	if err := cl.StoreIndex("a.caibx", idx); err != nil {
		c.Violation("index-store-failed:"+shape, "%v", err)
		return
	}
	got, err := cl.GetIndex("a.caibx")
	if err != nil {
		c.Violation("index-present-not-delivered:"+shape, "%v", err)
		return
	}
	if len(got.Chunks) != len(idx.Chunks) || got.Index.FeatureFlags != idx.Index.FeatureFlags || got.Index.ChunkSizeMin != idx.Index.ChunkSizeMin || got.Index.ChunkSizeAvg != idx.Index.ChunkSizeAvg || got.Index.ChunkSizeMax != idx.Index.ChunkSizeMax {
		c.Violation("index-changed:"+shape, "index arrived changed")
		return
	}
	for k := range got.Chunks {
		if got.Chunks[k] != idx.Chunks[k] {
			c.Violation("index-changed:"+shape, "chunk %d differs", k)
			return
		}
	}
	if st := head("a.caibx"); st != 200 {
		c.Violation("index-head-present:"+shape, "HEAD of a present index answered %d", st)
		return
	}
	// an index server in front of an upstream that FAILS (500 / 403 on everything): neither GET nor HEAD may call
	// that "missing"
	if shape == "handler" || shape == "proxy" {
		code := []int{500, 403, 503}[rng.Intn(3)]
		bad := httptest.NewServer(http.HandlerFunc(func(w http.ResponseWriter, r *http.Request) { http.Error(w, "upstream trouble", code) }))
		defer bad.Close()
		ub, _ := url.Parse(bad.URL + "/")
		upstream, _ := desync.NewRemoteHTTPIndexStore(ub, desync.StoreOptions{ErrorRetry: 1, ErrorRetryBaseInterval: time.Millisecond})
		front := httptest.NewServer(desync.NewHTTPIndexHandler(upstream, false, ""))
		defer front.Close()
		uf, _ := url.Parse(front.URL + "/")
		fc, _ := desync.NewRemoteHTTPIndexStore(uf, desync.StoreOptions{ErrorRetry: 1, ErrorRetryBaseInterval: time.Millisecond})
		_, gerr := fc.GetIndex("a.caibx")
		if _, missing := gerr.(desync.NoSuchObject); missing || gerr == nil {
			c.Violation("failure-reported-as-missing:index-proxy", "index server in front of an upstream answering %d: GetIndex returned %v", code, gerr)
			return
		}
		if resp, herr := http.Head(front.URL + "/a.caibx"); herr == nil {
			resp.Body.Close()
			if resp.StatusCode == 404 || resp.StatusCode == 200 {
				c.Violation("failure-reported-as-missing:index-proxy-head", "index server in front of an upstream answering %d answered HEAD with %d", code, resp.StatusCode)
				return
			}
		}
		c.Count("failing_upstream_probes", 1)
	}
	// an upload to an index server whose store cannot take it: the index store is the directory /dev, the index name
	// "full" (every write to /dev/full fails with ENOSPC, as on a disk without room). The client must see a failure,
	// for indexes smaller than any buffer on the way too.
	if shape == "handler" || shape == "cli" {
		small := idx
		if rng.Intn(2) == 0 && len(idx.Chunks) > 3 {
			small.Chunks = idx.Chunks[:1+rng.Intn(3)]
		}
		var fbase string
		if shape == "handler" {
			devStore, _ := desync.NewLocalIndexStore("/dev")
			fs := httptest.NewServer(desync.NewHTTPIndexHandler(devStore, true, ""))
			defer fs.Close()
			fbase = fs.URL
		} else {
			addr, cmd, err := dsu.StartServerCmd(func(addr string) *exec.Cmd {
				cmd := exec.Command(cli, "index-server", "-w", "-s", "/dev", "-l", addr)
				cmd.Env = append(os.Environ(), "HOME="+dir)
				return cmd
			})
			if err == nil {
				defer dsu.StopServerCmd(cmd)
				fbase = "http://" + addr
			}
		}
		if fbase != "" {
			fu, _ := url.Parse(fbase + "/")
			fcl, _ := desync.NewRemoteHTTPIndexStore(fu, desync.StoreOptions{ErrorRetry: 1, ErrorRetryBaseInterval: time.Millisecond})
			if serr := fcl.StoreIndex("full", small); serr == nil {
				c.Violation("failure-reported-as-success:index-upload", "index server (%s) over a store without room (/dev/full): the upload of an index of %d chunks was reported as stored", shape, len(small.Chunks))
				return
			}
			c.Count("index_uploads_to_a_full_store", 1)
		}
	}
	c.Count("index_roundtrips", 1)
	c.NonTrivial("index|%s|%d", shape, min(len(idx.Chunks)/40, 3))
	c.Sample(map[string]interface{}{"leg": "indexes", "shape": shape, "chunks": len(idx.Chunks)})
}

// ---------------------------------------------------------------------------
// (c) ssh:// session: present, missing, present again

func sshStore(dir string, n int) (*desync.RemoteSSH, error) {
	os.Setenv("CASYNC_SSH_PATH", shim)
	os.Setenv("CASYNC_REMOTE_PATH", cli)
	os.Unsetenv("SHIM_EVIL")
	u, _ := url.Parse("ssh://localhost" + dir)
	return desync.NewRemoteSSHStore(u, desync.StoreOptions{N: n})
}

func sshSession(c *harness.Ctx) {
	rng := c.Rng
	dir := c.CaseDir()
	store := filepath.Join(dir, "store")
	os.MkdirAll(store, 0755)
	// the store behind `desync pull` is compressed, or (through the config file of the serving side) uncompressed
	uncompressed := rng.Intn(2) == 0
	os.MkdirAll(filepath.Join(dir, ".config", "desync"), 0755)
	dsu.WriteFile(filepath.Join(dir, ".config", "desync", "config.json"), []byte(fmt.Sprintf(`{"store-options": {%q: {"uncompressed": %v}}}`, store, uncompressed)))
	oldHome := os.Getenv("HOME")
	os.Setenv("HOME", dir)
	defer os.Setenv("HOME", oldHome)
	ls, _ := desync.NewLocalStore(store, desync.StoreOptions{Uncompressed: uncompressed})
	var ids []desync.ChunkID
	plain := map[desync.ChunkID][]byte{}
	for k := 0; k < 4; k++ {
		// small chunks, and incompressible ones of 64 KiB, of the default maximum (256 KiB: their compressed form is
		// larger than that) and of several MiB (indexes made with larger chunk sizes)
		size := 100 + rng.Intn(5000)
		switch k {
		case 1:
			size = []int{64 << 10, 256 << 10, 256<<10 - 1}[rng.Intn(3)]
		case 2:
			size = []int{256 << 10, 1 << 20, 3<<20 + 17}[rng.Intn(3)]
		}
		b := dsu.MakeBlob(rng, "random", size, dsu.Sizes{Min: 64, Avg: 128, Max: 256})
		id := dsu.Sum(b)
		ids = append(ids, id)
		plain[id] = b
		dsu.Must(ls.StoreChunk(desync.NewChunk(b)))
	}
	var absent desync.ChunkID
	rng.Read(absent[:])
	c.Info("ssh session: present, missing, present; served store uncompressed=%v", uncompressed)
	c.LogInfo()
	s, err := sshStore(store, 1)
	if err != nil {
		c.Skip("ssh shim: %v", err)
		return
	}
	defer s.Close()
	seq := []desync.ChunkID{ids[0], absent, ids[1], absent, absent, ids[2], ids[0]}
	for k, id := range seq {
		ch, err := s.GetChunk(id)
		if want, ok := plain[id]; ok {
			if err != nil {
				c.Violation("ssh-present-not-delivered", "request %d on the session: chunk is present but GetChunk failed: %v (sequence: present, missing, present, ...)", k, err)
				return
			}
			if b, _ := ch.Data(); !bytes.Equal(b, want) {
				c.Violation("ssh-data-changed", "request %d delivered other bytes", k)
				return
			}
		} else if _, missing := err.(desync.ChunkMissing); !missing {
			c.Violation("ssh-missing-misreported", "request %d: absent chunk reported as %v", k, err)
			return
		}
	}
	// last request of the session: a chunk whose file in the served store cannot be unpacked (cut short by a crash or a
	// partial copy, garbage, no bytes at all). `desync pull` does not verify what it reads, the damage shows when the
	// server unpacks the chunk to send it: that is a failure of the store, "missing" would make a router or a cache
	// move on as if the store were fine.
	if !uncompressed && rng.Intn(2) == 0 {
		victim := ids[3]
		name := filepath.Join(store, victim.String()[:4], victim.String()+".cacnk")
		raw, _ := os.ReadFile(name)
		how := []string{"cut", "garbage", "empty"}[rng.Intn(3)]
		switch how {
		case "cut":
			raw = raw[:1+rng.Intn(len(raw)-1)]
			if len(raw) > 8 {
				raw = raw[:8]
			}
		case "garbage":
			raw = []byte("this is not a zstd frame")
		case "empty":
			raw = nil
		}
		dsu.WriteFile(name, raw)
		_, gerr := s.GetChunk(victim)
		if gerr == nil {
			c.Violation("failure-reported-as-success:ssh", "a chunk file that cannot be unpacked (%s) was delivered over the session without an error", how)
			return
		}
		if _, missing := gerr.(desync.ChunkMissing); missing {
			c.Violation("failure-reported-as-missing:ssh", "the served store holds a chunk file that cannot be unpacked (%s): the client was told the chunk is missing", how)
			return
		}
		c.Count("ssh_sessions_ending_with_a_damaged_chunk", 1)
	}
	c.Count("ssh_sessions", 1)
	c.NonTrivial("ssh-session|u%v", uncompressed)
	c.Sample(map[string]interface{}{"leg": "ssh-session", "requests": len(seq)})
}

// (d2) a chunk server that has to convert (-u over a compressed store, reads not verified: the default) in front of a
// chunk file that was cut short behind its first compressed block, asked for the chunk by several clients at the same
// time (they share one request and one chunk object inside the server): every answer is a failure, or the chunk.
func damagedConcurrent(c *harness.Ctx) {
	rng := c.Rng
	dir := c.CaseDir()
	store := filepath.Join(dir, "store")
	os.MkdirAll(store, 0755)
	ls, _ := desync.NewLocalStore(store, desync.StoreOptions{})
	data := make([]byte, 300<<10+rng.Intn(200<<10))
	rng.Read(data)
	id := dsu.Sum(data)
	dsu.Must(ls.StoreChunk(desync.NewChunk(data)))
	name := filepath.Join(store, id.String()[:4], id.String()+".cacnk")
	raw, _ := os.ReadFile(name)
	cut := 140<<10 + rng.Intn(len(raw)-(150<<10))
	dsu.WriteFile(name, raw[:cut])
	verifyRead := rng.Intn(4) == 0
	c.Info("damaged-concurrent chunk=%d bytes file cut at %d of %d verify-read=%v", len(data), cut, len(raw), verifyRead)
	c.LogInfo()
	addr, cmd, err := dsu.StartServerCmd(func(addr string) *exec.Cmd {
		a := []string{"chunk-server", "-u", "-s", store, "-l", addr}
		if verifyRead {
			a = append(a, "--skip-verify-read=false")
		}
		cmd := exec.Command(cli, a...)
		cmd.Env = append(os.Environ(), "HOME="+dir)
		return cmd
	})
	if err != nil {
		c.Skip("chunk-server: %v", err)
		return
	}
	defer dsu.StopServerCmd(cmd)
	type ans struct {
		status int
		body   []byte
		err    error
	}
	for round := 0; round < 2; round++ {
		out := make(chan ans, 8)
		for g := 0; g < 6; g++ {
			go func() {
				resp, err := http.Get("http://" + addr + "/" + id.String()[:4] + "/" + id.String())
				if err != nil {
					out <- ans{err: err}
					return
				}
				b, rerr := io.ReadAll(resp.Body)
				resp.Body.Close()
				out <- ans{resp.StatusCode, b, rerr}
			}()
		}
		for g := 0; g < 6; g++ {
			a := <-out
			if a.err == nil && a.status == 200 && !bytes.Equal(a.body, data) {
				c.Violation("failure-reported-as-success:damaged-concurrent", "chunk server (-u, verify-read=%v) over a chunk file cut short (%d of %d bytes), six clients at once: one was answered 200 with %d bytes that are not the chunk (%d bytes)", verifyRead, cut, len(raw), len(a.body), len(data))
				return
			}
			if a.err == nil && a.status == 404 {
				c.Violation("failure-reported-as-missing:damaged-concurrent", "chunk server over a chunk file cut short answered 404")
				return
			}
		}
	}
	c.Count("damaged_chunks_asked_for_concurrently", 1)
	c.NonTrivial("damaged-concurrent|v%v", verifyRead)
}

// (e) HasChunk over the other remote transports: absent is (false, nil) - the router and the cache rely on that -, a
// store that cannot answer is an error, never "not there".
func hasSemantics(c *harness.Ctx) {
	rng := c.Rng
	dir := c.CaseDir()
	store := filepath.Join(dir, "store")
	os.MkdirAll(store, 0755)
	ls, _ := desync.NewLocalStore(store, desync.StoreOptions{})
	b := dsu.MakeBlob(rng, "random", 100+rng.Intn(3000), dsu.Sizes{Min: 64, Avg: 128, Max: 256})
	id := dsu.Sum(b)
	dsu.Must(ls.StoreChunk(desync.NewChunk(b)))
	var absent desync.ChunkID
	rng.Read(absent[:])
	kind := []string{"ssh", "s3", "sftp", "web-server", "damaged-behind-chunk-server"}[rng.Intn(5)]
	c.Info("has-semantics transport=%s", kind)
	c.LogInfo()
	check := func(what string, s desync.Store, wantPresent, wantAbsent string) bool {
		for _, q := range []struct {
			id   desync.ChunkID
			want string
		}{{id, wantPresent}, {absent, wantAbsent}} {
			has, err := s.HasChunk(q.id)
			got := "false"
			switch {
			case err != nil:
				got = "error"
			case has:
				got = "true"
			}
			if got != q.want {
				cls := "has-wrong"
				if q.want == "false" && got == "error" {
					cls = "missing-reported-as-error:has"
				} else if q.want == "error" {
					cls = "failure-reported-as-missing:has"
				}
				c.Violation(cls+":"+kind, "%s: HasChunk returned (%v, %v), expected %s", what, has, err, q.want)
				return false
			}
		}
		return true
	}
	switch kind {
	case "web-server":
		// a plain web server publishing the store directory (Content-Length on HEAD answers, as nginx / Apache / Go's
		// FileServer send it)
		srv := httptest.NewServer(http.FileServer(http.Dir(store)))
		defer srv.Close()
		u, _ := url.Parse(srv.URL + "/")
		s, err := desync.NewRemoteHTTPStore(u, desync.StoreOptions{ErrorRetry: 2, ErrorRetryBaseInterval: time.Millisecond})
		dsu.Must(err)
		if !check("HTTP store on a plain web server", s, "true", "false") {
			return
		}
		if ch, err := s.GetChunk(id); err != nil {
			c.Violation("present-not-delivered:web-server", "GetChunk from a plain web server: %v", err)
			return
		} else if d, _ := ch.Data(); !bytes.Equal(d, b) {
			c.Violation("data-changed:web-server", "GetChunk from a plain web server returned other bytes")
			return
		}
	case "damaged-behind-chunk-server":
		// a chunk server that verifies what it reads, in front of a store holding a damaged chunk: a failure, not "missing"
		other, _ := desync.Compress([]byte("bit rot"))
		os.WriteFile(filepath.Join(store, id.String()[:4], id.String()+".cacnk"), other, 0644)
		addr, cmd, err := dsu.StartServerCmd(func(addr string) *exec.Cmd {
			cmd := exec.Command(cli, "chunk-server", "-s", store, "-l", addr, "--skip-verify-read=false")
			cmd.Env = append(os.Environ(), "HOME="+dir)
			return cmd
		})
		if err != nil {
			c.Skip("chunk-server: %v", err)
			return
		}
		defer dsu.StopServerCmd(cmd)
		resp, err := http.Get("http://" + addr + "/" + id.String()[:4] + "/" + id.String() + ".cacnk")
		if err == nil {
			resp.Body.Close()
			if resp.StatusCode == 404 || resp.StatusCode == 200 {
				c.Violation("failure-reported-as-missing:chunk-server", "verifying chunk-server in front of a store with a damaged chunk answered GET with %d", resp.StatusCode)
				return
			}
		}
		u, _ := url.Parse("http://" + addr + "/")
		s, _ := desync.NewRemoteHTTPStore(u, desync.StoreOptions{ErrorRetry: 0})
		if _, gerr := s.GetChunk(id); gerr == nil {
			c.Violation("failure-reported-as-success:chunk-server", "a damaged chunk was delivered through a verifying chunk-server and a verifying client")
			return
		} else if _, missing := gerr.(desync.ChunkMissing); missing {
			c.Violation("failure-reported-as-missing:chunk-server", "client of a verifying chunk-server in front of a damaged chunk was told: %v", gerr)
			return
		}
	case "ssh":
		s, err := sshStore(store, 1)
		if err != nil {
			c.Skip("ssh shim: %v", err)
			return
		}
		defer s.Close()
		if !check("ssh:// store", s, "true", "false") {
			return
		}
		// and through a router the way the commands build it: the chunk is in the second member only
		os.MkdirAll(filepath.Join(dir, "empty"), 0755)
		empty, err := sshStore(filepath.Join(dir, "empty"), 1)
		if err == nil {
			defer empty.Close()
			r := desync.NewStoreRouter(empty, ls)
			if has, err := r.HasChunk(id); err != nil || !has {
				c.Violation("missing-reported-as-error:has:ssh-router", "router(ssh store lacking the chunk, local store holding it).HasChunk returned (%v, %v)", has, err)
				return
			}
		}
	case "s3":
		f := fakes.NewS3("bucket")
		defer f.Close()
		raw, _ := os.ReadFile(filepath.Join(store, id.String()[:4], id.String()+".cacnk"))
		f.Put("pfx/"+id.String()[:4]+"/"+id.String()+".cacnk", raw)
		s, err := desync.NewS3Store(f.URL("pfx"), fakes.Creds(), fakes.Region, desync.StoreOptions{ErrorRetry: 0}, fakes.Lookup)
		dsu.Must(err)
		if !check("healthy S3 store", s, "true", "false") {
			return
		}
		f.FailHead = 403 // (minio-go retries 5xx by itself for a long time)
		if !check(fmt.Sprintf("S3 store answering HEAD with %d", f.FailHead), s, "error", "error") {
			return
		}
	case "sftp":
		os.Setenv("CASYNC_SSH_PATH", shim)
		os.Setenv("SHIM_SFTP_FAULT", "none@0")
		u, _ := url.Parse("sftp://localhost" + store)
		s, err := desync.NewSFTPStore(u, desync.StoreOptions{N: 1})
		if err != nil {
			c.Skip("sftp shim: %v", err)
			return
		}
		ok := check("healthy SFTP store", s, "true", "false")
		s.Close()
		if !ok {
			return
		}
		os.Setenv("SHIM_SFTP_FAULT", "stat@2") // the first stat is the one of the store directory when connecting
		defer os.Unsetenv("SHIM_SFTP_FAULT")
		s2, err := desync.NewSFTPStore(u, desync.StoreOptions{N: 1})
		if err != nil {
			c.Skip("sftp shim: %v", err)
			return
		}
		defer s2.Close()
		if !check("SFTP store whose server fails every stat", s2, "error", "error") {
			return
		}
	}
	c.Count("has_semantics_cases", 1)
	c.NonTrivial("has-semantics|%s", kind)
	c.Sample(map[string]interface{}{"leg": "has-semantics", "transport": kind})
}

// (d) compressing chunk handler in front of an ssh upstream with one session, concurrent clients
func sshBehindHTTP(c *harness.Ctx) {
	rng := c.Rng
	dir := c.CaseDir()
	store := filepath.Join(dir, "store")
	os.MkdirAll(store, 0755)
	ls, _ := desync.NewLocalStore(store, desync.StoreOptions{})
	var ids []desync.ChunkID
	plain := map[desync.ChunkID][]byte{}
	for k := 0; k < 12; k++ {
		b := dsu.MakeBlob(rng, "random", 200+rng.Intn(60000), dsu.Sizes{Min: 64, Avg: 128, Max: 256})
		id := dsu.Sum(b)
		ids = append(ids, id)
		plain[id] = b
		dsu.Must(ls.StoreChunk(desync.NewChunk(b)))
	}
	c.Info("http handler in front of an ssh upstream, concurrent clients")
	c.LogInfo()
	s, err := sshStore(store, 1)
	if err != nil {
		c.Skip("ssh shim: %v", err)
		return
	}
	defer s.Close()
	srv := httptest.NewServer(desync.NewHTTPHandler(s, false, false, desync.Converters{desync.Compressor{}}, ""))
	defer srv.Close()
	u, _ := url.Parse(srv.URL + "/")
	var bad int32
	var firstErr atomic.Value
	var wg sync.WaitGroup
	for w := 0; w < 8; w++ {
		wg.Add(1)
		seed := rng.Int63()
		go func() {
			defer wg.Done()
			r := rand.New(rand.NewSource(seed))
			cl, _ := desync.NewRemoteHTTPStore(u, desync.StoreOptions{ErrorRetry: 1, ErrorRetryBaseInterval: time.Millisecond})
			for k := 0; k < 40; k++ {
				id := ids[r.Intn(len(ids))]
				ch, err := cl.GetChunk(id)
				if err != nil {
					atomic.AddInt32(&bad, 1)
					firstErr.Store(err.Error())
					continue
				}
				if b, derr := ch.Data(); derr != nil || !bytes.Equal(b, plain[id]) {
					atomic.AddInt32(&bad, 1)
					firstErr.Store("wrong bytes")
				}
			}
		}()
	}
	wg.Wait()
	if bad > 0 {
		c.Violation("ssh-behind-http", "%d of 320 requests for present chunks through a chunk handler in front of an ssh:// upstream failed or delivered other bytes (first: %v)", bad, firstErr.Load())
		return
	}
	c.Count("ssh_behind_http_requests", 320)
	c.NonTrivial("ssh-behind-http")
	c.Sample(map[string]interface{}{"leg": "ssh-behind-http", "clients": 8, "requests": 320})
}

func mustURL(s string) *url.URL {
	u, err := url.Parse(s)
	dsu.Must(err)
	return u
}
