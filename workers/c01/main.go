// C01: extract reproduces the indexed blob byte-for-byte.
package main

import (
	"bytes"
	"context"
	"fmt"
	"math/rand"
	"os"
	"os/exec"
	"path/filepath"
	"strings"
	"sync"
	"sync/atomic"
	"syscall"
	"time"

	"github.com/folbricht/desync"

	"verif/dsu"
	"verif/harness"
)

var cli string

func main() {
	harness.Main(&harness.Config{
		Prop:  "C01",
		Level: "exploration",
		Rule: "PRNG case list over blob class x chunk sizes (below and above the 4096-byte block) x 0-3 seeds of kinds {identical, older, shuffled, empty, stale(bitflip/truncated/extended/missing), duplicate, self-alias, other-sizes} " +
			"x prior target {absent, empty, garbage, longer, shorter, older, complete, partial} x invalid-seed action x N in {1,2,3,8,16} x {no clone, emulated FICLONERANGE} x schedule perturbation; library (AssembleFile, -race) and CLI (desync extract) legs. " +
			"Oracle: bytes.Equal(output, blob) on nil/exit 0; success required when store complete and seeds consistent or skip/regenerate chosen; panic/deadlock = crash of the child. " +
			"Non-trivial: success that used a seed segment, in-place chunk, self-seed copy or clone; distinct by (blob class, sizes, seed kinds, prior, action, N, clone)",
		Assumptions: []string{
			"FICLONERANGE is emulated in process following the kernel's generic_remap checks (no reflink filesystem in the sandbox); the kernel itself is not observed",
			"index under test is built from the independent reference chunker, so desync's own chunker is not trusted here",
		},
		Cases:               cases,
		Run:                 run,
		ParentSetup:         parentSetup,
		Setup:               func(c *harness.Ctx) { cli = os.Getenv("VERIF_CLI") },
		MinNonTrivial:       20,
		RaceIsViolation:     true,
		DeadlockIsViolation: true,
		CaseTimeout:         150 * time.Second,
	})
}

func cases(tier string) int {
	if tier == "thorough" {
		return 40000
	}
	return 6000
}

func parentSetup(tier string, seed int64, work string) ([]string, error) {
	p, err := harness.BuildCLI(work, "desync-verif", "verif", false)
	if err != nil {
		return nil, err
	}
	sh, err := harness.BuildHelper(work, "shim", "./helpers/shim", "verif")
	if err != nil {
		return nil, err
	}
	return []string{"VERIF_CLI=" + p, "VERIF_SHIM=" + sh}, nil
}

var sizeChoices = []dsu.Sizes{{64, 128, 256}, {64, 128, 256}, {1024, 2048, 4096}, {1024, 2048, 4096}, {2048, 6144, 12288}, {2048, 6144, 12288}, {512, 3000, 9000}, {16384, 65536, 262144}}

type seedSpec struct {
	kind  string
	file  string
	index desync.Index
	stale bool // data no longer matches the index
	alias bool // seed file is the target
	miss  bool // seed file does not exist
}

func edit(rng *rand.Rand, b []byte, sz dsu.Sizes) []byte {
	out := append([]byte(nil), b...)
	for k := 0; k < 1+rng.Intn(4); k++ {
		if len(out) == 0 {
			out = append(out, byte(rng.Intn(256)))
			continue
		}
		at := rng.Intn(len(out))
		l := rng.Intn(int(sz.Max)*2 + 1)
		switch rng.Intn(3) {
		case 0: // overwrite
			for j := at; j < at+l && j < len(out); j++ {
				out[j] = byte(rng.Intn(256))
			}
		case 1: // insert
			ins := make([]byte, l)
			rng.Read(ins)
			out = append(out[:at], append(ins, out[at:]...)...)
		case 2: // delete
			end := at + l
			if end > len(out) {
				end = len(out)
			}
			out = append(out[:at], out[end:]...)
		}
	}
	return out
}

func makeBlob(rng *rand.Rand, sz dsu.Sizes) (string, []byte) {
	maxLen := int(sz.Max) * 60
	if maxLen > 3<<20 {
		maxLen = 3 << 20
	}
	switch rng.Intn(12) {
	case 0:
		return "empty", nil
	case 1:
		return "tiny", dsu.MakeBlob(rng, "random", 1+rng.Intn(int(sz.Min)), sz)
	case 2:
		return "zeros", dsu.MakeBlob(rng, "zeros", rng.Intn(maxLen), sz)
	case 3, 4:
		return "repetitive", dsu.MakeBlob(rng, "repetitive", rng.Intn(maxLen), sz)
	case 5, 6:
		return "zero-runs", dsu.MakeBlob(rng, "zero-runs", rng.Intn(maxLen), sz)
	case 7:
		return "mixed", dsu.MakeBlob(rng, "mixed", rng.Intn(maxLen), sz)
	case 8:
		// exactly block sized pieces: repeated 4096-aligned content
		b := dsu.MakeBlob(rng, "repetitive", 4096*(1+rng.Intn(40)), sz)
		return "repetitive-blockaligned", b
	default:
		return "random", dsu.MakeBlob(rng, "random", rng.Intn(maxLen), sz)
	}
}

func run(c *harness.Ctx, i int) {
	rng := c.Rng
	desync.Digest = desync.SHA512256{}
	sz := sizeChoices[rng.Intn(len(sizeChoices))]
	class, blob := makeBlob(rng, sz)
	idx := dsu.RefIndex(blob, sz)
	dir := c.CaseDir()
	target := filepath.Join(dir, "out")
	n := []int{1, 2, 3, 8, 16}[rng.Intn(5)]
	action := rng.Intn(3)
	actionName := []string{"bailout", "skip", "regenerate"}[action]
	clone := rng.Intn(2) == 1
	useCLI := i%40 == 7
	if useCLI {
		clone = false
	}
	ymode := rng.Intn(3)

	// prior content of the target
	priorKinds := []string{"absent", "absent", "empty", "garbage", "longer", "shorter", "older", "complete", "partial"}
	prior := priorKinds[rng.Intn(len(priorKinds))]
	var priorData []byte
	switch prior {
	case "absent":
	case "empty":
		priorData = []byte{}
	case "garbage":
		priorData = make([]byte, len(blob))
		rng.Read(priorData)
	case "longer":
		priorData = append(append([]byte(nil), blob...), dsu.MakeBlob(rng, "random", 1+rng.Intn(int(sz.Max)*3), sz)...)
		if rng.Intn(2) == 0 {
			rng.Read(priorData[:len(priorData)/2])
		}
	case "shorter":
		if len(blob) > 0 {
			priorData = append([]byte(nil), blob[:rng.Intn(len(blob))]...)
		} else {
			priorData = []byte{}
		}
	case "older":
		priorData = edit(rng, blob, sz)
	case "complete":
		priorData = append([]byte(nil), blob...)
	case "partial":
		priorData = append([]byte(nil), blob...)
		for _, ch := range idx.Chunks {
			if rng.Intn(3) == 0 {
				for j := ch.Start; j < ch.Start+ch.Size; j++ {
					priorData[j] = 0
				}
			}
		}
	}
	if priorData != nil {
		dsu.WriteFile(target, priorData)
	}

	// seeds
	nseeds := rng.Intn(4)
	var specs []seedSpec
	kinds := []string{"identical", "older", "shuffled", "empty", "stale-bitflip", "stale-truncated", "stale-extended", "stale-missing", "duplicate", "self", "othersizes", "older", "identical", "stale-oversize"}
	for s := 0; s < nseeds; s++ {
		kind := kinds[rng.Intn(len(kinds))]
		file := filepath.Join(dir, fmt.Sprintf("seed%d", s))
		var sp seedSpec
		sp.kind = kind
		sp.file = file
		switch kind {
		case "identical":
			dsu.WriteFile(file, blob)
			sp.index = idx
		case "older":
			sb := edit(rng, blob, sz)
			dsu.WriteFile(file, sb)
			sp.index = dsu.RefIndex(sb, sz)
		case "shuffled":
			perm := rng.Perm(len(idx.Chunks))
			var sb []byte
			si := desync.Index{Index: idx.Index}
			for _, p := range perm {
				ch := idx.Chunks[p]
				si.Chunks = append(si.Chunks, desync.IndexChunk{ID: ch.ID, Start: uint64(len(sb)), Size: ch.Size})
				sb = append(sb, blob[ch.Start:ch.Start+ch.Size]...)
			}
			dsu.WriteFile(file, sb)
			sp.index = si
		case "stale-oversize":
			// the seed's index (read from a .caibx file: input like any other) is damaged: one entry carries the ID of
			// a chunk and a size far beyond the file, its header allows that size
			dsu.WriteFile(file, blob)
			si := desync.Index{Index: idx.Index, Chunks: append([]desync.IndexChunk(nil), idx.Chunks...)}
			if len(si.Chunks) > 0 {
				k := rng.Intn(len(si.Chunks))
				si.Chunks[k].Size = []uint64{1 << 62, 1 << 50, uint64(len(blob)) + 1 + uint64(rng.Intn(4096))}[rng.Intn(3)]
				si.Index.ChunkSizeMax = 1 << 62
				sp.stale = true
			}
			sp.index = si
		case "empty":
			dsu.WriteFile(file, nil)
			sp.index = desync.Index{Index: idx.Index}
		case "stale-bitflip", "stale-truncated", "stale-extended", "stale-missing":
			sb := append([]byte(nil), blob...)
			if rng.Intn(2) == 0 {
				sb = edit(rng, blob, sz)
			}
			sp.index = dsu.RefIndex(sb, sz)
			switch kind {
			case "stale-bitflip":
				if len(sb) > 0 {
					for k := 0; k < 1+rng.Intn(3); k++ {
						sb[rng.Intn(len(sb))] ^= 1 << uint(rng.Intn(8))
					}
					sp.stale = true
				}
				dsu.WriteFile(file, sb)
			case "stale-truncated":
				if len(sb) > 0 {
					sb = sb[:rng.Intn(len(sb))]
					sp.stale = true
				}
				dsu.WriteFile(file, sb)
			case "stale-extended":
				// extra data at the end does not invalidate any indexed chunk; prepend instead half of the time
				if rng.Intn(2) == 0 && len(sb) > 0 {
					sb = append([]byte{0x55}, sb...)
					sp.stale = true
				} else {
					sb = append(sb, 1, 2, 3)
				}
				dsu.WriteFile(file, sb)
			case "stale-missing":
				sp.stale = true
				sp.miss = true
			}
		case "duplicate":
			if len(specs) > 0 {
				sp = specs[rng.Intn(len(specs))]
				sp.kind = "duplicate(" + sp.kind + ")"
			} else {
				dsu.WriteFile(file, blob)
				sp.index = idx
				sp.kind = "identical"
			}
		case "self":
			if priorData == nil {
				dsu.WriteFile(file, blob)
				sp.index = idx
				sp.kind = "identical"
			} else {
				sp.file = target
				sp.index = dsu.RefIndex(priorData, sz)
				sp.alias = true
			}
		case "othersizes":
			o := sizeChoices[rng.Intn(len(sizeChoices))]
			dsu.WriteFile(file, blob)
			sp.index = dsu.RefIndex(blob, o)
		}
		if kind == "stale-oversize" && action == 2 {
			// (regenerating chunks the seed file again with the sizes of the seed index's header, whose maximum had to be
			// declared as large as the damaged entry for the file to be an index at all; desync keeps a zero chunk of
			// the declared maximum in memory, see DESIGN section 6, observations: not this property's business)
			action, actionName = 1, "skip"
		}
		specs = append(specs, sp)
	}
	var kindsUsed []string
	anyStale, anyAlias, anyMissing := false, false, false
	for _, sp := range specs {
		kindsUsed = append(kindsUsed, sp.kind)
		anyStale = anyStale || sp.stale
		anyAlias = anyAlias || sp.alias
		anyMissing = anyMissing || sp.miss
	}
	logInfo := func(hostile string) {
		c.Info("class=%s len=%d sizes=%s chunks=%d seeds=[%s] prior=%s action=%s n=%d clone=%v ymode=%d cli=%v hostile=%q",
			class, len(blob), sz, len(idx.Chunks), strings.Join(kindsUsed, ","), prior, actionName, n, clone, ymode, useCLI, hostile)
		c.LogInfo()
	}
	if c.Replay {
		fmt.Fprintln(os.Stderr, "case", i, c.Rng != nil)
	}

	// store
	storeDir := filepath.Join(dir, "store")
	ls, err := dsu.FillLocalStore(storeDir, blob, idx, false)
	dsu.Must(err)
	fs := &dsu.FaultStore{S: ls}
	// hostile environment (a quarter of the library cases): transient store errors (the k-th request fails, or every
	// request fails the first time it is made for a chunk) and seed files that change under the extraction after they
	// were validated. Then success is not demanded any more - but a reported success still means output == blob.
	hostile := ""
	var midRun func()
	midRunAtFeeder := false
	var cancelInValidation int64
	cancelAtJob := int64(0)
	manySegments := false
	for _, kd := range kindsUsed {
		if kd == "shuffled" && len(idx.Chunks) >= 24 {
			manySegments = true // every chunk of such a seed is a segment of its own: validation takes many jobs
		}
	}
	if !useCLI && manySegments && rng.Intn(2) == 0 {
		// the caller cancels while the seeds are validated, which takes a while here: the call has to return
		cancelInValidation = int64(1 + rng.Intn(4))
		cancelAtJob = int64(len(idx.Chunks) + 1)
		hostile = "cancelled-in-validation"
		ymode = dsu.YieldTraced
	} else if !useCLI && rng.Intn(4) == 0 {
		switch rng.Intn(5) {
		case 4:
			// the caller cancels while a worker holds its k-th job (often the last one): whatever is reported then,
			// success still means output == blob
			cancelAtJob = int64(1 + rng.Intn(len(idx.Chunks)+1))
			if rng.Intn(2) == 0 {
				cancelAtJob = int64(len(idx.Chunks)) // at or behind the last segment (seeds merge chunks into fewer jobs)
			}
			hostile = "cancelled-at-a-job"
			if rng.Intn(3) == 0 {
				// ... or earlier, while the seeds are still being validated
				cancelInValidation = int64(1 + rng.Intn(4))
				hostile = "cancelled-in-validation"
			}
		case 3:
			// a store that is not verified on reading (skip-verify) holding an object of the wrong length under one ID:
			// the length recorded in the index is then the only thing between that object and the output
			if len(idx.Chunks) == 0 {
				break
			}
			ch := idx.Chunks[rng.Intn(len(idx.Chunks))]
			data := append([]byte(nil), blob[ch.Start:ch.Start+ch.Size]...)
			if rng.Intn(2) == 0 && len(data) > 1 {
				data = data[:1+rng.Intn(len(data)-1)]
			} else {
				data = append(data, []byte("trailing garbage")...)
			}
			z, _ := desync.Compress(data)
			sid := ch.ID.String()
			dsu.WriteFile(filepath.Join(storeDir, sid[:4], sid+".cacnk"), z)
			sv, err := desync.NewLocalStore(storeDir, desync.StoreOptions{SkipVerify: true})
			dsu.Must(err)
			fs.S = sv
			hostile = "unverified-store-wrong-length"
		case 0:
			k := int64(1 + rng.Intn(4))
			fs.Before = func(op string, n int64, id desync.ChunkID) error {
				if op == "get" && n == k {
					return dsu.ErrInjected{Msg: fmt.Sprintf("get#%d", n)}
				}
				return nil
			}
			hostile = "store-fails-once"
		case 1:
			var mu sync.Mutex
			seen := map[desync.ChunkID]bool{}
			salt := byte(rng.Intn(256))
			fs.Before = func(op string, n int64, id desync.ChunkID) error {
				mu.Lock()
				defer mu.Unlock()
				if op == "get" && !seen[id] && (id[0]^salt)%2 == 0 {
					seen[id] = true
					return dsu.ErrInjected{Msg: fmt.Sprintf("first get of %x", id[:4])}
				}
				return nil
			}
			hostile = "store-first-request-fails"
		case 2:
			hostile = "seed-changes-under-extraction"
		}
		if hostile == "seed-changes-under-extraction" || (hostile != "" && rng.Intn(2) == 0) {
			// after validation, a stretch of several chunks in every seed file is overwritten (not the target, should it
			// be its own seed: writing into the output from outside proves nothing)
			var files []string
			for _, sp := range specs {
				if !sp.miss && !sp.alias {
					files = append(files, sp.file)
				}
			}
			at, l := rng.Intn(len(blob)+1), int(sz.Max)*(2+rng.Intn(4))
			if len(files) > 0 && rng.Intn(3) == 0 {
				// ... or every seed file is cut short (to nothing, to a chunk boundary of the blob, anywhere): a copy from
				// it then delivers fewer bytes than planned, possibly none at all
				cut := int64(0)
				switch rng.Intn(3) {
				case 1:
					if len(idx.Chunks) > 0 {
						cut = int64(idx.Chunks[rng.Intn(len(idx.Chunks))].Start)
					}
				case 2:
					cut = int64(rng.Intn(len(blob) + 1))
				}
				hostile += "+seed-cut-short"
				midRunAtFeeder = rng.Intn(2) == 0
				midRun = func() {
					for _, f := range files {
						if st, err := os.Stat(f); err == nil && st.Size() > cut {
							os.Truncate(f, cut)
						}
					}
				}
			} else if len(files) > 0 {
				hostile += "+seed-overwritten"
				// half of the time the overwritten stretch starts at a chunk of zeros, if the blob has one (what is
				// written there to repair it is nothing but zeros), and the seeds change before the first job
				var zeroStarts []int
				for _, ch := range idx.Chunks {
					if z := blob[ch.Start : ch.Start+ch.Size]; bytes.Equal(z, make([]byte, len(z))) {
						zeroStarts = append(zeroStarts, int(ch.Start))
					}
				}
				if len(zeroStarts) > 0 && rng.Intn(2) == 0 {
					at = zeroStarts[rng.Intn(len(zeroStarts))]
					hostile += "-at-zeros"
				}
				midRunAtFeeder = rng.Intn(2) == 0
				midRun = func() {
					for _, f := range files {
						if fh, err := os.OpenFile(f, os.O_WRONLY, 0); err == nil {
							junk := make([]byte, l)
							for j := range junk {
								junk[j] = 0xA5
							}
							fh.WriteAt(junk, int64(at))
							fh.Close()
						}
					}
				}
			}
		}
		ymode = dsu.YieldTraced
	}

	// success is required when the store is complete and the seeds are consistent, or skip/regenerate was chosen.
	// Exemptions (success not demanded, only "no wrong success"): a seed that aliases the target (it changes while
	// being read).
	logInfo(hostile)
	mustSucceed := (!anyStale || action != 0) && !anyAlias && hostile == ""

	sigKinds := strings.Join(kindsUsed, ",")
	sigKindsExtra := ""
	if useCLI {
		runCLI(c, dir, target, blob, idx, specs, storeDir, action, n, prior, mustSucceed, class, sz, sigKinds)
		return
	}

	var emu *dsu.CloneEmu
	if clone {
		emu = &dsu.CloneEmu{BlockSize: 4096}
		desync.VerifSetClone(emu)
	} else {
		desync.VerifSetClone(nil)
	}
	defer desync.VerifSetClone(nil)

	var seeds []desync.Seed
	objs := map[string]desync.Seed{}
	for _, sp := range specs {
		key := sp.file + "|" + fmt.Sprint(len(sp.index.Chunks))
		if strings.HasPrefix(sp.kind, "duplicate") && rng.Intn(2) == 0 {
			if o, ok := objs[key]; ok {
				seeds = append(seeds, o) // the very same seed object twice
				continue
			}
		}
		sd, err := desync.NewIndexSeed(target, sp.file, sp.index)
		dsu.Must(err)
		objs[key] = sd
		seeds = append(seeds, sd)
	}

	y := dsu.NewYielder(ymode, uint64(rng.Int63()))
	actx, acancel := context.WithCancel(context.Background())
	defer acancel()
	if cancelAtJob > 0 {
		var jobs, vhits int64
		y.OnHit = func(point string, hn int64) {
			// at the k-th job, and (the number of jobs is not known beforehand) at every job a little later on
			if point == "assemble.worker.job" {
				if j := atomic.AddInt64(&jobs, 1); j >= cancelAtJob || (j >= cancelAtJob/2 && j%3 == 0) {
					acancel()
				}
			}
			if cancelInValidation > 0 && (point == "validate.feeder" || point == "validate.worker.job") {
				if atomic.AddInt64(&vhits, 1) >= cancelInValidation {
					acancel()
				}
			}
		}
	}
	if midRun != nil {
		var once sync.Once
		fireAt := int64(1 + rng.Intn(3))
		y.OnHit = func(point string, hn int64) {
			if (point == "assemble.worker.job" && hn >= fireAt) || (midRunAtFeeder && point == "assemble.feeder") {
				once.Do(midRun)
			}
		}
	}
	if hostile != "" {
		c.Count("hostile_environment_cases", 1)
		sigKindsExtra = "|" + hostile
	}
	y.Install()
	stats, err := desync.AssembleFile(actx, target, idx, fs, seeds, desync.AssembleOptions{N: n, InvalidSeedAction: desync.InvalidSeedAction(action)})
	y.Remove()

	if err != nil {
		c.Count("errors_returned", 1)
		if mustSucceed {
			c.Violation("must-succeed", "AssembleFile failed although the store is complete and seeds are consistent or %s was chosen: %v", actionName, err)
		}
		return
	}
	got, rerr := os.ReadFile(target)
	dsu.Must(rerr)
	if len(got) != len(blob) {
		c.Violation("wrong-length", "success, but output has %d bytes, blob has %d (clone=%v)", len(got), len(blob), clone)
		return
	}
	if !bytes.Equal(got, blob) {
		d := 0
		for d < len(got) && got[d] == blob[d] {
			d++
		}
		c.Violation("wrong-bytes", "success, but output differs from the blob first at offset %d of %d (clone=%v stats=%+v)", d, len(blob), clone, *stats)
		return
	}
	c.Count("successes", 1)
	c.Count("store_gets", fs.Gets())
	if emu != nil {
		ok, failed := emu.NumCalls()
		c.Count("clone_calls_ok", int64(ok))
		c.Count("clone_calls_einval", int64(failed))
	}
	if ymode == dsu.YieldTraced {
		sig, total := y.Signature()
		c.Distinct("hook_order_signatures", fmt.Sprintf("%x", sig))
		c.Count("hook_hits", total)
	}
	c.Count("chunks_from_seeds", int64(stats.ChunksFromSeeds))
	c.Count("chunks_in_place", int64(stats.ChunksInPlace))
	c.Count("bytes_cloned", int64(stats.BytesCloned))
	if stats.ChunksFromSeeds > 0 || stats.ChunksInPlace > 0 || stats.BytesCopied > 0 || stats.BytesCloned > 0 {
		c.NonTrivial("lib|%s|%s|%s%s|%s|%s|n%d|clone%v", class, sz, sigKinds, sigKindsExtra, prior, actionName, n, clone)
	}
	c.Sample(map[string]interface{}{"blob": class, "len": len(blob), "sizes": sz.String(), "seeds": kindsUsed, "prior": prior, "action": actionName, "n": n, "clone": clone, "yield": ymode,
		"stats": stats})
}

// hangsSeen counts commands of this child process that did not return: after two of them the ssh variant is left out
// (every such case costs a minute, and the finding is made)
var hangsSeen int

func runCLI(c *harness.Ctx, dir, target string, blob []byte, idx desync.Index, specs []seedSpec, storeDir string, action, n int, prior string, mustSucceed bool, class string, sz dsu.Sizes, sigKinds string) {
	idxFile := filepath.Join(dir, "target.caibx")
	dsu.Must(dsu.WriteIndex(idxFile, idx))
	args := []string{"extract", "-s", storeDir, "-n", fmt.Sprint(n), "--print-stats"}
	// several stores: in front of the complete one an ssh:// store (casync protocol, `desync pull` behind the stand-in
	// for ssh) that holds only some of the chunks - asking it for what it lacks and moving on is a router's daily work
	multi := os.Getenv("VERIF_SHIM") != "" && c.Rng.Intn(3) == 0 && hangsSeen < 2
	if multi {
		part := filepath.Join(dir, "partial-store")
		os.MkdirAll(part, 0755)
		keepEvery := 2 + c.Rng.Intn(3)
		k := 0
		filepath.Walk(storeDir, func(p string, info os.FileInfo, err error) error {
			if err == nil && !info.IsDir() {
				if k++; k%keepEvery == 0 {
					rel, _ := filepath.Rel(storeDir, p)
					b, _ := os.ReadFile(p)
					dsu.WriteFile(filepath.Join(part, rel), b)
				}
			}
			return nil
		})
		args = []string{"extract", "-s", "ssh://localhost" + part, "-s", storeDir, "-n", fmt.Sprint(n), "--print-stats"}
		sigKinds += "|ssh+local"
	}
	// seeds are named one by one, or found in a seed directory (every X.caibx with an X next to it) - which is also
	// where the index to extract and its output live, spelled differently from the directory (relative / absolute /
	// with a detour): that one pair is not a seed, whatever the output path holds
	seedDir := c.Rng.Intn(2) == 0
	for _, sp := range specs {
		if sp.alias || sp.miss {
			seedDir = false
		}
	}
	runDir := ""
	if seedDir {
		sd := filepath.Join(dir, "seeds")
		os.MkdirAll(sd, 0755)
		for k, sp := range specs {
			b, err := os.ReadFile(sp.file)
			dsu.Must(err)
			dsu.WriteFile(filepath.Join(sd, fmt.Sprintf("seed%d", k)), b)
			dsu.Must(dsu.WriteIndex(filepath.Join(sd, fmt.Sprintf("seed%d.caibx", k)), sp.index))
		}
		newTarget := filepath.Join(sd, "img")
		if _, err := os.Lstat(target); err == nil {
			dsu.Must(os.Rename(target, newTarget))
		}
		target = newTarget
		dsu.Must(os.Rename(idxFile, newTarget+".caibx"))
		idxFile = newTarget + ".caibx"
		runDir = dir
		switch c.Rng.Intn(4) {
		case 0: // directory absolute, index and output relative
			args = append(args, "--seed-dir", sd)
			idxFile, target = "seeds/img.caibx", "seeds/img"
		case 1: // the other way round
			args = append(args, "--seed-dir", "seeds")
		case 2: // a detour in one of them
			args = append(args, "--seed-dir", filepath.Join(dir, "seeds")+"/../seeds")
		case 3: // both spelled alike
			args = append(args, "--seed-dir", sd)
		}
		sigKinds += "|seed-dir"
	} else {
		for k, sp := range specs {
			sidx := filepath.Join(dir, fmt.Sprintf("seedidx%d.caibx", k))
			dsu.Must(dsu.WriteIndex(sidx, sp.index))
			args = append(args, "--seed", sidx+":"+sp.file)
		}
	}
	switch action {
	case 1:
		args = append(args, "--skip-invalid-seeds")
	case 2:
		args = append(args, "--regenerate-invalid-seeds")
	}
	inPlace := c.Rng.Intn(2) == 0
	if inPlace {
		args = append(args, "-k")
	}
	args = append(args, idxFile, target)
	cmd := exec.Command(cli, args...)
	cmd.Env = append(os.Environ(), "HOME="+dir)
	cmd.Dir = runDir
	if runDir != "" && !filepath.IsAbs(target) {
		target = filepath.Join(runDir, target)
	}
	if multi {
		cmd.Env = append(cmd.Env, "CASYNC_SSH_PATH="+os.Getenv("VERIF_SHIM"), "CASYNC_REMOTE_PATH="+cli)
	}
	var stdout, stderr bytes.Buffer
	cmd.Stdout = &stdout
	cmd.Stderr = &stderr
	err := cmd.Start()
	if err == nil {
		done := make(chan error, 1)
		go func() { done <- cmd.Wait() }()
		select {
		case err = <-done:
		case <-time.After(60 * time.Second):
			// a command that takes a fraction of a second has not returned: look at what its goroutines are doing
			cmd.Process.Signal(syscall.SIGQUIT)
			err = <-done
			hangsSeen++
			if harness.DumpIsStuckWaitingForChildren(stderr.String()) {
				c.Violation("hang:cli", "desync %v did not return; its goroutine dump shows every goroutine waiting for a channel, a lock or its own idle helper processes:\n%s", args, stderr.String())
			} else {
				c.Inconclusive("desync %v did not return within 60 s, goroutine dump not conclusive:\n%s", args, stderr.String())
			}
			return
		}
	}
	c.Count("cli_cases", 1)
	if err != nil {
		if strings.Contains(stderr.String(), "panic:") || strings.Contains(stderr.String(), "fatal error:") {
			c.Violation("cli-crash", "desync %v: %v\n%s", args, err, stderr.String())
			return
		}
		if mustSucceed {
			c.Violation("must-succeed", "desync %v failed: %v\n%s", args, err, stderr.String())
		}
		return
	}
	got, rerr := os.ReadFile(target)
	if rerr != nil {
		c.Violation("cli-no-output", "exit 0 but %v", rerr)
		return
	}
	if !bytes.Equal(got, blob) {
		c.Violation("wrong-bytes", "desync %v exit 0 but output (%d bytes) differs from the blob (%d bytes)", args, len(got), len(blob))
		return
	}
	c.Count("successes", 1)
	if strings.Contains(stdout.String(), `"chunks-from-seeds": 0`) && strings.Contains(stdout.String(), `"chunks-in-place": 0`) {
		return
	}
	c.NonTrivial("cli|%s|%s|%s|%s|a%d|n%d|k%v", class, sz, sigKinds, prior, action, n, inPlace)
}
