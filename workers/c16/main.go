// C16: prune and verify remove exactly what they should.
package main

import (
	"bytes"
	"context"
	"fmt"
	"math/rand"
	"net/url"
	"os"
	"os/exec"
	"path/filepath"
	"regexp"
	"sort"
	"strings"
	"sync"
	"syscall"
	"time"

	"github.com/folbricht/desync"
	"github.com/klauspost/compress/zstd"

	"verif/dsu"
	"verif/fakes"
	"verif/harness"
)

var cli, shim string
var zenc, _ = zstd.NewWriter(nil)

func main() {
	harness.Main(&harness.Config{
		Prop:  "C16",
		Level: "exploration",
		Rule: "Generated store contents: chunks that are referenced / unreferenced / invalid, in the store's own format and in the other format (also both formats of one ID), junk files in the base and in prefix directories, abandoned .tmp-cacnk* files, chunk-named files in wrong directories (valid and damaged, also duplicating a canonical ID), nested junk directories; " +
			"reference sets {empty, all, subsets, IDs not in the store}; backends {local (library and `desync prune` / `desync verify`), S3 fake, SFTP shim} x {compressed, uncompressed}; verify with n in {1,4,16}, with and without repair. " +
			"Oracle: expected final object set computed from the statement vs. a listing with content hashes (prune: referenced, other-format and non-chunk objects untouched; unreferenced own-format chunks and temp files gone on success. verify: reported IDs == exactly the invalid own-format chunks in canonical place, repair removes exactly those). " +
			"Non-trivial: store holding >=1 object of at least 4 of the categories and a prune/verify that had something to remove or report; distinct by (operation, backend, format, reference-set kind, categories present)",
		Assumptions:   []string{"S3 and SFTP are loopback fakes/shims driving the real store code; SFTP stores are opened with N=2 (with N=1 SFTPStore.Prune deadlocks on its own connection pool, noted in DESIGN.md)", "whether misplaced chunk-named files survive is not asserted, only that canonical objects are not harmed because of them"},
		Cases:         cases,
		Run:           run,
		ParentSetup:   parentSetup,
		Setup:         func(c *harness.Ctx) { cli = os.Getenv("VERIF_CLI"); shim = os.Getenv("VERIF_SHIM") },
		MinNonTrivial: 20,
		CaseTimeout:   120 * time.Second,
	})
}

func cases(tier string) int {
	if tier == "thorough" {
		return 60000
	}
	return 3000
}

func parentSetup(tier string, seed int64, work string) ([]string, error) {
	p, err := harness.BuildCLI(work, "desync-verif", "verif", false)
	if err != nil {
		return nil, err
	}
	sh, err := harness.BuildHelper(work, "shim", "./helpers/shim", "verif")
	if err != nil {
		return nil, err
	}
	return []string{"VERIF_CLI=" + p, "VERIF_SHIM=" + sh}, nil
}

type object struct {
	key      string // relative path / S3 key
	data     []byte
	category string
	id       desync.ChunkID
	ownFmt   bool // canonical chunk object in the store's own format
	valid    bool
}

func objKey(id desync.ChunkID, compressed bool) string {
	s := id.String()
	if compressed {
		return s[:4] + "/" + s + ".cacnk"
	}
	return s[:4] + "/" + s
}

func form(b []byte, compressed bool) []byte {
	if compressed {
		return zenc.EncodeAll(b, nil)
	}
	return append([]byte(nil), b...)
}

var zeroChunkLens = []int{256, 4096, 65536, 262144}

func genStore(rng *rand.Rand, uncompressed bool, local bool) (objs []object, ids []desync.ChunkID) {
	n := 3 + rng.Intn(10)
	for k := 0; k < n; k++ {
		b := dsu.MakeBlob(rng, "random", 50+rng.Intn(1500), dsu.Sizes{Min: 64, Avg: 128, Max: 256})
		id := dsu.Sum(b)
		ids = append(ids, id)
		kind := rng.Intn(10)
		switch {
		case kind < 5: // own format, valid
			objs = append(objs, object{key: objKey(id, !uncompressed), data: form(b, !uncompressed), category: "own-valid", id: id, ownFmt: true, valid: true})
		case kind < 6: // own format, invalid content
			bad := form(b, !uncompressed)
			bad[len(bad)/2] ^= 0x10
			if rng.Intn(2) == 0 {
				bad = form([]byte("other content"), !uncompressed)
			}
			objs = append(objs, object{key: objKey(id, !uncompressed), data: bad, category: "own-invalid", id: id, ownFmt: true})
		case kind < 8: // other format
			d := form(b, uncompressed)
			valid := true
			if rng.Intn(3) == 0 {
				d[len(d)/2] ^= 1
				valid = false
			}
			objs = append(objs, object{key: objKey(id, uncompressed), data: d, category: "other-format", id: id, valid: valid})
		default: // both formats of the same id
			objs = append(objs, object{key: objKey(id, !uncompressed), data: form(b, !uncompressed), category: "own-valid", id: id, ownFmt: true, valid: true})
			objs = append(objs, object{key: objKey(id, uncompressed), data: form(b, uncompressed), category: "other-format", id: id, valid: true})
		}
	}
	if rng.Intn(6) == 0 {
		// the chunk of no bytes at all (indexes can carry empty chunks): its content matches its ID like any other's
		id := dsu.Sum(nil)
		ids = append(ids, id)
		objs = append(objs, object{key: objKey(id, !uncompressed), data: form(nil, !uncompressed), category: "own-valid", id: id, ownFmt: true, valid: true})
	}
	if rng.Intn(3) == 0 {
		// a run of zeros of exactly the maximum chunk size (sparse images are full of them): readers make that chunk up
		// in memory, it is a referenced chunk of the store like any other all the same
		b := make([]byte, zeroChunkLens[rng.Intn(len(zeroChunkLens))])
		id := dsu.Sum(b)
		ids = append(ids, id)
		objs = append(objs, object{key: objKey(id, !uncompressed), data: form(b, !uncompressed), category: "own-valid", id: id, ownFmt: true, valid: true})
	}
	// junk
	pick := func() *desync.ChunkID { id := ids[rng.Intn(len(ids))]; return &id }
	if rng.Intn(2) == 0 {
		objs = append(objs, object{key: "README.txt", data: []byte("hello"), category: "junk"})
	}
	if rng.Intn(2) == 0 {
		s := pick().String()
		objs = append(objs, object{key: s[:4] + "/NOTES.txt", data: []byte("notes"), category: "junk"})
	}
	if rng.Intn(2) == 0 {
		objs = append(objs, object{key: "zzzz/deep/er/file.cacnk", data: []byte("not a chunk"), category: "junk"})
	}
	if rng.Intn(2) == 0 {
		s := pick().String()
		objs = append(objs, object{key: s[:4] + "/" + s[:20] + ".cacnk", data: []byte("short name"), category: "junk"})
	}
	if local && rng.Intn(2) == 0 {
		s := pick().String()
		objs = append(objs, object{key: s[:4] + "/.tmp-cacnk" + fmt.Sprint(rng.Intn(100000)), data: []byte("partial"), category: "temp"})
		objs = append(objs, object{key: "ffff/.tmp-cacnk77", data: nil, category: "temp"})
	}
	// chunk-named files in wrong directories
	if rng.Intn(2) == 0 {
		id := *pick()
		ext := ".cacnk"
		if uncompressed {
			ext = ""
		}
		d := []byte("damaged copy in the wrong place")
		if rng.Intn(2) == 0 {
			b := dsu.MakeBlob(rng, "random", 300, dsu.Sizes{Min: 64, Avg: 128, Max: 256})
			id = dsu.Sum(b)
			d = form(b, !uncompressed)
		}
		objs = append(objs, object{key: "lost+found/" + id.String() + ext, data: d, category: "misplaced"})
	}
	// de-dup keys (later wins)
	seen := map[string]int{}
	var out []object
	for _, o := range objs {
		if k, ok := seen[o.key]; ok {
			out[k] = o
			continue
		}
		seen[o.key] = len(out)
		out = append(out, o)
	}
	return out, ids
}

type backend struct {
	kind   string
	dir    string
	s3     *fakes.S3
	prefix string // S3 key prefix without trailing slash ("" = none)
}

func (b *backend) pfx() string {
	if b.prefix == "" {
		return ""
	}
	return b.prefix + "/"
}

func (b *backend) put(o object) {
	if b.s3 != nil {
		b.s3.Put(b.pfx()+o.key, o.data)
		return
	}
	dsu.WriteFile(filepath.Join(b.dir, o.key), o.data)
}

func (b *backend) list() map[string][]byte {
	out := map[string][]byte{}
	if b.s3 != nil {
		for _, k := range b.s3.Keys() {
			d, _ := b.s3.Get(k)
			out[strings.TrimPrefix(k, b.pfx())] = d
		}
		return out
	}
	walk := func(root, relRoot string) {
		filepath.Walk(root, func(p string, info os.FileInfo, err error) error {
			if err == nil && !info.IsDir() && info.Mode()&os.ModeSymlink == 0 {
				rel, _ := filepath.Rel(root, p)
				d, _ := os.ReadFile(p)
				out[filepath.Join(relRoot, rel)] = d
			}
			return nil
		})
	}
	walk(b.dir, "")
	// prefix directories that are symlinks to directories elsewhere (a store spread over several disks)
	ents, _ := os.ReadDir(b.dir)
	for _, e := range ents {
		if e.Type()&os.ModeSymlink != 0 {
			if t, err := filepath.EvalSymlinks(filepath.Join(b.dir, e.Name())); err == nil {
				walk(t, e.Name())
			}
		}
	}
	return out
}

func run(c *harness.Ctx, i int) {
	rng := c.Rng
	desync.Digest = desync.SHA512256{}
	op := []string{"prune", "prune", "verify"}[rng.Intn(3)]
	kind := "local"
	if op == "prune" {
		kind = []string{"local", "local", "local-cli", "s3", "sftp"}[rng.Intn(5)]
	} else if rng.Intn(3) == 0 {
		kind = "local-cli"
	}
	uncompressed := rng.Intn(2) == 0
	dir := c.CaseDir()
	// the store directory has an ordinary name, a hidden one, one with blanks ...
	storeName := []string{"store", "store", ".desync-cache", "my store", ".store.d", "0000"}[rng.Intn(6)]
	b := &backend{kind: kind, dir: filepath.Join(dir, storeName)}
	os.MkdirAll(b.dir, 0755)
	if kind == "s3" {
		b.s3 = fakes.NewS3("bucket")
		b.prefix = []string{"pfx", "store", "cache/2020", "v1", "", "abcdef"}[rng.Intn(6)]
		defer b.s3.Close()
	}
	objs, ids := genStore(rng, uncompressed, strings.HasPrefix(kind, "local"))
	if kind == "s3" && rng.Intn(2) == 0 {
		// objects whose names look almost like chunks: directory is a shorter prefix of the ID, upper-case hex digits
		var id desync.ChunkID
		rng.Read(id[:])
		sid := id.String()
		ext := ".cacnk"
		if uncompressed {
			ext = ""
		}
		objs = append(objs, object{key: sid[:1+rng.Intn(3)] + "/" + sid + ext, data: []byte("not in its place"), category: "junk"})
		rng.Read(id[:])
		up := strings.ToUpper(id.String())
		objs = append(objs, object{key: up[:4] + "/" + up + ext, data: []byte("upper case"), category: "junk"})
	}
	if kind == "sftp" && rng.Intn(2) == 0 {
		// what an interrupted upload over SFTP leaves behind: the chunk's file name with a random number appended
		for k := 0; k < 1+rng.Intn(2); k++ {
			id := ids[rng.Intn(len(ids))]
			objs = append(objs, object{key: objKey(id, !uncompressed) + fmt.Sprint(1000000+rng.Int63n(1<<60)), data: []byte("partial upload"), category: "temp"})
		}
	}
	storm := op == "verify" && rng.Intn(4) == 0
	if storm {
		// many tiny invalid chunks next to each other: the verify workers finish them within nanoseconds of each other
		for k := 0; k < 50+rng.Intn(400); k++ {
			var id desync.ChunkID
			rng.Read(id[:])
			if rng.Intn(2) == 0 {
				copy(id[:2], ids[0][:2]) // same directory
			}
			objs = append(objs, object{key: objKey(id, !uncompressed), data: []byte{byte(k)}, category: "own-invalid", id: id, ownFmt: true})
		}
	}
	cats := map[string]bool{}
	for _, o := range objs {
		b.put(o)
		cats[o.category] = true
	}
	opt := desync.StoreOptions{Uncompressed: uncompressed, N: 2, ErrorRetry: 0}
	// some prefix directories of a local store live elsewhere and are linked in (a store spread over several disks):
	// the store serves what is in them, so prune and verify have to look there too
	if strings.HasPrefix(kind, "local") && rng.Intn(5) == 0 {
		ents, _ := os.ReadDir(b.dir)
		moved := 0
		for _, e := range ents {
			if e.IsDir() && len(e.Name()) == 4 && rng.Intn(2) == 0 {
				disk2 := filepath.Join(dir, "disk2")
				os.MkdirAll(disk2, 0755)
				if os.Rename(filepath.Join(b.dir, e.Name()), filepath.Join(disk2, e.Name())) == nil {
					os.Symlink(filepath.Join(disk2, e.Name()), filepath.Join(b.dir, e.Name()))
					moved++
				}
			}
		}
		if moved > 0 {
			cats["linked-prefix-dirs"] = true
		}
	}
	// local stores are sometimes addressed through a symlink to the directory
	addr := b.dir
	cliDir := ""
	if strings.HasPrefix(kind, "local") && rng.Intn(4) == 0 {
		addr = filepath.Join(dir, "store-link")
		os.Symlink(b.dir, addr)
		cats["via-symlink"] = true
	} else if kind == "local-cli" && rng.Intn(4) == 0 {
		// ... or is the current directory of the command
		addr, cliDir = ".", b.dir
		cats["via-dot"] = true
	}
	if storeName != "store" {
		cats["name:"+storeName] = true
	}
	cfgFile := filepath.Join(dir, "config.json")
	// the config entry of the store may also say "skip-verify" (sensible for reading from it, meaningless for `verify`)
	skipVerifyCfg := op == "verify" && kind == "local-cli" && rng.Intn(3) == 0
	dsu.WriteFile(cfgFile, []byte(fmt.Sprintf(`{"store-options": {%q: {"uncompressed": %v, "skip-verify": %v}}}`, addr, uncompressed, skipVerifyCfg)))
	if skipVerifyCfg {
		cats["skip-verify-in-config"] = true
	}
	before := b.list()

	if op == "prune" {
		// reference set
		refKind := []string{"empty", "all", "subset", "subset", "absent-ids"}[rng.Intn(5)]
		keep := map[desync.ChunkID]struct{}{}
		switch refKind {
		case "all":
			for _, id := range ids {
				keep[id] = struct{}{}
			}
		case "subset":
			for _, id := range ids {
				if rng.Intn(2) == 0 {
					keep[id] = struct{}{}
				}
			}
		case "absent-ids":
			for k := 0; k < 3; k++ {
				var id desync.ChunkID
				rng.Read(id[:])
				keep[id] = struct{}{}
			}
			keep[ids[0]] = struct{}{}
		}
		c.Info("op=prune backend=%s uncompressed=%v refs=%s(%d) objects=%d", kind, uncompressed, refKind, len(keep), len(objs))
		c.LogInfo()
		var err error
		switch kind {
		case "local":
			s, e := desync.NewLocalStore(addr, opt)
			dsu.Must(e)
			err = s.Prune(context.Background(), keep)
		case "local-cli":
			idx := desync.Index{Index: desync.FormatIndex{FeatureFlags: desync.CaFormatSHA512256, ChunkSizeMin: 64, ChunkSizeAvg: 128, ChunkSizeMax: 4096}}
			for _, l := range zeroChunkLens {
				// the index that references the all-zero chunk of l bytes has l as its maximum chunk size
				if _, ok := keep[dsu.Sum(make([]byte, l))]; ok {
					idx.Index.ChunkSizeMax = uint64(l)
				}
			}
			var start uint64
			var kk []string
			for id := range keep {
				kk = append(kk, id.String())
			}
			sort.Strings(kk)
			for _, s := range kk {
				id, _ := desync.ChunkIDFromString(s)
				idx.Chunks = append(idx.Chunks, desync.IndexChunk{ID: id, Start: start, Size: 100})
				start += 100
			}
			idxFile := filepath.Join(dir, "keep.caibx")
			dsu.Must(dsu.WriteIndex(idxFile, idx))
			cmd := exec.Command(cli, "--config", cfgFile, "prune", "-y", "-s", addr, idxFile)
			cmd.Env = append(os.Environ(), "HOME="+dir)
			cmd.Dir = cliDir
			var out []byte
			out, err = cmd.CombinedOutput()
			if err != nil {
				err = fmt.Errorf("%v: %s", err, out)
			}
		case "s3":
			o := opt
			if rng.Intn(3) == 0 {
				// the bucket refuses to delete some objects (object lock, policy): prune cannot report success then
				salt := byte(rng.Intn(256))
				b.s3.RefuseDelete = func(key string) bool { return len(key) > 0 && (key[len(key)-8]^salt)%3 == 0 }
				o.ErrorRetry = rng.Intn(3)
				o.ErrorRetryBaseInterval = time.Millisecond
			}
			s, e := desync.NewS3Store(b.s3.URL(b.prefix), fakes.Creds(), fakes.Region, o, fakes.Lookup)
			dsu.Must(e)
			pctx, pcancel := context.WithCancel(context.Background())
			if rng.Intn(4) == 0 {
				// the bucket lists a few keys per request and the prune is cancelled while a later page is served:
				// it reports the interruption or has finished its work, it does not report success over what is left
				b.s3.PageSize = 1 + rng.Intn(5)
				at := 2 + rng.Intn(3)
				b.s3.OnList = func(page int) {
					if page == at {
						pcancel()
						time.Sleep(2 * time.Millisecond)
					}
				}
				refKind += "+refused-by-cancel"
			}
			err = s.Prune(pctx, keep)
			pcancel()
			b.s3.PageSize, b.s3.OnList = 0, nil
			b.s3.RefuseDelete = nil
			if b.s3.Refused > 0 {
				c.Count("s3_deletes_refused", int64(b.s3.Refused))
				refKind += "+refused-deletes"
			}
		case "sftp":
			os.Setenv("CASYNC_SSH_PATH", shim)
			os.Unsetenv("SHIM_SFTP_FAULT")
			flog := filepath.Join(dir, "sftp-faults.log")
			if rng.Intn(3) == 0 {
				// the server refuses to list one of the directories: prune cannot know what is in there
				os.Setenv("SHIM_SFTP_FAULT", fmt.Sprintf("list@%d", 2+rng.Intn(8)))
				os.Setenv("SHIM_SFTP_FAULT_LOG", flog)
				defer os.Unsetenv("SHIM_SFTP_FAULT")
			}
			defer func() {
				if fl, _ := os.ReadFile(flog); len(fl) > 0 {
					c.Count("sftp_listings_refused", 1)
				}
			}()
			u, _ := url.Parse("sftp://localhost" + b.dir)
			// an upload that was cut off by a dying connection leaves whatever the writer itself uses as its
			// temporary name; a later prune (new connection) has to clean that up
			interrupted := ""
			if os.Getenv("SHIM_SFTP_FAULT") == "" && rng.Intn(3) == 0 {
				os.Setenv("SHIM_SFTP_FAULT", "die@1")
				os.Setenv("SHIM_SFTP_FAULT_LOG", flog+".upload")
				if us, e := desync.NewSFTPStore(u, desync.StoreOptions{Uncompressed: uncompressed, N: 1}); e == nil {
					data := dsu.MakeBlob(rng, "random", 3000, dsu.Sizes{Min: 64, Avg: 128, Max: 256})
					if serr := us.StoreChunk(desync.NewChunk(data)); serr != nil {
						iid := dsu.Sum(data)
						interrupted = iid.String()
					}
					us.Close()
				}
				os.Unsetenv("SHIM_SFTP_FAULT")
				before = b.list() // what the upload left is there before prune runs
			}
			defer func() {
				if interrupted == "" || err != nil {
					return
				}
				for k := range b.list() {
					if strings.Contains(k, interrupted) {
						c.Violation("prune-left-temp", "an SFTP upload of chunk %s was cut off by a dying connection; prune reported success and %q is still in the store", interrupted[:10], k)
						return
					}
				}
				c.Count("sftp_interrupted_uploads_cleaned", 1)
			}()
			s, e := desync.NewSFTPStore(u, opt)
			if e != nil {
				c.Skip("sftp shim: %v", e)
				return
			}
			err = s.Prune(context.Background(), keep)
			s.Close()
			if fl, _ := os.ReadFile(flog); len(fl) > 0 {
				refKind += "+refused-listing"
			}
		}
		after := b.list()
		removedSomething := false
		for _, o := range objs {
			_, kept := keep[o.id]
			data, present := after[o.key]
			protected := (o.ownFmt && kept) || o.category == "other-format" || o.category == "junk"
			if protected {
				if !present {
					c.Violation("prune-deleted:"+o.category, "prune (%s, uncompressed=%v, refs %s) deleted %s object %q (referenced=%v)", kind, uncompressed, refKind, o.category, o.key, kept)
					return
				}
				if !bytes.Equal(data, o.data) {
					c.Violation("prune-modified:"+o.category, "prune changed the content of %q", o.key)
					return
				}
			}
			if err == nil && present {
				if o.ownFmt && !kept {
					c.Violation("prune-left-unreferenced:"+kind, "prune (%s, uncompressed=%v) reported success but the unreferenced chunk %q is still there", kind, uncompressed, o.key)
					return
				}
				if o.category == "temp" {
					c.Violation("prune-left-temp", "prune reported success but the abandoned temp file %q is still there", o.key)
					return
				}
			}
			if !present {
				removedSomething = true
			}
		}
		for k := range after {
			if _, ok := before[k]; !ok {
				c.Violation("prune-created", "prune created %q", k)
				return
			}
		}
		if err != nil {
			// An error is not a violation: the statement only constrains what a prune deletes and what is gone when
			// it reports success (chunk-named files in wrong directories make LocalStore/SFTP prune stop with ChunkMissing).
			c.Count("prune_errors", 1)
			if !cats["misplaced"] && !strings.Contains(refKind, "refused-") {
				c.Violation("prune-failed:"+kind, "prune failed on a store without misplaced files: %v", err)
				return
			}
		}
		c.Count("prunes", 1)
		if len(cats) >= 4 && removedSomething {
			c.NonTrivial("prune|%s|u%v|%s|%v", kind, uncompressed, refKind, catList(cats))
		}
		c.Sample(map[string]interface{}{"op": "prune", "backend": kind, "uncompressed": uncompressed, "refs": refKind, "objects_before": len(before), "objects_after": len(after), "categories": catList(cats)})
		return
	}

	// verify
	n := []int{1, 4, 16}[rng.Intn(3)]
	if storm {
		n = []int{8, 16, 32}[rng.Intn(3)]
	}
	repair := rng.Intn(2) == 0
	c.Info("op=verify backend=%s uncompressed=%v n=%d repair=%v objects=%d storm=%v", kind, uncompressed, n, repair, len(objs), storm)
	c.LogInfo()
	// verify run by an unprivileged user who cannot read some perfectly valid chunk files: they must survive -r
	unpriv := kind == "local-cli" && rng.Intn(3) == 0
	unreadable := map[string]bool{}
	if unpriv {
		for _, root := range []string{b.dir, filepath.Join(dir, "disk2")} {
			filepath.Walk(root, func(p string, info os.FileInfo, err error) error {
				if err == nil && info.Mode()&os.ModeSymlink == 0 {
					if info.IsDir() {
						os.Chmod(p, 0777)
					} else {
						os.Chmod(p, 0666)
					}
				}
				return nil
			})
		}
		os.Chmod(dir, 0755)
		os.Chmod(cfgFile, 0644)
		for _, o := range objs {
			if o.ownFmt && o.valid && len(unreadable) < 2 && rng.Intn(2) == 0 {
				os.Chmod(filepath.Join(b.dir, o.key), 0)
				unreadable[o.key] = true
			}
		}
	}
	var msgs bytes.Buffer
	var err error
	if kind == "local" {
		s, e := desync.NewLocalStore(addr, opt)
		dsu.Must(e)
		// Verify writes its messages from n goroutines: give it a writer that tolerates that (as os.Stderr does)
		err = s.Verify(context.Background(), n, repair, &lockedWriter{w: &msgs})
	} else {
		args := []string{"--config", cfgFile, "verify", "-n", fmt.Sprint(n), "-s", addr}
		if repair {
			args = append(args, "-r")
		}
		cmd := exec.Command(cli, args...)
		cmd.Env = append(os.Environ(), "HOME="+dir)
		cmd.Dir = cliDir
		cmd.Stderr = &msgs
		if unpriv {
			cmd.SysProcAttr = &syscall.SysProcAttr{Credential: &syscall.Credential{Uid: 65534, Gid: 65534}}
		}
		err = cmd.Run()
		if unpriv && err != nil && strings.Contains(err.Error(), "fork/exec") && strings.Contains(err.Error(), "permission denied") {
			// the unprivileged user cannot even start the binary (the scratch directory lies below a directory closed
			// to others, as under /root): the case cannot be set up here
			for k := range unreadable {
				os.Chmod(filepath.Join(b.dir, k), 0644)
			}
			c.Skip("the command cannot be started as an unprivileged user from %s", cli)
			return
		}
	}
	if len(unreadable) > 0 {
		// it may fail (it cannot read everything); it must not have removed what it could not read
		after := b.list()
		for k := range unreadable {
			os.Chmod(filepath.Join(b.dir, k), 0644)
		}
		after2 := b.list()
		for k := range unreadable {
			if _, still := after2[k]; !still {
				c.Violation("verify-deleted:unreadable-valid", "verify (repair=%v) run by an unprivileged user removed the valid chunk %q it could not read (exit: %v; %s)", repair, k, err, strings.TrimSpace(msgs.String()))
				return
			}
		}
		_ = after
		c.Count("verifies_with_unreadable_chunks", 1)
		c.NonTrivial("verify-unreadable|u%v|r%v", uncompressed, repair)
		return
	}
	if err != nil {
		c.Violation("verify-failed", "verify failed: %v %s", err, msgs.String())
		return
	}
	reported := map[string]int{}
	for _, m := range regexp.MustCompile(`chunk id ([0-9a-f]{64}) does not match`).FindAllStringSubmatch(msgs.String(), -1) {
		reported[m[1]]++
	}
	want := map[string]bool{}
	for _, o := range objs {
		if o.ownFmt && !o.valid {
			want[o.id.String()] = true
		}
	}
	// every message must be about an invalid chunk: verify reports exactly those and nothing else
	misplacedIDs := map[string]bool{}
	for _, o := range objs {
		if o.category == "misplaced" {
			misplacedIDs[strings.TrimSuffix(filepath.Base(o.key), ".cacnk")] = true
		}
	}
	for _, line := range strings.Split(strings.TrimSpace(msgs.String()), "\n") {
		if strings.TrimSpace(line) != "" && !strings.Contains(line, "does not match") {
			// a chunk-named file in a wrong directory makes verify look for that ID in its canonical place: not judged
			if m := regexp.MustCompile(`chunk ([0-9a-f]{64}) missing from store`).FindStringSubmatch(line); m != nil && misplacedIDs[m[1]] {
				continue
			}
			c.Violation("verify-unexpected-message", "verify (uncompressed=%v, n=%d) printed %q, which is not about a chunk whose content does not match its ID", uncompressed, n, line)
			return
		}
	}
	for id := range want {
		if reported[id] == 0 {
			c.Violation("verify-missed", "verify (n=%d) did not report the invalid chunk %s", n, id[:12])
			return
		}
	}
	emptyID := dsu.Sum(nil)
	for id := range reported {
		if !want[id] && id == emptyID.String() {
			// (its own class: see known_findings.txt)
			c.Violation("verify-false-report:empty-chunk", "verify (n=%d) reported the chunk of no bytes (%s, an empty file in both formats) as invalid: its content matches its ID\n%s", n, id[:12], msgs.String())
			continue
		}
		if !want[id] {
			c.Violation("verify-false-report", "verify (n=%d) reported chunk %s as invalid, but the object in its canonical place is valid or absent\n%s", n, id[:12], msgs.String())
			return
		}
	}
	after := b.list()
	for _, o := range objs {
		data, present := after[o.key]
		mustGo := repair && o.ownFmt && !o.valid
		switch {
		case mustGo && present:
			c.Violation("verify-repair-left", "verify -r left the invalid chunk %q in place", o.key)
			return
		case !mustGo && !present && o.id == emptyID && o.ownFmt && o.valid:
			c.Violation("verify-deleted:empty-chunk", "verify -r removed the chunk of no bytes (%q): its content matches its ID", o.key)
		case !mustGo && !present && o.category != "misplaced":
			c.Violation("verify-deleted:"+o.category, "verify (repair=%v) removed %s object %q", repair, o.category, o.key)
			return
		case present && !bytes.Equal(data, o.data):
			c.Violation("verify-modified", "verify changed %q", o.key)
			return
		}
	}
	c.Count("verifies", 1)
	if len(cats) >= 4 && len(want) > 0 {
		c.NonTrivial("verify|%s|u%v|n%d|r%v|storm%v|%v", kind, uncompressed, n, repair, storm, catList(cats))
	}
	c.Sample(map[string]interface{}{"op": "verify", "backend": kind, "uncompressed": uncompressed, "n": n, "repair": repair, "invalid_chunks": len(want), "reported": len(reported), "categories": catList(cats)})
}

func catList(m map[string]bool) []string {
	var out []string
	for k := range m {
		out = append(out, k)
	}
	sort.Strings(out)
	return out
}

type lockedWriter struct {
	mu sync.Mutex
	w  *bytes.Buffer
}

func (l *lockedWriter) Write(p []byte) (int, error) {
	l.mu.Lock()
	defer l.mu.Unlock()
	return l.w.Write(p)
}
