package main

// CLI leg of C11: the chains `desync cat` / `desync extract` build from -s (router of stores and a|b failover groups)
// and -c (cache, local or remote, with --cache-repair on by default) over real local-directory and HTTP members.

import (
	"bytes"
	"fmt"
	"math/rand"
	"net/http"
	"net/http/httptest"
	"os"
	"os/exec"
	"path/filepath"
	"strings"
	"sync"
	"syscall"
	"time"

	"github.com/folbricht/desync"

	"verif/dsu"
	"verif/fakes"
	"verif/harness"
)

var cliBin string

// hangsSeen counts commands of this child process that did not return: after two of them no further ssh members are
// generated (every such case costs a minute, and the finding is made)
var hangsSeen int

func parentSetup(tier string, seed int64, work string) ([]string, error) {
	p, err := harness.BuildCLI(work, "desync-verif", "verif", false)
	if err != nil {
		return nil, err
	}
	sh, err := harness.BuildHelper(work, "shim", "./helpers/shim", "verif")
	if err != nil {
		return nil, err
	}
	return []string{"VERIF_CLI=" + p, "VERIF_SHIM=" + sh}, nil
}

type cliMember struct {
	name    string
	kind    string // local | http
	dir     string
	failing bool     // http: every request is answered 500
	content []string // per chunk: valid | missing | invalid
	loc     string
	srv     *httptest.Server
	s3      *fakes.S3
	mu      sync.Mutex
	gets    map[string]int // http: GET requests per chunk id
	puts    int
}

func chunkPath(dir string, id desync.ChunkID) string {
	s := id.String()
	return filepath.Join(dir, s[:4], s+".cacnk")
}

func newCLIMember(rng *rand.Rand, base, name string, ids []desync.ChunkID, data [][]byte, fill int, writable bool) *cliMember {
	m := &cliMember{name: name, kind: []string{"local", "http", "s3", "local", "http", "s3", "ssh"}[rng.Intn(7)], dir: filepath.Join(base, name), gets: map[string]int{}}
	if writable && (m.kind == "s3" || m.kind == "ssh") {
		m.kind = "local"
	}
	if m.kind == "ssh" && (os.Getenv("VERIF_SHIM") == "" || hangsSeen >= 2) {
		m.kind = "local"
	}
	os.MkdirAll(m.dir, 0755)
	ls, err := desync.NewLocalStore(m.dir, desync.StoreOptions{})
	dsu.Must(err)
	for i := range ids {
		r := rng.Intn(100)
		switch {
		case r < fill:
			dsu.Must(ls.StoreChunk(desync.NewChunk(data[i])))
			m.content = append(m.content, "valid")
		case r < fill+15:
			other, _ := desync.Compress([]byte(fmt.Sprintf("not the chunk %d of %s", i, name)))
			os.MkdirAll(filepath.Dir(chunkPath(m.dir, ids[i])), 0755)
			dsu.Must(os.WriteFile(chunkPath(m.dir, ids[i]), other, 0644))
			m.content = append(m.content, "invalid")
		default:
			m.content = append(m.content, "missing")
		}
	}
	m.loc = m.dir
	if m.kind == "ssh" {
		// the casync protocol: `desync pull` on the directory behind the stand-in for ssh
		m.loc = "ssh://localhost" + m.dir
	}
	if m.kind == "s3" {
		// the same objects in a bucket of the S3 stand-in
		m.s3 = fakes.NewS3("bucket")
		filepath.Walk(m.dir, func(p string, info os.FileInfo, err error) error {
			if err == nil && !info.IsDir() {
				rel, _ := filepath.Rel(m.dir, p)
				b, _ := os.ReadFile(p)
				m.s3.Put("pfx/"+rel, b)
			}
			return nil
		})
		m.loc = "s3+" + m.s3.Srv.URL + "/bucket/pfx?lookup=path"
	}
	if m.kind == "http" {
		m.failing = !writable && rng.Intn(4) == 0
		// the server passes stored bytes through unverified and the client is the one that verifies (the chunk server's
		// default), or the server verifies what it reads (--skip-verify-read=false) and answers for a damaged chunk
		// itself: a failure either way, never "not here"
		ss, err := desync.NewLocalStore(m.dir, desync.StoreOptions{SkipVerify: writable || rng.Intn(2) == 0})
		dsu.Must(err)
		h := desync.NewHTTPHandler(ss, writable, false, desync.Converters{desync.Compressor{}}, "")
		m.srv = httptest.NewServer(http.HandlerFunc(func(w http.ResponseWriter, r *http.Request) {
			m.mu.Lock()
			if r.Method == "GET" {
				m.gets[filepath.Base(r.URL.Path)]++
			}
			if r.Method == "PUT" {
				m.puts++
			}
			m.mu.Unlock()
			if m.failing {
				http.Error(w, "injected failure", http.StatusInternalServerError)
				return
			}
			h.ServeHTTP(w, r)
		}))
		m.loc = m.srv.URL + "/"
	}
	return m
}

func (m *cliMember) close() {
	if m.s3 != nil {
		m.s3.Close()
	}
	if m.srv != nil {
		m.srv.Close()
	}
}

func (m *cliMember) get(i int) string {
	if m.failing {
		return "error"
	}
	switch m.content[i] {
	case "valid":
		return "ok"
	case "invalid":
		return "invalid"
	}
	return "missing"
}

type cliGroup struct {
	members []*cliMember
	active  int
}

func (g *cliGroup) get(i int) string {
	if len(g.members) == 1 {
		return g.members[0].get(i)
	}
	for n := 0; n < len(g.members); n++ {
		r := g.members[g.active].get(i)
		if r == "ok" || r == "missing" {
			return r
		}
		g.active = (g.active + 1) % len(g.members)
	}
	return "error"
}

func cliChain(c *harness.Ctx) {
	rng := c.Rng
	if cliBin == "" {
		cliBin = os.Getenv("VERIF_CLI")
	}
	base := c.CaseDir()
	n := 1 + rng.Intn(6)
	var ids []desync.ChunkID
	var data [][]byte
	var blob []byte
	idx := desync.Index{Index: desync.FormatIndex{FeatureFlags: desync.CaFormatExcludeNoDump | desync.CaFormatSHA512256, ChunkSizeMin: 16, ChunkSizeAvg: 64, ChunkSizeMax: 256}}
	for i := 0; i < n; i++ {
		b := make([]byte, 16+rng.Intn(200))
		rng.Read(b)
		id := dsu.Sum(b)
		idx.Chunks = append(idx.Chunks, desync.IndexChunk{ID: id, Start: uint64(len(blob)), Size: uint64(len(b))})
		ids = append(ids, id)
		data = append(data, b)
		blob = append(blob, b...)
	}
	idxPath := filepath.Join(base, "blob.caibx")
	dsu.Must(dsu.WriteIndex(idxPath, idx))
	fill := []int{100, 85, 60}[rng.Intn(3)]
	var groups []*cliGroup
	var args []string
	var shape []string
	k := 0
	for g := 0; g < 1+rng.Intn(3); g++ {
		grp := &cliGroup{}
		var locs []string
		for m := 0; m < 1+rng.Intn(3); m++ {
			mem := newCLIMember(rng, base, fmt.Sprintf("m%d", k), ids, data, fill, false)
			defer mem.close()
			k++
			grp.members = append(grp.members, mem)
			locs = append(locs, mem.loc)
		}
		groups = append(groups, grp)
		args = append(args, "-s", strings.Join(locs, "|"))
		var ks []string
		for _, mem := range grp.members {
			s := mem.kind
			if mem.failing {
				s += "!"
			}
			ks = append(ks, s)
		}
		shape = append(shape, strings.Join(ks, "|"))
	}
	var cache *cliMember
	cacheUncompressed := false
	var configArgs []string
	repair := true
	if rng.Intn(3) != 0 {
		cache = newCLIMember(rng, base, "cache", ids, data, []int{0, 40, 70}[rng.Intn(3)], true)
		defer cache.close()
		args = append(args, "-c", cache.loc)
		if cache.kind == "local" && rng.Intn(3) == 0 {
			// the cache directory is configured (config file, there is no flag) to hold chunks uncompressed while every
			// store delivers compressed ones: what the cache is filled with must be what it serves from next time
			cacheUncompressed = true
			for i := range ids {
				os.Remove(chunkPath(cache.dir, ids[i]))
				raw := strings.TrimSuffix(chunkPath(cache.dir, ids[i]), ".cacnk")
				switch cache.content[i] {
				case "valid":
					os.MkdirAll(filepath.Dir(raw), 0755)
					dsu.Must(os.WriteFile(raw, data[i], 0644))
				case "invalid":
					os.MkdirAll(filepath.Dir(raw), 0755)
					dsu.Must(os.WriteFile(raw, []byte(fmt.Sprintf("not the chunk %d", i)), 0644))
				}
			}
			cfg := filepath.Join(base, "config.json")
			dsu.Must(os.WriteFile(cfg, []byte(fmt.Sprintf(`{"store-options": {%q: {"uncompressed": true}}}`, cache.loc)), 0644))
			configArgs = []string{"--config", cfg}
		}
		if rng.Intn(4) == 0 {
			repair = false
			args = append(args, "--cache-repair=false")
		}
		shape = append(shape, fmt.Sprintf("cache:%s,repair=%v,uncompressed=%v", cache.kind, repair, cacheUncompressed))
	}
	cmdName := []string{"cat", "extract"}[rng.Intn(2)]
	c.Info("cli chain %s %s chunks=%d fill=%d", cmdName, strings.Join(shape, " ; "), n, fill)
	c.LogInfo()
	// model
	before := []string(nil)
	if cache != nil {
		before = append(before, cache.content...)
	}
	want := "ok"
	events := map[string]bool{}
	for i := 0; i < n && want == "ok"; i++ {
		if cache != nil {
			r := cache.get(i)
			if r == "ok" {
				events["cache-hit"] = true
				continue
			}
			if r == "invalid" {
				if !repair {
					want = "fail"
					break
				}
				events["repair"] = true
			}
		}
		res := "missing"
		for gi, g := range groups {
			act := g.active
			r := g.get(i)
			if g.active != act {
				events["failover"] = true
			}
			if r == "ok" {
				res = "ok"
				if gi > 0 {
					events["fall-through"] = true
				}
				break
			}
			if r != "missing" {
				res = "error"
				break
			}
		}
		if res != "ok" {
			want = "fail"
			break
		}
		if cache != nil {
			cache.content[i] = "valid"
			events["fill"] = true
		}
	}
	// error-retry 0, or 1 and more with a tiny interval (a chunk that simply is not there must stay "missing" however
	// often the store is asked again)
	retry := []string{"0", "0", "1", "3"}[rng.Intn(4)]
	full := append(append(append([]string{}, configArgs...), cmdName, "-n", "1", "-e", retry, "-b", "1ms"), args...)
	out := filepath.Join(base, "out")
	if cmdName == "cat" {
		full = append(full, idxPath)
	} else {
		full = append(full, idxPath, out)
	}
	cmd := exec.Command(cliBin, full...)
	cmd.Env = append(os.Environ(), "HOME="+base, "S3_ACCESS_KEY=key", "S3_SECRET_KEY=secret", "S3_REGION=us-east-1", "CASYNC_SSH_PATH="+os.Getenv("VERIF_SHIM"), "CASYNC_REMOTE_PATH="+cliBin)
	var stdout, stderr bytes.Buffer
	cmd.Stdout = &stdout
	cmd.Stderr = &stderr
	err := cmd.Start()
	if err == nil {
		done := make(chan error, 1)
		go func() { done <- cmd.Wait() }()
		select {
		case err = <-done:
		case <-time.After(60 * time.Second):
			// a command that takes a fraction of a second has not returned: what are its goroutines doing (DESIGN 4.2)
			cmd.Process.Signal(syscall.SIGQUIT)
			<-done
			hangsSeen++
			if harness.DumpIsStuckWaitingForChildren(stderr.String()) {
				c.Violation("cli-chain-hang", "desync %s over (%s) did not return; every goroutine waits for a channel, a lock or its own idle helper processes:\n%s", cmdName, strings.Join(shape, " ; "), stderr.String())
			} else {
				c.Inconclusive("desync %s did not return within 60 s, goroutine dump not conclusive:\n%s", strings.Join(full, " "), stderr.String())
			}
			return
		}
	}
	got := "ok"
	if err != nil {
		got = "fail"
	}
	if strings.Contains(stderr.String(), "panic:") || strings.Contains(stderr.String(), "fatal error:") {
		c.Violation("cli-crash", "desync %s crashed: %s", strings.Join(full, " "), stderr.String())
		return
	}
	if got != want {
		c.Violation("cli-chain-result", "desync %s over (%s): the documented policy gives %q, the command %s (exit: %v, stderr: %s)", cmdName, strings.Join(shape, " ; "), want, map[string]string{"ok": "succeeded", "fail": "failed"}[got], err, strings.TrimSpace(stderr.String()))
		return
	}
	if got == "ok" {
		var produced []byte
		if cmdName == "cat" {
			produced = stdout.Bytes()
		} else {
			produced, _ = os.ReadFile(out)
		}
		if !bytes.Equal(produced, blob) {
			c.Violation("cli-chain-bytes", "desync %s over (%s) succeeded with %d bytes that are not the blob (%d bytes)", cmdName, strings.Join(shape, " ; "), len(produced), len(blob))
			return
		}
		if cache != nil {
			// the cache now holds a valid copy of every chunk, and chunks it held valid before were not fetched upstream
			for i := range ids {
				raw, err := os.ReadFile(chunkPath(cache.dir, ids[i]))
				var plain []byte
				if cacheUncompressed {
					plain, err = os.ReadFile(strings.TrimSuffix(chunkPath(cache.dir, ids[i]), ".cacnk"))
				} else if err == nil {
					plain, err = desync.Decompress(nil, raw)
				}
				if err != nil || dsu.Sum(plain) != ids[i] {
					c.Violation("cli-cache-not-filled", "after a successful desync %s over (%s) the cache holds no valid copy of chunk %d (was %s before): %v", cmdName, strings.Join(shape, " ; "), i, before[i], err)
					return
				}
				if before[i] == "valid" {
					for _, g := range groups {
						for _, mem := range g.members {
							mem.mu.Lock()
							nreq := mem.gets[ids[i].String()+".cacnk"]
							mem.mu.Unlock()
							if nreq > 0 {
								c.Violation("cli-cache-bypassed", "chunk %d was valid in the cache, yet upstream member %s received %d GET requests for it", i, mem.name, nreq)
								return
							}
						}
					}
				}
			}
		}
	}
	c.Count("cli_chains", 1)
	c.Count("cli_chains_"+want, 1)
	var ev []string
	for e := range events {
		ev = append(ev, e)
	}
	sortStrings(ev)
	if len(ev) > 0 {
		c.NonTrivial("cli|%s|%s|%s|%s", cmdName, strings.Join(shape, ";"), strings.Join(ev, "+"), want)
	}
	c.Sample(map[string]interface{}{"leg": "cli-chain", "command": cmdName, "shape": shape, "chunks": n, "events": ev, "result": got})
}
