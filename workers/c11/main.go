// C11: store chains follow their documented routing, caching and failover policy.
package main

import (
	"bytes"
	"fmt"
	"math/rand"
	"runtime"
	"sort"
	"strings"
	"sync"
	"sync/atomic"
	"time"

	"github.com/anishathalye/porcupine"
	"github.com/folbricht/desync"

	"verif/dsu"
	"verif/harness"
)

func main() {
	harness.Main(&harness.Config{
		Prop:  "C11",
		Level: "exploration",
		Rule: "PRNG case list. Sequential legs: random operation sequences (GetChunk/HasChunk over <=6 IDs) on router / cache / repairable cache / failover / the full CLI chain Cache(Router(Failover(a|b|c), d), Repairable(l)) " +
			"over in-memory members with per-ID content {valid, missing, invalid} and per-member fault plans {healthy, always failing, failing at chosen call ordinals}; every result class and every member call is compared with a reference model of the documented policy. " +
			"Concurrent legs (-race, yields at failover/swap hooks): failover with one healthy member (no request may fail, <= len(members) member calls per request), cache (no upstream call by a request that started after a successful request of that ID returned), " +
			"swap under load (no request fails, no member is called after or while being closed, swap/serve history is linearizable against a register: porcupine). " +
			"CLI leg: `desync cat` / `desync extract` with 1-3 -s arguments (single stores and a|b|c failover groups of local directories and HTTP servers, members holding each chunk valid / missing / invalid or answering 500) and an optional -c cache (local directory or writable HTTP server, --cache-repair on or off): exit status against the same policy model, output == blob, cache filled and repaired, no upstream GET for chunks the cache held valid. " +
			"Non-trivial: sequential history with >=1 fall-through/failover/fill/repair event, concurrent history with >=2 overlapping requests; distinct by (leg, shape, fault plan class, event kinds)",
		Assumptions:     []string{"reference model of router/cache/failover written from the documented policy (doc comments + README)", "concurrent interleavings are sampled"},
		Cases:           cases,
		Run:             run,
		ParentSetup:     parentSetup,
		SpinIsViolation: true,
		MinNonTrivial:   20,
		RaceIsViolation: true,
		CaseTimeout:     150 * time.Second,
	})
}

func cases(tier string) int {
	if tier == "thorough" {
		return 600000
	}
	return 40000
}

// ---------------------------------------------------------------------------
// reference model

type mMember struct {
	name    string
	content map[int]string // id index -> valid|invalid ; absent = missing
	plan    func(op string, n int64) bool
	counts  map[string]int64
	calls   []string
}

func (m *mMember) call(op string, id int) (res string) {
	m.counts[op]++
	n := m.counts[op]
	defer func() { m.calls = append(m.calls, fmt.Sprintf("%s:%s(%d)=%s", m.name, op, id, res)) }()
	if m.plan != nil && m.plan(op, n) {
		return "error"
	}
	st, ok := m.content[id]
	switch op {
	case "get":
		if !ok {
			return "missing"
		}
		if st == "invalid" {
			return "invalid"
		}
		return "ok"
	case "has":
		return fmt.Sprint(ok)
	case "store":
		m.content[id] = "valid"
		return "ok"
	}
	panic(op)
}

type mStore interface {
	get(id int) string // ok, missing, invalid, error
	has(id int) string // true, false, error
}

type mLeaf struct{ m *mMember }

func (l mLeaf) get(id int) string { return l.m.call("get", id) }
func (l mLeaf) has(id int) string { return l.m.call("has", id) }

type mRouter struct{ stores []mStore }

func (r mRouter) get(id int) string {
	for _, s := range r.stores {
		switch res := s.get(id); res {
		case "ok":
			return "ok"
		case "missing":
			continue
		default:
			return "error" // any other failure aborts (invalid counts as failure)
		}
	}
	return "missing"
}
func (r mRouter) has(id int) string {
	for _, s := range r.stores {
		switch res := s.has(id); res {
		case "error":
			return "error"
		case "true":
			return "true"
		}
	}
	return "false"
}

type mFailover struct {
	stores []mStore
	active int
	events *int
}

func (f *mFailover) get(id int) string {
	last := "error"
	for i := 0; i < len(f.stores); i++ {
		res := f.stores[f.active].get(id)
		if res == "ok" || res == "missing" {
			return res
		}
		last = res
		f.active = (f.active + 1) % len(f.stores)
		*f.events++
	}
	if last == "invalid" {
		return "invalid"
	}
	return last
}
func (f *mFailover) has(id int) string {
	for i := 0; i < len(f.stores); i++ {
		res := f.stores[f.active].has(id)
		if res != "error" {
			return res
		}
		f.active = (f.active + 1) % len(f.stores)
		*f.events++
	}
	return "error"
}

type mCache struct {
	up     mStore
	local  *mMember
	repair bool
	events *int
}

func (c mCache) get(id int) string {
	res := c.local.call("get", id)
	if res == "invalid" && c.repair {
		res = "missing"
		*c.events++
	}
	switch res {
	case "ok":
		return "ok"
	case "missing":
	default:
		return res
	}
	up := c.up.get(id)
	if up != "ok" {
		return up
	}
	*c.events++
	if c.local.call("store", id) != "ok" {
		return "error"
	}
	return "ok"
}
func (c mCache) has(id int) string {
	res := c.local.call("has", id)
	if res == "error" || res == "true" {
		return res
	}
	return c.up.has(id)
}

// ---------------------------------------------------------------------------

type world struct {
	ids   []desync.ChunkID
	data  [][]byte
	real  map[string]*dsu.MemStore
	model map[string]*mMember
}

func newWorld(rng *rand.Rand, nIDs int) *world {
	w := &world{real: map[string]*dsu.MemStore{}, model: map[string]*mMember{}}
	for i := 0; i < nIDs; i++ {
		b := make([]byte, 16+rng.Intn(40))
		rng.Read(b)
		w.data = append(w.data, b)
		w.ids = append(w.ids, dsu.Sum(b))
	}
	return w
}

// member creates a real MemStore and its model twin with the same content and fault plan.
func (w *world) member(rng *rand.Rand, name string, planKind string, fill int) (*dsu.MemStore, *mMember) {
	ms := dsu.NewMemStore(name)
	mm := &mMember{name: name, content: map[int]string{}, counts: map[string]int64{}}
	for i := range w.ids {
		r := rng.Intn(100)
		switch {
		case r < fill:
			ms.PutRaw(w.ids[i], w.data[i])
			mm.content[i] = "valid"
		case r < fill+12:
			ms.PutRaw(w.ids[i], w.data[i])
			ms.SetInvalid(w.ids[i], true)
			mm.content[i] = "invalid"
		}
	}
	var plan func(op string, n int64) bool
	switch planKind {
	case "healthy":
	case "always":
		plan = func(op string, n int64) bool { return op != "store" }
	case "ordinals":
		seed := uint64(rng.Int63())
		plan = func(op string, n int64) bool { return op != "store" && mix(seed^uint64(n)*131^uint64(op[0]))%3 == 0 }
	case "from":
		from := int64(1 + rng.Intn(6))
		plan = func(op string, n int64) bool { return op != "store" && n >= from }
	case "until":
		until := int64(1 + rng.Intn(4))
		plan = func(op string, n int64) bool { return op != "store" && n <= until }
	case "store-fails":
		// reads work, writes do not (disk full, read-only, a remote cache refusing uploads): some or all of them
		seed := uint64(rng.Int63())
		all := rng.Intn(2) == 0
		plan = func(op string, n int64) bool { return op == "store" && (all || mix(seed^uint64(n)*977)%2 == 0) }
	}
	mm.plan = plan
	if plan != nil {
		ms.Fault = func(op string, n int64, id desync.ChunkID) error {
			if plan(op, n) {
				return dsu.ErrInjected{Msg: fmt.Sprintf("%s %s#%d", name, op, n)}
			}
			return nil
		}
	}
	w.real[name] = ms
	w.model[name] = mm
	return ms, mm
}

func mix(x uint64) uint64 {
	x += 0x9e3779b97f4a7c15
	x = (x ^ (x >> 30)) * 0xbf58476d1ce4e5b9
	x = (x ^ (x >> 27)) * 0x94d049bb133111eb
	return x ^ (x >> 31)
}

var planKinds = []string{"healthy", "healthy", "always", "ordinals", "from", "until"}

func classify(ch *desync.Chunk, err error, want []byte) string {
	if err == nil {
		if ch == nil {
			return "nil-chunk"
		}
		b, derr := ch.Data()
		if derr != nil || !bytes.Equal(b, want) {
			return "wrong-data"
		}
		return "ok"
	}
	var e error = err
	for e != nil {
		switch e.(type) {
		case desync.ChunkMissing:
			return "missing"
		case desync.ChunkInvalid:
			return "invalid"
		case dsu.ErrInjected:
			return "error"
		}
		u, ok := e.(interface{ Unwrap() error })
		if !ok {
			c, ok2 := e.(interface{ Cause() error })
			if !ok2 {
				break
			}
			e = c.Cause()
			continue
		}
		e = u.Unwrap()
	}
	return "error"
}

func run(c *harness.Ctx, i int) {
	desync.Digest = desync.SHA512256{}
	if i%16 == 4 {
		cliChain(c)
		return
	}
	switch i % 8 {
	case 0, 1, 2, 3, 4:
		sequential(c, i)
	case 5:
		concFailover(c)
	case 6:
		concCache(c)
	case 7:
		concSwap(c)
	}
}

func sequential(c *harness.Ctx, i int) {
	rng := c.Rng
	w := newWorld(rng, 2+rng.Intn(5))
	shape := []string{"router", "failover", "cache", "repaircache", "chain"}[rng.Intn(5)]
	events := 0
	var real desync.Store
	var model mStore
	var plans []string
	pk := func() string { k := planKinds[rng.Intn(len(planKinds))]; plans = append(plans, k); return k }
	leaf := func(name string, fill int) (desync.Store, mStore) {
		ms, mm := w.member(rng, name, pk(), fill)
		return ms, mLeaf{mm}
	}
	switch shape {
	case "router":
		var rs []desync.Store
		var mr mRouter
		for k := 0; k < 2+rng.Intn(2); k++ {
			r, m := leaf(fmt.Sprintf("r%d", k), 45)
			rs = append(rs, r)
			mr.stores = append(mr.stores, m)
		}
		real, model = desync.NewStoreRouter(rs...), mr
	case "failover":
		var rs []desync.Store
		mf := &mFailover{events: &events}
		for k := 0; k < 2+rng.Intn(2); k++ {
			r, m := leaf(fmt.Sprintf("f%d", k), 70)
			rs = append(rs, r)
			mf.stores = append(mf.stores, m)
		}
		real, model = desync.NewFailoverGroup(rs...), mf
	case "cache", "repaircache":
		up, mup := leaf("up", 70)
		lpk := pk()
		if rng.Intn(4) == 0 {
			// a cache that cannot be written to: a read that reports success has filled (repaired) the cache, one
			// that could not reports the failure
			lpk = "store-fails"
			plans[len(plans)-1] = lpk
		}
		lms, lmm := w.member(rng, "local", lpk, 35)
		var local desync.WriteStore = lms
		if shape == "repaircache" {
			local = desync.NewRepairableCache(lms)
		}
		real, model = desync.NewCache(up, local), mCache{up: mup, local: lmm, repair: shape == "repaircache", events: &events}
	case "chain":
		var fs []desync.Store
		mf := &mFailover{events: &events}
		for k := 0; k < 2+rng.Intn(2); k++ {
			r, m := leaf(fmt.Sprintf("f%d", k), 60)
			fs = append(fs, r)
			mf.stores = append(mf.stores, m)
		}
		d, md := leaf("d", 60)
		lms, lmm := w.member(rng, "local", pk(), 30)
		repair := rng.Intn(2) == 0
		var local desync.WriteStore = lms
		if repair {
			local = desync.NewRepairableCache(lms)
		}
		real = desync.NewCache(desync.NewStoreRouter(desync.NewFailoverGroup(fs...), d), local)
		model = mCache{up: mRouter{[]mStore{mf, md}}, local: lmm, repair: repair, events: &events}
		if repair {
			shape = "chain+repair"
		}
	}
	// the CLI wraps whatever it built into a de-duplication queue and a swap store: transparent for sequential use
	switch rng.Intn(4) {
	case 0:
		real = desync.NewDedupQueue(real)
		shape += "+dedup"
	case 1:
		real = desync.NewSwapStore(desync.NewDedupQueue(real))
		shape += "+dedup+swap"
	}
	nops := 3 + rng.Intn(25)
	c.Info("sequential shape=%s ids=%d ops=%d plans=%v", shape, len(w.ids), nops, plans)
	c.LogInfo()
	var hist []string
	kinds := map[string]bool{}
	for o := 0; o < nops; o++ {
		id := rng.Intn(len(w.ids))
		for _, mm := range w.model {
			mm.calls = nil
		}
		for _, ms := range w.real {
			ms.ResetLog()
		}
		before := events
		var got, want string
		if rng.Intn(3) == 0 {
			h, err := real.HasChunk(w.ids[id])
			got = fmt.Sprint(h)
			if err != nil {
				got = "error"
			}
			want = model.has(id)
			hist = append(hist, fmt.Sprintf("has(%d)=%s", id, got))
		} else {
			ch, err := real.GetChunk(w.ids[id])
			got = classify(ch, err, w.data[id])
			want = model.get(id)
			if want == "invalid" && strings.HasPrefix(shape, "router") {
				want = "error"
			}
			hist = append(hist, fmt.Sprintf("get(%d)=%s", id, got))
		}
		// the router wraps errors: an invalid chunk below a router surfaces as a (wrapped) failure; both classes are failures
		if got != want && !(isFailure(got) && isFailure(want)) {
			c.Violation("seq-result:"+strings.SplitN(shape, "+", 2)[0], "op %d %s: result class %q, the documented policy gives %q\nhistory: %s\nmodel calls: %v\nreal calls: %v", o, hist[len(hist)-1], got, want, strings.Join(hist, " "), modelCalls(w), realCalls(w))
			return
		}
		mc, rc := modelCalls(w), realCalls(w)
		if strings.Join(mc, ",") != strings.Join(rc, ",") {
			c.Violation("seq-calls:"+strings.SplitN(shape, "+", 2)[0], "op %d %s: member calls differ from the documented policy\nmodel: %v\nreal:  %v\nhistory: %s", o, hist[len(hist)-1], mc, rc, strings.Join(hist, " "))
			return
		}
		if events > before {
			kinds["policy-event"] = true
		}
		if len(rc) > 1 {
			kinds["multi-member"] = true
		}
	}
	// final content of the cache equals the model's
	if mm, ok := w.model["local"]; ok {
		for idx, id := range w.ids {
			_, has := w.real["local"].Holds(id)
			st, mhas := mm.content[idx]
			inv := w.real["local"].IsInvalid(id)
			if has != mhas || (has && inv != (st == "invalid")) {
				c.Violation("seq-cache-content", "cache content for id %d differs from the model after %s", idx, strings.Join(hist, " "))
			}
		}
	}
	c.Count("sequential_ops", int64(nops))
	c.Count("policy_events", int64(events))
	if len(kinds) > 0 {
		var ks []string
		for k := range kinds {
			ks = append(ks, k)
		}
		sort.Strings(ks)
		sort.Strings(plans)
		c.NonTrivial("seq|%s|%v|%v", shape, plans, ks)
	}
	if len(hist) > 12 {
		hist = hist[:12]
	}
	c.Sample(map[string]interface{}{"leg": "sequential", "shape": shape, "plans": plans, "history": hist})
}

func sortStrings(s []string) { sort.Strings(s) }

func isFailure(s string) bool { return s == "error" || s == "invalid" }

func modelCalls(w *world) []string {
	var out []string
	var names []string
	for n := range w.model {
		names = append(names, n)
	}
	sort.Strings(names)
	for _, n := range names {
		out = append(out, w.model[n].calls...)
	}
	return out
}

func realCalls(w *world) []string {
	var out []string
	var names []string
	for n := range w.real {
		names = append(names, n)
	}
	sort.Strings(names)
	for _, n := range names {
		for _, cl := range w.real[n].Calls() {
			idx := -1
			for k, id := range w.ids {
				if id == cl.ID {
					idx = k
				}
			}
			out = append(out, fmt.Sprintf("%s:%s(%d)=%s", n, cl.Op, idx, cl.Result))
		}
	}
	return out
}

// ---------------------------------------------------------------------------
// concurrent legs

func gate(seed uint64) func(op string, id desync.ChunkID, n int64) {
	return func(op string, id desync.ChunkID, n int64) {
		r := mix(seed ^ uint64(n)*7919 ^ uint64(id[0]))
		switch r % 3 {
		case 0:
			runtime.Gosched()
		case 1:
			time.Sleep(time.Duration((r>>8)%200) * time.Microsecond)
		}
	}
}

func concFailover(c *harness.Ctx) {
	rng := c.Rng
	nm := 2 + rng.Intn(3)
	nreq := 40 + rng.Intn(100)
	workers := 4 + rng.Intn(28)
	healthy := rng.Intn(nm)
	var members []*dsu.MemStore
	var stores []desync.Store
	var ids []desync.ChunkID
	var datas [][]byte
	for r := 0; r < nreq; r++ {
		b := []byte(fmt.Sprintf("req-%d-%d", r, rng.Int63()))
		datas = append(datas, b)
		ids = append(ids, dsu.Sum(b))
	}
	for m := 0; m < nm; m++ {
		ms := dsu.NewMemStore(fmt.Sprintf("f%d", m))
		for r := range ids {
			ms.PutRaw(ids[r], datas[r])
		}
		if m != healthy {
			seed := uint64(rng.Int63())
			mode := rng.Intn(3)
			ms.Fault = func(op string, n int64, id desync.ChunkID) error {
				if mode == 0 || mix(seed^uint64(n))%2 == 0 {
					return dsu.ErrInjected{Msg: "down"}
				}
				return nil
			}
		}
		ms.Gate = gate(uint64(rng.Int63()))
		members = append(members, ms)
		stores = append(stores, ms)
	}
	ymode := 1 + rng.Intn(2)
	c.Info("concurrent failover members=%d healthy=%d requests=%d goroutines=%d ymode=%d", nm, healthy, nreq, workers, ymode)
	c.LogInfo()
	g := desync.NewFailoverGroup(stores...)
	y := dsu.NewYielder(ymode, uint64(rng.Int63()))
	y.Install()
	defer y.Remove()
	var next int64 = -1
	var wg sync.WaitGroup
	var mu sync.Mutex
	var fails []string
	hasOps := rng.Intn(2) == 0
	for wk := 0; wk < workers; wk++ {
		wg.Add(1)
		go func() {
			defer wg.Done()
			for {
				r := int(atomic.AddInt64(&next, 1))
				if r >= nreq {
					return
				}
				if hasOps && r%3 == 0 {
					h, err := g.HasChunk(ids[r])
					if err != nil || !h {
						mu.Lock()
						fails = append(fails, fmt.Sprintf("HasChunk request %d: %v %v", r, h, err))
						mu.Unlock()
					}
					continue
				}
				ch, err := g.GetChunk(ids[r])
				if cl := classify(ch, err, datas[r]); cl != "ok" {
					mu.Lock()
					fails = append(fails, fmt.Sprintf("GetChunk request %d: %s %v", r, cl, err))
					mu.Unlock()
				}
			}
		}()
	}
	wg.Wait()
	if len(fails) > 0 {
		c.Violation("failover-request-failed", "member %d stays healthy, yet: %s", healthy, strings.Join(fails[:min(len(fails), 5)], "; "))
	}
	perReq := map[desync.ChunkID]int{}
	total := 0
	for _, m := range members {
		for _, cl := range m.Calls() {
			perReq[cl.ID]++
			total++
		}
	}
	for id, n := range perReq {
		if n > nm {
			c.Violation("failover-too-many-attempts", "%d member calls for one request %x with %d members", n, id[:3], nm)
			break
		}
	}
	c.Count("failover_requests", int64(nreq))
	c.Count("failover_member_calls", int64(total))
	if total > nreq {
		c.NonTrivial("conc-failover|m%d|h%d|y%d|g%d", nm, healthy, ymode, workers/8)
	}
	c.Sample(map[string]interface{}{"leg": "concurrent-failover", "members": nm, "healthy": healthy, "requests": nreq, "member_calls": total})
}

func concCache(c *harness.Ctx) {
	rng := c.Rng
	nIDs := 1 + rng.Intn(4)
	workers := 4 + rng.Intn(20)
	up := dsu.NewMemStore("up")
	local := dsu.NewMemStore("local")
	var ids []desync.ChunkID
	var datas [][]byte
	for r := 0; r < nIDs; r++ {
		b := []byte(fmt.Sprintf("c-%d-%d", r, rng.Int63()))
		datas = append(datas, b)
		ids = append(ids, dsu.Sum(b))
		up.PutRaw(ids[r], b)
	}
	up.Gate = gate(uint64(rng.Int63()))
	local.Gate = gate(uint64(rng.Int63()))
	cache := desync.NewCache(up, desync.NewRepairableCache(local))
	c.Info("concurrent cache ids=%d goroutines=%d", nIDs, workers)
	c.LogInfo()
	type op struct {
		g      int64
		id     desync.ChunkID
		t0, t1 int64
		ok     bool
	}
	var mu sync.Mutex
	var ops []op
	var wg sync.WaitGroup
	for wk := 0; wk < workers; wk++ {
		wg.Add(1)
		seed := rng.Int63()
		go func() {
			defer wg.Done()
			r := rand.New(rand.NewSource(seed))
			g := dsu.Goid()
			for k := 0; k < 3+r.Intn(6); k++ {
				x := r.Intn(nIDs)
				o := op{g: g, id: ids[x], t0: dsu.Tick()}
				ch, err := cache.GetChunk(ids[x])
				o.t1 = dsu.Tick()
				o.ok = classify(ch, err, datas[x]) == "ok"
				mu.Lock()
				ops = append(ops, o)
				mu.Unlock()
				if !o.ok {
					return
				}
			}
		}()
	}
	wg.Wait()
	overl := 0
	for _, o := range ops {
		if !o.ok {
			c.Violation("cache-request-failed", "GetChunk through a healthy cache and upstream failed")
			return
		}
	}
	// an upstream call made by a request that started after a successful request of that ID had returned is illegal
	for _, u := range up.Calls() {
		if u.Op != "get" {
			continue
		}
		var req *op
		for k := range ops {
			if ops[k].g == u.G && ops[k].t0 < u.T0 && u.T1 < ops[k].t1 {
				req = &ops[k]
			}
		}
		if req == nil {
			continue
		}
		for _, o := range ops {
			if o.id == u.ID && o.t1 < req.t0 {
				c.Violation("cache-bypassed", "request [%d,%d] for %x went upstream although a request for it had completed successfully at %d (cache is healthy)", req.t0, req.t1, u.ID[:3], o.t1)
				return
			}
		}
	}
	for a := range ops {
		for b := a + 1; b < len(ops); b++ {
			if ops[a].id == ops[b].id && ops[a].t0 < ops[b].t1 && ops[b].t0 < ops[a].t1 {
				overl++
			}
		}
	}
	c.Count("cache_requests", int64(len(ops)))
	c.Count("cache_upstream_gets", up.CountOf("get"))
	if overl > 0 {
		c.NonTrivial("conc-cache|ids%d|g%d", nIDs, workers/4)
	}
	c.Sample(map[string]interface{}{"leg": "concurrent-cache", "ids": nIDs, "requests": len(ops), "upstream_gets": up.CountOf("get"), "overlapping_pairs": overl})
}

type swapIn struct {
	Swap bool
	V    int
}

func concSwap(c *harness.Ctx) {
	rng := c.Rng
	nStores := 2 + rng.Intn(3)
	workers := 2 + rng.Intn(8)
	nSwaps := 1 + rng.Intn(6)
	reqPer := 3 + rng.Intn(8)
	total := workers * reqPer
	var ids []desync.ChunkID
	var datas [][]byte
	for r := 0; r < total; r++ {
		b := []byte(fmt.Sprintf("s-%d-%d", r, rng.Int63()))
		datas = append(datas, b)
		ids = append(ids, dsu.Sum(b))
	}
	// in a third of the cases the members fail a fifth of their requests (with an error that is not "missing"): such a
	// request may fail, but it has to return, and so has every Swap that was waiting behind it
	flaky := rng.Intn(3) == 0
	fseed := uint64(rng.Int63())
	// the stores swapped in carry different names, or all the same one (a reload of the configuration naming the same
	// location: new connections, other options, a name says nothing about either)
	sameName := rng.Intn(2) == 0
	mk := func(k int) *dsu.MemStore {
		name := fmt.Sprintf("s%d", k)
		if sameName {
			name = "http://store.example/location"
		}
		ms := dsu.NewMemStore(name)
		for r := range ids {
			ms.PutRaw(ids[r], datas[r])
		}
		ms.Gate = gate(uint64(rng.Int63()))
		if flaky {
			ms.Fault = func(op string, n int64, id desync.ChunkID) error {
				if op != "store" && mix(fseed^uint64(n)*977^uint64(k))%5 == 0 {
					return dsu.ErrInjected{Msg: fmt.Sprintf("s%d %s#%d", k, op, n)}
				}
				return nil
			}
		}
		return ms
	}
	var all []*dsu.MemStore
	all = append(all, mk(0))
	writable := rng.Intn(2) == 0
	var ss *desync.SwapStore
	var sws *desync.SwapWriteStore
	if writable {
		sws = desync.NewSwapWriteStore(all[0])
		ss = &sws.SwapStore
	} else {
		ss = desync.NewSwapStore(dsu.ReadOnlyMem{M: all[0]})
	}
	ymode := 1 + rng.Intn(2)
	c.Info("concurrent swap stores=%d goroutines=%d swaps=%d requests=%d writable=%v ymode=%d", nStores, workers, nSwaps, total, writable, ymode)
	c.LogInfo()
	y := dsu.NewYielder(ymode, uint64(rng.Int63()))
	y.Install()
	defer y.Remove()
	var mu sync.Mutex
	var hist []porcupine.Operation
	var fails []string
	var wg sync.WaitGroup
	var next int64 = -1
	refused := 0
	for wk := 0; wk < workers; wk++ {
		wg.Add(1)
		go func(wk int) {
			defer wg.Done()
			for k := 0; k < reqPer; k++ {
				r := int(atomic.AddInt64(&next, 1))
				t0 := dsu.Tick()
				var cl string
				var err error
				var ch *desync.Chunk
				if writable && r%4 == 3 {
					err = sws.StoreChunk(desync.NewChunk(datas[r]))
					cl = "ok"
					if err != nil {
						cl = "error"
					}
				} else {
					ch, err = ss.GetChunk(ids[r])
					cl = classify(ch, err, datas[r])
				}
				t1 := dsu.Tick()
				mu.Lock()
				if cl != "ok" && !(flaky && cl == "error" && dsu.IsFault(err)) {
					fails = append(fails, fmt.Sprintf("request %d: %s %v", r, cl, err))
				}
				hist = append(hist, porcupine.Operation{ClientId: wk, Input: swapIn{false, r}, Call: t0, Return: t1})
				mu.Unlock()
			}
		}(wk)
	}
	wg.Add(1)
	go func() {
		defer wg.Done()
		for s := 1; s <= nSwaps; s++ {
			time.Sleep(time.Duration(rng.Intn(300)) * time.Microsecond)
			if writable && rng.Intn(3) == 0 {
				// a swap that must be refused (read-only store offered to a writable swap store): nothing may change,
				// in particular the store that stays installed must not be closed
				ro := mk(1000 + s)
				err := ss.Swap(dsu.ReadOnlyMem{M: ro})
				mu.Lock()
				refused++
				if err == nil {
					fails = append(fails, fmt.Sprintf("swap %d: a read-only store was accepted in place of a writable one", s))
				}
				if len(ro.Calls()) > 0 {
					fails = append(fails, fmt.Sprintf("swap %d: the refused store received requests", s))
				}
				cur := all[len(all)-1]
				if cur.Closed() {
					fails = append(fails, fmt.Sprintf("swap %d was refused (%v) but the store that stays installed (s%d) was closed", s, err, len(all)-1))
				}
				mu.Unlock()
			}
			ms := mk(s)
			mu.Lock()
			all = append(all, ms)
			mu.Unlock()
			t0 := dsu.Tick()
			var err error
			if writable {
				err = ss.Swap(ms)
			} else {
				err = ss.Swap(dsu.ReadOnlyMem{M: ms})
			}
			t1 := dsu.Tick()
			mu.Lock()
			if err != nil {
				fails = append(fails, fmt.Sprintf("swap %d: %v", s, err))
			}
			hist = append(hist, porcupine.Operation{ClientId: workers, Input: swapIn{true, s}, Call: t0, Return: t1})
			mu.Unlock()
		}
	}()
	wg.Wait()
	if len(fails) > 0 {
		c.Violation("swap-request-failed", "all stores are healthy and hold every chunk, yet: %s", strings.Join(fails[:min(len(fails), 5)], "; "))
	}
	// which member served which request
	served := map[int]int{}
	for k, ms := range all {
		if ms.AfterClose > 0 {
			c.Violation("swap-call-after-close", "store s%d received %d calls after it was closed by Swap", k, ms.AfterClose)
		}
		if ms.ClosedInFlight > 0 {
			c.Violation("swap-closed-in-flight", "store s%d was closed by Swap while %d requests were in flight on it", k, ms.ClosedInFlight)
		}
		for _, cl := range ms.Calls() {
			for r := range ids {
				if ids[r] == cl.ID {
					served[r] = k
				}
			}
		}
		if k < len(all)-1 && !ms.Closed() {
			c.Violation("swap-old-not-closed", "store s%d was swapped out but not closed", k)
		}
	}
	for k := range hist {
		in := hist[k].Input.(swapIn)
		if in.Swap {
			hist[k].Output = 0
		} else {
			hist[k].Output = served[in.V]
		}
	}
	model := porcupine.Model{
		Init: func() interface{} { return 0 },
		Step: func(st, in, out interface{}) (bool, interface{}) {
			i := in.(swapIn)
			if i.Swap {
				return true, i.V
			}
			return out.(int) == st.(int), st
		},
	}
	res := porcupine.CheckOperationsTimeout(model, hist, 20*time.Second)
	switch res {
	case porcupine.Illegal:
		c.Violation("swap-not-linearizable", "the history of Swap(v) and requests (observed serving store) is not linearizable against a register: %d operations", len(hist))
	case porcupine.Unknown:
		c.Count("porcupine_timeouts", 1)
	}
	c.Count("swap_requests", int64(total))
	c.Count("swap_swaps", int64(nSwaps))
	c.Count("swap_refused", int64(refused))
	c.Count("porcupine_histories", 1)
	distinctServers := map[int]bool{}
	for _, v := range served {
		distinctServers[v] = true
	}
	if len(distinctServers) > 1 {
		c.NonTrivial("conc-swap|s%d|g%d|w%v|y%d", nSwaps, workers, writable, ymode)
	}
	c.Sample(map[string]interface{}{"leg": "concurrent-swap", "goroutines": workers, "swaps": nSwaps, "requests": total, "stores_that_served": len(distinctServers), "linearizable": res == porcupine.Ok})
}
