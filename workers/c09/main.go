// C09: random-access reads through an index return exactly the blob's bytes.
package main

import (
	"bytes"
	"fmt"
	"io"
	"math/rand"
	"net/http"
	"net/http/httptest"
	"os"
	"os/exec"
	"path/filepath"
	"runtime"
	"strings"
	"sync"
	"sync/atomic"
	"time"

	"github.com/folbricht/desync"
	"github.com/hanwen/go-fuse/v2/fuse"

	"verif/dsu"
	"verif/harness"
)

var cli string

func main() {
	harness.Main(&harness.Config{
		Prop:  "C09",
		Level: "exploration",
		Rule: "PRNG histories of Seek(any whence; in range, at EOF, negative, past EOF) and Read(len 0..>blob) on IndexPos over blobs {empty, single chunk, runs of null chunks, many small chunks, repeated IDs}, " +
			"with store failures at request k (then healing); FUSE read requests (offset,size) in any order on several handles, sequentially and concurrently (-race), through go-fuse's in-process bridge; `desync cat -o -l` against blob slices. " +
			"Oracle: reference cursor over the blob (bytes, counts, EOF placement, cursor after every op incl. failed seeks) and the IndexPos cursor invariant via the verif inspector. " +
			"Non-trivial: history with >=1 read spanning a chunk boundary or a null chunk or following a failed seek/store error; distinct by (leg, blob class, sizes, events seen)",
		Assumptions:     []string{"index built with the independent reference chunker; in-memory store", "FUSE requests are issued through go-fuse's bridge in process, not by the kernel"},
		Cases:           cases,
		Run:             run,
		ParentSetup:     parentSetup,
		Setup:           func(c *harness.Ctx) { cli = os.Getenv("VERIF_CLI") },
		SpinIsViolation: true,
		MinNonTrivial:   20,
		RaceIsViolation: true,
		CaseTimeout:     60 * time.Second,
	})
}

func cases(tier string) int {
	if tier == "thorough" {
		return 300000
	}
	return 16000
}

func parentSetup(tier string, seed int64, work string) ([]string, error) {
	p, err := harness.BuildCLI(work, "desync-verif", "verif", false)
	if err != nil {
		return nil, err
	}
	return []string{"VERIF_CLI=" + p}, nil
}

func makeBlob(rng *rand.Rand, sz dsu.Sizes) (string, []byte) {
	switch rng.Intn(10) {
	case 0:
		return "empty", nil
	case 1:
		return "single-chunk", dsu.MakeBlob(rng, "random", 1+rng.Intn(int(sz.Min)), sz)
	case 2, 3:
		// runs of null chunks between data
		var b []byte
		for k := 0; k < 1+rng.Intn(4); k++ {
			b = append(b, dsu.MakeBlob(rng, "random", rng.Intn(int(sz.Max)*3), sz)...)
			b = append(b, make([]byte, int(sz.Max)*(1+rng.Intn(4))+rng.Intn(int(sz.Max)))...)
		}
		return "null-runs", b
	case 4:
		return "zeros", make([]byte, rng.Intn(int(sz.Max)*8))
	case 5, 6:
		return "repetitive", dsu.MakeBlob(rng, "repetitive", rng.Intn(int(sz.Max)*30), sz)
	default:
		return "random", dsu.MakeBlob(rng, "random", rng.Intn(int(sz.Max)*30), sz)
	}
}

func run(c *harness.Ctx, i int) {
	rng := c.Rng
	desync.Digest = desync.SHA512256{}
	sz := dsu.SmallSizes[rng.Intn(4)]
	class, blob := makeBlob(rng, sz)
	idx := dsu.RefIndex(blob, sz)
	ms := dsu.NewMemStore("s")
	nullID := dsu.Sum(make([]byte, sz.Max))
	for _, ch := range idx.Chunks {
		if ch.ID == nullID && rng.Intn(2) == 0 {
			continue // the null chunk needs no store
		}
		ms.PutRaw(ch.ID, blob[ch.Start:ch.Start+ch.Size])
	}
	leg := []string{"readseeker", "readseeker", "readseeker", "fuse", "fuse-concurrent"}[rng.Intn(5)]
	if i%100 == 9 {
		leg = "cli"
	}
	c.Info("leg=%s class=%s len=%d sizes=%s chunks=%d", leg, class, len(blob), sz, len(idx.Chunks))
	c.LogInfo()
	switch leg {
	case "readseeker":
		readSeeker(c, rng, class, blob, idx, ms, sz)
	case "fuse":
		fuseLeg(c, rng, class, blob, idx, ms, sz, false)
	case "fuse-concurrent":
		fuseLeg(c, rng, class, blob, idx, ms, sz, true)
	case "cli":
		cliLeg(c, rng, class, blob, idx, sz)
	}
}

func chunkAt(idx desync.Index, pos int64) int {
	for k, ch := range idx.Chunks {
		if uint64(pos) >= ch.Start && uint64(pos) < ch.Start+ch.Size {
			return k
		}
	}
	return -1
}

func readSeeker(c *harness.Ctx, rng *rand.Rand, class string, blob []byte, idx desync.Index, ms *dsu.MemStore, sz dsu.Sizes) {
	failAt := int64(0)
	failLen := int64(0)
	if rng.Intn(3) == 0 {
		failAt = int64(1 + rng.Intn(6))
		failLen = int64(1 + rng.Intn(2))
	}
	errKind := rng.Intn(4) // plain error, bare io.EOF, error wrapping io.EOF, *url.Error{io.EOF}
	var deliveredFaults int64
	ms.Fault = func(op string, n int64, id desync.ChunkID) error {
		if failAt > 0 && n >= failAt && n < failAt+failLen {
			atomic.AddInt64(&deliveredFaults, 1)
			return dsu.FaultErr(errKind, fmt.Sprintf("get#%d", n))
		}
		return nil
	}
	ip := desync.NewIndexReadSeeker(idx, ms)
	L := int64(len(blob))
	var pos int64
	nullID := dsu.Sum(make([]byte, sz.Max))
	events := map[string]bool{}
	var hist []string
	nops := 5 + rng.Intn(120)
	for o := 0; o < nops; o++ {
		if rng.Intn(5) < 2 {
			// Seek
			whence := rng.Intn(3)
			var target int64
			switch rng.Intn(8) {
			case 0:
				target = L
			case 1:
				target = -1 - int64(rng.Intn(10))
			case 2:
				target = L + 1 + int64(rng.Intn(int(sz.Max)*2))
			case 3:
				if len(idx.Chunks) > 0 { // exactly a chunk boundary
					target = int64(idx.Chunks[rng.Intn(len(idx.Chunks))].Start)
				}
			case 4:
				// somewhere inside a null chunk, if there is one
				var nulls []int
				for k, ch := range idx.Chunks {
					if ch.ID == nullID {
						nulls = append(nulls, k)
					}
				}
				if len(nulls) > 0 {
					ch := idx.Chunks[nulls[rng.Intn(len(nulls))]]
					target = int64(ch.Start) + int64(rng.Intn(int(ch.Size)))
				} else if L > 0 {
					target = int64(rng.Intn(int(L)))
				}
			default:
				if L > 0 {
					target = int64(rng.Intn(int(L)))
				}
			}
			var off int64
			switch whence {
			case io.SeekStart:
				off = target
			case io.SeekCurrent:
				off = target - pos
			case io.SeekEnd:
				off = target - L
			}
			if rng.Intn(40) == 0 {
				whence = 7
			}
			got, err := ip.Seek(off, whence)
			hist = append(hist, fmt.Sprintf("Seek(%d,%d)->%d,%v", off, whence, got, err != nil))
			inRange := target >= 0 && target <= L && whence != 7
			switch {
			case err == nil:
				if !inRange && !(target > L && whence != 7) {
					c.Violation("seek-accepted-invalid", "Seek to %d (whence %d) in a blob of %d bytes succeeded\n%v", target, whence, L, tail(hist))
					return
				}
				if got != target {
					c.Violation("seek-result", "Seek returned %d, target %d\n%v", got, target, tail(hist))
					return
				}
				pos = target
			default:
				if inRange {
					c.Violation("seek-failed", "Seek to in-range position %d of %d failed: %v\n%v", target, L, err, tail(hist))
					return
				}
				events["failed-seek"] = true
				// cursor unchanged: checked by the next read (and the invariant below)
			}
		} else if rng.Intn(10) == 0 {
			// copy everything from the cursor to the end the way `cat` does (io.Copy uses WriteTo where a reader has one)
			var sink bytes.Buffer
			d0 := atomic.LoadInt64(&deliveredFaults)
			wn, err := io.Copy(&sink, ip)
			hist = append(hist, fmt.Sprintf("Copy@%d->%d,%v", pos, wn, err))
			if wn != int64(sink.Len()) || pos+wn > L || !bytes.Equal(sink.Bytes(), blob[pos:pos+wn]) {
				c.Violation("copy-bytes", "io.Copy from position %d of %d delivered %d bytes (reported %d) that differ from the blob\n%v", pos, L, sink.Len(), wn, tail(hist))
				return
			}
			injected := dsu.IsFault(err) || (err != nil && err != io.EOF && atomic.LoadInt64(&deliveredFaults) > d0)
			switch {
			case err == nil:
				if pos <= L && pos+wn != L {
					c.Violation("copy-short", "io.Copy from %d of %d stopped after %d bytes without error\n%v", pos, L, wn, tail(hist))
					return
				}
			case injected:
				events["store-error"] = true
			default:
				c.Violation("read-error", "io.Copy at %d of %d failed with a healthy store: %v\n%v", pos, L, err, tail(hist))
				return
			}
			if wn > 0 {
				events["copy-to-end"] = true
				if a := chunkAt(idx, pos); a >= 0 && idx.Chunks[a].ID == nullID && int64(idx.Chunks[a].Start) != pos {
					events["copy-from-inside-null-chunk"] = true
				}
			}
			pos += wn
		} else {
			var n int
			switch rng.Intn(6) {
			case 0:
				n = 0
			case 1:
				n = 1
			case 2:
				n = int(L) + 1 + rng.Intn(100)
			default:
				n = 1 + rng.Intn(int(sz.Max)*3)
			}
			p := make([]byte, n)
			d0 := atomic.LoadInt64(&deliveredFaults)
			got, err := ip.Read(p)
			hist = append(hist, fmt.Sprintf("Read(%d)@%d->%d,%v", n, pos, got, err))
			if got < 0 || got > n {
				c.Violation("read-count", "Read(%d) returned n=%d\n%v", n, got, tail(hist))
				return
			}
			if pos+int64(got) > L || !bytes.Equal(p[:got], blob[pos:pos+int64(got)]) {
				c.Violation("read-bytes", "Read(%d) at position %d returned %d bytes that differ from the blob\n%v", n, pos, got, tail(hist))
				return
			}
			injected := dsu.IsFault(err) || (err != nil && err != io.EOF && atomic.LoadInt64(&deliveredFaults) > d0)
			switch {
			case err == nil:
				want := int64(n)
				if L-pos < want {
					want = L - pos
				}
				if got == 0 && n > 0 {
					c.Violation("read-zero", "Read(%d) at %d of %d returned (0, nil)\n%v", n, pos, L, tail(hist))
					return
				}
				if int64(got) != want && pos < L {
					// io.Reader allows short reads, but here nothing can make one legitimate except EOF
					c.Violation("read-short", "Read(%d) at %d of %d returned %d bytes without error, %d were available\n%v", n, pos, L, got, want, tail(hist))
					return
				}
			case err == io.EOF:
				if pos+int64(got) != L {
					c.Violation("read-eof-placement", "EOF at position %d of %d\n%v", pos+int64(got), L, tail(hist))
					return
				}
			case injected:
				events["store-error"] = true
			default:
				c.Violation("read-error", "Read at %d of %d failed with a healthy store: %v\n%v", pos, L, err, tail(hist))
				return
			}
			if got > 0 {
				a, b := chunkAt(idx, pos), chunkAt(idx, pos+int64(got)-1)
				if a != b {
					events["span-boundary"] = true
				}
				if a >= 0 && idx.Chunks[a].ID == nullID {
					events["null-chunk"] = true
				}
				if events["failed-seek"] {
					events["read-after-failed-seek"] = true
				}
			}
			pos += int64(got)
		}
		// cursor invariant
		st := ip.VerifState()
		if st.Pos != pos {
			c.Violation("cursor-pos", "IndexPos.pos=%d, reference cursor=%d\n%v", st.Pos, pos, tail(hist))
			return
		}
		if len(idx.Chunks) > 0 {
			if st.CurChunkIdx < 0 || st.CurChunkIdx >= len(idx.Chunks) {
				c.Violation("cursor-idx", "curChunkIdx=%d of %d\n%v", st.CurChunkIdx, len(idx.Chunks), tail(hist))
				return
			}
			ch := idx.Chunks[st.CurChunkIdx]
			if st.CurChunkOffset < 0 || st.CurChunkOffset > int64(ch.Size) || int64(ch.Start)+st.CurChunkOffset != st.Pos {
				c.Violation("cursor-consistency", "pos=%d but chunk %d starts at %d and offset is %d (size %d)\n%v", st.Pos, st.CurChunkIdx, ch.Start, st.CurChunkOffset, ch.Size, tail(hist))
				return
			}
			if st.CurChunkID != ch.ID {
				c.Violation("cursor-id", "curChunkID is not the ID of chunk %d\n%v", st.CurChunkIdx, tail(hist))
				return
			}
			if len(st.CurChunk) > 0 && dsu.Sum(st.CurChunk) != st.CurChunkID {
				c.Violation("cursor-cache", "cached chunk data does not hash to curChunkID\n%v", tail(hist))
				return
			}
		}
	}
	// sequential read-all from the start
	if _, err := ip.Seek(0, io.SeekStart); err != nil {
		c.Violation("seek-failed", "Seek(0,Start) failed: %v", err)
		return
	}
	failAt = 0
	all, err := io.ReadAll(ip)
	if err != nil || !bytes.Equal(all, blob) {
		c.Violation("readall", "sequential read-all: err=%v, %d bytes, equal=%v", err, len(all), bytes.Equal(all, blob))
		return
	}
	c.Count("readseeker_ops", int64(nops))
	if len(events) > 0 {
		c.NonTrivial("rs|%s|%s|%v", class, sz, keys(events))
	}
	c.Sample(map[string]interface{}{"leg": "readseeker", "blob": class, "len": len(blob), "sizes": sz.String(), "ops": tail(hist), "events": keys(events)})
}

func keys(m map[string]bool) []string {
	var out []string
	for _, k := range []string{"failed-seek", "read-after-failed-seek", "store-error", "span-boundary", "null-chunk", "concurrent", "multi-handle", "at-eof", "beyond-eof"} {
		if m[k] {
			out = append(out, k)
		}
	}
	return out
}

func tail(h []string) []string {
	if len(h) > 14 {
		return h[len(h)-14:]
	}
	return h
}

// fuseInterrupt: a read request that the kernel interrupts while the store takes its time (the reading process got a
// signal), followed by further requests on the same handle, the store answering the old request only then. Whatever
// is answered with OK carries the blob's bytes of the range asked for.
func fuseInterrupt(c *harness.Ctx, rng *rand.Rand, class string, blob []byte, idx desync.Index, ms *dsu.MemStore) {
	L := len(blob)
	if L < 2 || len(idx.Chunks) < 3 {
		return
	}
	var stallOn int64 = 1 // the first store request stalls until released
	release := make(chan struct{})
	arrived := make(chan struct{}, 1)
	ms.Gate = func(op string, id desync.ChunkID, n int64) {
		if op == "get" && n == atomic.LoadInt64(&stallOn) {
			select {
			case arrived <- struct{}{}:
			default:
			}
			<-release
		}
	}
	ifs := desync.NewIndexMountFS(idx, "blob", ms)
	ff, err := dsu.MountBridge(ifs, "blob")
	if err != nil {
		c.Violation("fuse-lookup", "%v", err)
		return
	}
	fh, st := ff.Open()
	if st != fuse.OK {
		c.Violation("fuse-open", "open: %v", st)
		return
	}
	nullID := dsu.Sum(make([]byte, idx.Index.ChunkSizeMax))
	pick := func() (uint64, uint32) {
		for try := 0; ; try++ {
			ch := idx.Chunks[rng.Intn(len(idx.Chunks))]
			if ch.ID != nullID || try > 20 {
				off := ch.Start + uint64(rng.Intn(int(ch.Size)))
				return off, uint32(1 + rng.Intn(300))
			}
		}
	}
	type result struct {
		off  uint64
		size uint32
		b    []byte
		st   fuse.Status
	}
	start := func(cancel <-chan struct{}, off uint64, size uint32) chan result {
		out := make(chan result, 1)
		go func() {
			b, st := ff.ReadInterruptible(cancel, fh, off, size)
			out <- result{off, size, b, st}
		}()
		return out
	}
	cancel := make(chan struct{})
	o1, s1 := pick()
	r1 := start(cancel, o1, s1)
	select {
	case <-arrived:
	case res := <-r1:
		// served without the store (a chunk of zeros): nothing to interrupt
		r1 = make(chan result, 1)
		r1 <- res
	}
	close(cancel)
	// further requests on the same handle while the old store request is still pending
	var later []chan result
	for k := 0; k < 1+rng.Intn(3); k++ {
		o, s := pick()
		later = append(later, start(nil, o, s))
		for j := 0; j < 50; j++ {
			runtime.Gosched()
		}
	}
	time.Sleep(time.Duration(rng.Intn(3)) * time.Millisecond)
	close(release)
	all := []result{<-r1}
	for _, ch := range later {
		all = append(all, <-ch)
	}
	// and once everything has settled
	for k := 0; k < 3; k++ {
		o, s := pick()
		all = append(all, <-start(nil, o, s))
	}
	ff.Release(fh)
	for k, r := range all {
		if r.st != fuse.OK {
			if k > 0 {
				c.Violation("fuse-error-without-fault", "request %d (%d bytes at %d) on a handle whose first request was interrupted failed with %v although the store never failed", k, r.size, r.off, r.st)
				return
			}
			continue
		}
		want := blob[r.off:]
		if len(want) > int(r.size) {
			want = want[:r.size]
		}
		if !bytes.Equal(r.b, want) {
			where := "nowhere in the blob"
			if at := bytes.Index(blob, r.b); at >= 0 && len(r.b) > 8 {
				where = fmt.Sprintf("the bytes at %d", at)
			}
			c.Violation("fuse-bytes", "request %d (%d bytes at %d) on a handle whose first request was interrupted while the store stalled was answered OK with %d bytes that are %s (blob class %s)", k, r.size, r.off, len(r.b), where, class)
			return
		}
	}
	c.Count("fuse_interrupted_requests", 1)
	c.NonTrivial("fuse-interrupt|%s|%d", class, len(all))
}

func fuseLeg(c *harness.Ctx, rng *rand.Rand, class string, blob []byte, idx desync.Index, ms *dsu.MemStore, sz dsu.Sizes, concurrent bool) {
	if rng.Intn(6) == 0 {
		fuseInterrupt(c, rng, class, blob, idx, ms)
		return
	}
	ms.Gate = func(op string, id desync.ChunkID, n int64) {
		if concurrent && n%3 == 0 {
			time.Sleep(time.Duration(n%7) * 30 * time.Microsecond)
		}
	}
	// store faults: every k-th request fails (k from the PRNG), a read that met one must fail as a whole
	faulty := rng.Intn(3) == 0
	var faults int64
	if faulty {
		k := int64(2 + rng.Intn(5))
		errKind := rng.Intn(4)
		ms.Fault = func(op string, n int64, id desync.ChunkID) error {
			if n%k == 0 {
				atomic.AddInt64(&faults, 1)
				return dsu.FaultErr(errKind, fmt.Sprintf("get#%d", n))
			}
			return nil
		}
	}
	ifs := desync.NewIndexMountFS(idx, "blob", ms)
	ff, err := dsu.MountBridge(ifs, "blob")
	if err != nil {
		c.Violation("fuse-lookup", "%v", err)
		return
	}
	L := uint64(len(blob))
	if sizeNow, st := ff.GetSize(); st != fuse.OK || sizeNow != L {
		c.Violation("fuse-size", "getattr: size %d status %v, blob has %d bytes", sizeNow, st, L)
		return
	}
	nh := 1 + rng.Intn(4)
	var fhs []uint64
	for k := 0; k < nh; k++ {
		fh, st := ff.Open()
		if st != fuse.OK {
			c.Violation("fuse-open", "open: %v (blob class %s)", st, class)
			return
		}
		fhs = append(fhs, fh)
	}
	events := map[string]bool{}
	if nh > 1 {
		events["multi-handle"] = true
	}
	type req struct {
		h    int
		off  uint64
		size uint32
	}
	nreq := 10 + rng.Intn(80)
	reqs := make([]req, nreq)
	for k := range reqs {
		r := req{h: rng.Intn(nh)}
		switch rng.Intn(8) {
		case 0:
			r.off = L
		case 1:
			r.off = L + 1 + uint64(rng.Intn(5000))
		case 2:
			if len(idx.Chunks) > 0 {
				r.off = idx.Chunks[rng.Intn(len(idx.Chunks))].Start
			}
		default:
			if L > 0 {
				r.off = uint64(rng.Intn(int(L)))
			}
		}
		r.size = uint32(1 + rng.Intn(int(sz.Max)*3))
		if rng.Intn(10) == 0 {
			r.size = 131072
		}
		reqs[k] = r
	}
	var nviol int32
	check := func(r req) {
		b, st := ff.Read(fhs[r.h], r.off, r.size)
		if r.off > L {
			// beyond the end: an error or no data, never data
			if st == fuse.OK && len(b) > 0 {
				c.Violation("fuse-bytes-beyond-eof", "read at %d (size %d) of a %d byte file returned %d bytes", r.off, r.size, L, len(b))
				atomic.AddInt32(&nviol, 1)
			}
			return
		}
		if st != fuse.OK {
			if faulty {
				return // an error is the right answer to a store fault (short or altered data is not)
			}
			c.Violation("fuse-error", "read(off=%d,size=%d) of %d bytes failed with %v on a healthy store", r.off, r.size, L, st)
			atomic.AddInt32(&nviol, 1)
			return
		}
		want := blob[r.off:]
		if uint64(len(want)) > uint64(r.size) {
			want = want[:r.size]
		}
		if !bytes.Equal(b, want) {
			c.Violation("fuse-bytes", "read(off=%d,size=%d) returned %d bytes, expected %d; equal prefix=%v (handles=%d concurrent=%v)", r.off, r.size, len(b), len(want), len(b) <= len(want) && bytes.Equal(b, want[:len(b)]), nh, concurrent)
			atomic.AddInt32(&nviol, 1)
		}
	}
	for _, r := range reqs {
		if r.off == L {
			events["at-eof"] = true
		}
		if r.off > L {
			events["beyond-eof"] = true
		}
		if r.off < L {
			a, b := chunkAt(idx, int64(r.off)), chunkAt(idx, int64(minU(r.off+uint64(r.size), L))-1)
			if a != b {
				events["span-boundary"] = true
			}
		}
	}
	if concurrent {
		events["concurrent"] = true
		var wg sync.WaitGroup
		ch := make(chan req)
		for w := 0; w < 2+rng.Intn(6); w++ {
			wg.Add(1)
			go func() {
				defer wg.Done()
				for r := range ch {
					if atomic.LoadInt32(&nviol) == 0 {
						check(r)
					}
				}
			}()
		}
		for _, r := range reqs {
			ch <- r
		}
		close(ch)
		wg.Wait()
	} else {
		for _, r := range reqs {
			check(r)
			if nviol > 0 {
				break
			}
		}
	}
	for _, fh := range fhs {
		ff.Release(fh)
	}
	c.Count("fuse_requests", int64(nreq))
	c.Count("fuse_store_faults", atomic.LoadInt64(&faults))
	if faulty && atomic.LoadInt64(&faults) > 0 {
		events["store-error"] = true
	}
	if len(events) > 0 && nviol == 0 {
		c.NonTrivial("fuse|%s|%s|h%d|%v", class, sz, nh, keys(events))
	}
	c.Sample(map[string]interface{}{"leg": "fuse", "blob": class, "len": len(blob), "handles": nh, "concurrent": concurrent, "requests": nreq, "first_requests": fmt.Sprint(reqs[:min(5, len(reqs))])})
}

func minU(a, b uint64) uint64 {
	if a < b {
		return a
	}
	return b
}

func cliLeg(c *harness.Ctx, rng *rand.Rand, class string, blob []byte, idx desync.Index, sz dsu.Sizes) {
	dir := c.CaseDir()
	store := filepath.Join(dir, "store")
	_, err := dsu.FillLocalStore(store, blob, idx, false)
	dsu.Must(err)
	idxFile := filepath.Join(dir, "blob.caibx")
	dsu.Must(dsu.WriteIndex(idxFile, idx))
	L := len(blob)
	for k := 0; k < 6; k++ {
		off, length := 0, 0
		if L > 0 {
			off = rng.Intn(L + 1)
			length = rng.Intn(L - off + 1)
			if rng.Intn(3) == 0 {
				length = 0 // to the end of the blob
			}
			if nullID := dsu.Sum(make([]byte, sz.Max)); rng.Intn(3) == 0 {
				for _, ch := range idx.Chunks {
					if ch.ID == nullID && rng.Intn(2) == 0 {
						off = int(ch.Start) + rng.Intn(int(ch.Size))
						length = 0
						break
					}
				}
			}
		}
		args := []string{"cat", "-s", store}
		if k > 0 {
			args = append(args, "-o", fmt.Sprint(off))
			if length > 0 {
				args = append(args, "-l", fmt.Sprint(length))
			}
		} else {
			off, length = 0, 0
		}
		args = append(args, idxFile)
		// the output goes to STDOUT, or to a file named on the command line - which may exist already, holding more
		// than this run writes (an earlier, longer cat)
		outFile := ""
		if rng.Intn(3) == 0 {
			outFile = filepath.Join(dir, fmt.Sprintf("cat-out-%d", k))
			switch rng.Intn(3) {
			case 1:
				dsu.WriteFile(outFile, []byte("short"))
			case 2:
				junk := make([]byte, L+1+rng.Intn(5000))
				rng.Read(junk)
				dsu.WriteFile(outFile, junk)
			}
			args = append(args, outFile)
		}
		cmd := exec.Command(cli, args...)
		cmd.Env = append(os.Environ(), "HOME="+dir)
		var stdout, stderr bytes.Buffer
		cmd.Stdout, cmd.Stderr = &stdout, &stderr
		err := cmd.Run()
		want := blob[off:]
		if length > 0 {
			want = blob[off : off+length]
		}
		if err != nil {
			c.Violation("cli-error", "desync %v: %v\n%s", args, err, stderr.String())
			return
		}
		if outFile != "" {
			b, _ := os.ReadFile(outFile)
			stdout.Reset()
			stdout.Write(b)
			c.Count("cli_cat_into_a_file", 1)
		}
		if !bytes.Equal(stdout.Bytes(), want) {
			c.Violation("cli-bytes", "desync %v wrote %d bytes, expected %d (blob %d bytes)", args, stdout.Len(), len(want), L)
			return
		}
	}
	// the same through an HTTP store whose server hangs up without an answer whenever one particular chunk is asked
	// for: the command must fail, with or without -l, whatever it had written before
	if len(idx.Chunks) > 0 {
		ls, _ := desync.NewLocalStore(store, desync.StoreOptions{})
		victim := idx.Chunks[rng.Intn(len(idx.Chunks))]
		nullID := dsu.Sum(make([]byte, sz.Max))
		h := desync.NewHTTPHandler(ls, false, false, desync.Converters{desync.Compressor{}}, "")
		var hung int64
		srv := httptest.NewServer(http.HandlerFunc(func(w http.ResponseWriter, r *http.Request) {
			if strings.Contains(r.URL.Path, victim.ID.String()) {
				atomic.AddInt64(&hung, 1)
				if hj, ok := w.(http.Hijacker); ok {
					if conn, _, err := hj.Hijack(); err == nil {
						conn.Close()
						return
					}
				}
			}
			h.ServeHTTP(w, r)
		}))
		defer srv.Close()
		for k := 0; k < 2; k++ {
			args := []string{"cat", "-s", srv.URL, "-e", "0"}
			off := 0
			if rng.Intn(2) == 0 && L > 0 {
				off = rng.Intn(int(victim.Start) + 1)
				args = append(args, "-o", fmt.Sprint(off))
			}
			if k == 0 {
				// a length that reaches into or beyond the chunk that cannot be had
				args = append(args, "-l", fmt.Sprint(int(victim.Start)-off+1+rng.Intn(L-int(victim.Start))))
			}
			args = append(args, idxFile)
			before := atomic.LoadInt64(&hung)
			cmd := exec.Command(cli, args...)
			cmd.Env = append(os.Environ(), "HOME="+dir)
			var stdout, stderr bytes.Buffer
			cmd.Stdout, cmd.Stderr = &stdout, &stderr
			err := cmd.Run()
			asked := atomic.LoadInt64(&hung) > before
			if victim.ID == nullID {
				continue // served from memory, never requested
			}
			if err == nil && asked {
				c.Violation("cli-store-error-ignored", "desync %v exited 0 although the store hung up on the request for chunk %x (%d bytes written)", args, victim.ID[:4], stdout.Len())
				return
			}
			if !bytes.HasPrefix(blob[off:], stdout.Bytes()) {
				c.Violation("cli-bytes", "desync %v wrote bytes that are not the blob's", args)
				return
			}
			if asked {
				c.Count("cli_runs_with_hung_up_store", 1)
			}
		}
	}
	// a chunk whose stored object decodes to other bytes of the same length, read through a cache (-c): the command
	// must fail rather than write altered data (and must not have put the object into the cache under the good name)
	if len(idx.Chunks) > 0 {
		victim := idx.Chunks[rng.Intn(len(idx.Chunks))]
		if victim.ID != dsu.Sum(make([]byte, sz.Max)) && victim.Size > 0 {
			bad := append([]byte(nil), blob[victim.Start:victim.Start+victim.Size]...)
			bad[rng.Intn(len(bad))] ^= 0x20
			z, zerr := desync.Compress(bad)
			dsu.Must(zerr)
			sid := victim.ID.String()
			dsu.WriteFile(filepath.Join(store, sid[:4], sid+".cacnk"), z)
			cache := filepath.Join(dir, "cache")
			os.MkdirAll(cache, 0755)
			args := []string{"cat", "-s", store, "-c", cache}
			if rng.Intn(2) == 0 {
				args = append(args, "-o", fmt.Sprint(rng.Intn(int(victim.Start)+1)), "-l", fmt.Sprint(L))
			}
			off := 0
			if len(args) > 5 {
				fmt.Sscan(args[6], &off)
			}
			args = append(args, idxFile)
			cmd := exec.Command(cli, args...)
			cmd.Env = append(os.Environ(), "HOME="+dir)
			var stdout, stderr bytes.Buffer
			cmd.Stdout, cmd.Stderr = &stdout, &stderr
			err := cmd.Run()
			if !bytes.HasPrefix(blob[off:], stdout.Bytes()) {
				c.Violation("cli-altered-data", "desync %v (exit error: %v) wrote bytes that are not the blob's: the store holds altered data under chunk %x", args, err, victim.ID[:4])
				return
			}
			if err == nil {
				c.Violation("cli-store-error-ignored", "desync %v exited 0 although the store holds altered data under chunk %x", args, victim.ID[:4])
				return
			}
			if b, rerr := os.ReadFile(filepath.Join(cache, sid[:4], sid+".cacnk")); rerr == nil {
				if p, derr := desync.Decompress(nil, b); derr != nil || dsu.Sum(p) != victim.ID {
					c.Violation("cli-cache-poisoned", "desync %v left an object in the cache under chunk %x that does not hash to it", args, victim.ID[:4])
					return
				}
			}
			c.Count("cli_runs_with_altered_chunk", 1)
		}
	}
	c.Count("cli_cases", 1)
	c.NonTrivial("cli|%s|%s", class, sz)
	c.Sample(map[string]interface{}{"leg": "cli", "blob": class, "len": L})
}
