// C17: verify-index accepts a file if and only if it matches the index.
package main

import (
	"bytes"
	"context"
	"fmt"
	"os"
	"os/exec"
	"path/filepath"
	"time"

	"github.com/folbricht/desync"

	"verif/dsu"
	"verif/harness"
)

var cli string

func main() {
	harness.Main(&harness.Config{
		Prop:  "C17",
		Level: "exploration",
		Rule: "PRNG case list: blobs (random, zero runs with repeated chunk IDs, repetitive) with chunker-made indexes and hand-made equal-size-chunk indexes, 1..700 chunks, worker count n in 1..64 (batch size chunks/(10n)), " +
			"file mutation in {none, one byte changed in the first / last / a batch-boundary / a later duplicate-ID / a random chunk, truncated or extended by 1..max bytes, two equal-size chunks swapped, empty file vs empty index}; library VerifyIndex and `desync verify-index`. " +
			"Oracle: independent predicate (length equal and every range hashes to its ID) <=> nil / exit 0; on success the progress events sum to the chunk count. Non-trivial: a mutated file (must be rejected) or a matching file with >=2 batches; distinct by (mutation, chunk-count bucket, n bucket, index kind)",
		Assumptions:     []string{"independent predicate uses the Go standard library hash over the index ranges"},
		Cases:           cases,
		Run:             run,
		ParentSetup:     parentSetup,
		Setup:           func(c *harness.Ctx) { cli = os.Getenv("VERIF_CLI") },
		SpinIsViolation: true,
		MinNonTrivial:   20,
		RaceIsViolation: true,
		CaseTimeout:     120 * time.Second,
	})
}

func cases(tier string) int {
	if tier == "thorough" {
		return 600000
	}
	return 40000
}

func parentSetup(tier string, seed int64, work string) ([]string, error) {
	p, err := harness.BuildCLI(work, "desync-verif", "verif", false)
	if err != nil {
		return nil, err
	}
	return []string{"VERIF_CLI=" + p}, nil
}

func matches(data []byte, idx desync.Index) bool {
	if int64(len(data)) != idx.Length() {
		return false
	}
	for _, ch := range idx.Chunks {
		if dsu.Sum(data[ch.Start:ch.Start+ch.Size]) != ch.ID {
			return false
		}
	}
	return true
}

func run(c *harness.Ctx, i int) {
	rng := c.Rng
	desync.Digest = desync.SHA512256{}
	sz := dsu.Sizes{Min: 64, Avg: 128, Max: 256}
	if i%97 == 13 {
		devices(c)
		return
	}
	kind := []string{"chunker", "chunker", "equal-size", "zeros-mix"}[rng.Intn(4)]
	nchunksWanted := []int{0, 1, 2, 5, 9, 10, 11, 40, 100, 379, 700}[rng.Intn(11)]
	// indexes of thousands of (tiny) chunks with few workers: the batches handed to a worker then hold hundreds of
	// chunks, which is where anything that treats a batch in steps shows
	big := i%20 == 7
	if big {
		kind = "equal-size"
		nchunksWanted = []int{1000, 1500, 2500, 5000, 12000}[rng.Intn(5)]
	}
	var blob []byte
	var idx desync.Index
	switch kind {
	case "chunker":
		blob = dsu.MakeBlob(rng, []string{"random", "repetitive", "mixed"}[rng.Intn(3)], nchunksWanted*140, sz)
		idx = dsu.RefIndex(blob, sz)
	case "equal-size":
		cs := 32 + rng.Intn(200)
		if big {
			cs = 8 + rng.Intn(40)
		}
		blob = dsu.MakeBlob(rng, "random", nchunksWanted*cs, sz)
		idx = desync.Index{Index: desync.FormatIndex{FeatureFlags: desync.CaFormatSHA512256, ChunkSizeMin: uint64(cs), ChunkSizeAvg: uint64(cs), ChunkSizeMax: uint64(cs)}}
		for k := 0; k < nchunksWanted; k++ {
			idx.Chunks = append(idx.Chunks, desync.IndexChunk{Start: uint64(k * cs), Size: uint64(cs), ID: dsu.Sum(blob[k*cs : (k+1)*cs])})
		}
	case "zeros-mix":
		// random, long zero area (many chunks with the same ID), random
		blob = append(dsu.MakeBlob(rng, "random", 300+rng.Intn(2000), sz), make([]byte, 256*(2+nchunksWanted/3))...)
		blob = append(blob, dsu.MakeBlob(rng, "random", 300+rng.Intn(2000), sz)...)
		idx = dsu.RefIndex(blob, sz)
	}
	nc := len(idx.Chunks)
	n := 1 + rng.Intn(64)
	if rng.Intn(3) == 0 {
		n = []int{1, 2, 3, 10, 37, 64}[rng.Intn(6)]
	}
	if big {
		n = []int{1, 1, 2, 3, 10}[rng.Intn(5)]
	}
	batch := nc/(n*10) + 1
	mutation := []string{"none", "flip-first", "flip-last", "flip-last", "flip-boundary", "flip-random", "flip-duplicate", "truncate", "extend", "swap-equal", "flip-tail-batch"}[rng.Intn(11)]
	data := append([]byte(nil), blob...)
	flipIn := func(k int) {
		ch := idx.Chunks[k]
		data[ch.Start+uint64(rng.Intn(int(ch.Size)))] ^= 1 << uint(rng.Intn(8))
	}
	if big && rng.Intn(2) == 0 {
		mutation = "flip-round-offset"
	}
	switch {
	case nc == 0 && mutation != "extend":
		mutation = "none"
	case mutation == "flip-round-offset":
		// a chunk at a round position (or next to one) counted from the start of some batch
		o := []int{50, 64, 100, 128, 200, 250, 256, 300, 400, 500, 512, 1000}[rng.Intn(12)] + rng.Intn(3) - 1
		b := rng.Intn((nc + batch - 1) / batch)
		k := b*batch + o
		if o >= batch || k >= nc {
			k = rng.Intn(nc)
		}
		flipIn(k)
	case mutation == "flip-first":
		flipIn(0)
	case mutation == "flip-last":
		flipIn(nc - 1)
	case mutation == "flip-boundary":
		// first or last chunk of some batch
		b := rng.Intn((nc + batch - 1) / batch)
		k := b * batch
		if rng.Intn(2) == 0 {
			k = min(nc-1, k+batch-1)
		}
		flipIn(k)
	case mutation == "flip-tail-batch":
		// a chunk in the trailing partial batch
		k := nc - 1 - rng.Intn(min(nc, batch))
		flipIn(k)
	case mutation == "flip-random":
		flipIn(rng.Intn(nc))
	case mutation == "flip-duplicate":
		// a later occurrence of an ID that appeared before
		seen := map[desync.ChunkID]bool{}
		var dups []int
		for k, ch := range idx.Chunks {
			if seen[ch.ID] {
				dups = append(dups, k)
			}
			seen[ch.ID] = true
		}
		if len(dups) == 0 {
			flipIn(rng.Intn(nc))
			mutation = "flip-random"
		} else {
			flipIn(dups[rng.Intn(len(dups))])
		}
	case mutation == "truncate":
		data = data[:len(data)-1-rng.Intn(min(len(data), 256))]
	case mutation == "extend":
		data = append(data, dsu.MakeBlob(rng, "random", 1+rng.Intn(256), sz)...)
	case mutation == "swap-equal":
		if kind != "equal-size" || nc < 2 {
			mutation = "none"
		} else {
			a, b := rng.Intn(nc), rng.Intn(nc)
			ca, cb := idx.Chunks[a], idx.Chunks[b]
			tmp := append([]byte(nil), data[ca.Start:ca.Start+ca.Size]...)
			copy(data[ca.Start:], data[cb.Start:cb.Start+cb.Size])
			copy(data[cb.Start:], tmp)
		}
	}
	// mutations of the index instead of the file: an entry whose ID belongs to other data of a related shape
	if mutation == "none" && nc > 0 && rng.Intn(3) == 0 {
		idx.Chunks = append([]desync.IndexChunk(nil), idx.Chunks...)
		k := rng.Intn(nc)
		ch := idx.Chunks[k]
		switch rng.Intn(4) {
		case 0:
			// the range holds zeros and the entry carries the ID of the all-zero chunk of maximum size, but is shorter
			if ch.Size < idx.Index.ChunkSizeMax {
				for j := ch.Start; j < ch.Start+ch.Size; j++ {
					data[j] = 0
				}
				idx.Chunks[k].ID = dsu.Sum(make([]byte, idx.Index.ChunkSizeMax))
				mutation = "index-null-id-short"
			}
		case 1:
			// the ID of a prefix of the chunk
			if ch.Size > 1 {
				idx.Chunks[k].ID = dsu.Sum(data[ch.Start : ch.Start+ch.Size-1-uint64(rng.Intn(int(ch.Size-1)))])
				mutation = "index-id-of-prefix"
			}
		case 2:
			// the ID of the neighbouring chunk
			if nc > 1 {
				idx.Chunks[k].ID = idx.Chunks[(k+1)%nc].ID
				mutation = "index-id-of-neighbour"
			}
		case 3:
			// the ID of the all-zero chunk of this very size on data that is not zero
			idx.Chunks[k].ID = dsu.Sum(make([]byte, ch.Size))
			mutation = "index-zero-id"
		}
	}
	want := matches(data, idx)
	useCLI := i%40 == 5
	// a cancellation that arrives while a file that does NOT match is being verified must not turn into success
	cancelAt := int64(0)
	if !want && !useCLI && nc > 0 && rng.Intn(4) == 0 {
		cancelAt = 1 + rng.Int63n(int64(nc))
		if rng.Intn(2) == 0 {
			cancelAt = int64(nc) - int64(rng.Intn(min(nc, 3))) // near the end: after the last batch was handed out
		}
		mutation += "+cancel"
	}
	c.Info("kind=%s chunks=%d n=%d batch=%d mutation=%s matches=%v cli=%v", kind, nc, n, batch, mutation, want, useCLI)
	c.LogInfo()
	dir := c.CaseDir()
	file := filepath.Join(dir, "blob")
	if rng.Intn(4) == 0 {
		// the data file is named through a symlink
		real := filepath.Join(dir, "blob.real")
		dsu.WriteFile(real, data)
		os.Symlink(real, file)
		mutation += "|via-symlink"
	} else {
		dsu.WriteFile(file, data)
	}
	var err error
	pb := &dsu.CountPB{}
	if useCLI {
		// the index is a local file with an ordinary or an odd (but legal) name; next to it sits an index of OTHER
		// data under the name a careless URL-style treatment of the location would arrive at
		idxName := []string{"blob.caibx", "blob.caibx", "blob.caibx#new", "blob.caibx?rev=2", "blob%2Ecaibx", "blob v2 (final).caibx", "blob.caibx;1"}[rng.Intn(7)]
		other := dsu.RefIndex(dsu.MakeBlob(rng, "random", len(data)+1, sz), sz)
		if idxName != "blob.caibx" {
			dsu.Must(dsu.WriteIndex(filepath.Join(dir, "blob.caibx"), other))
		}
		idxFile := filepath.Join(dir, idxName)
		dsu.Must(dsu.WriteIndex(idxFile, idx))
		mutation += "|name:" + idxName
		cmd := exec.Command(cli, "verify-index", "-n", fmt.Sprint(n), idxFile, file)
		if st, lerr := exec.LookPath("strace"); lerr == nil && !want && rng.Intn(2) == 0 {
			// a read of the data file that fails once with a transient error (EAGAIN, injected into the k-th pread of
			// that file): whatever the command does about it, a file that does not match is not accepted
			k := 1 + rng.Intn(nc+1)
			cmd = exec.Command(st, "-f", "-o", "/dev/null", "-P", file, "-e", "trace=pread64", "-e", fmt.Sprintf("inject=pread64:error=EAGAIN:when=%d", k), cli, "verify-index", "-n", fmt.Sprint(n), idxFile, file)
			mutation += "|read-fault"
			c.Count("cli_runs_with_read_fault", 1)
		}
		cmd.Env = append(os.Environ(), "HOME="+dir)
		var stderr bytes.Buffer
		cmd.Stderr = &stderr
		err = cmd.Run()
		if bytes.Contains(stderr.Bytes(), []byte("panic:")) {
			c.Violation("cli-crash", "%s", stderr.String())
			return
		}
		c.Count("cli_runs", 1)
	} else {
		ctx, cancel := context.WithCancel(context.Background())
		if cancelAt > 0 {
			pb.OnAdd = func(k int64) {
				if k >= cancelAt {
					cancel()
				}
			}
			c.Count("cancelled_verifications_of_mismatching_files", 1)
		}
		err = desync.VerifyIndex(ctx, file, idx, n, pb)
		cancel()
	}
	if want && err != nil {
		c.Violation("matching-file-rejected", "file matches the index (%d chunks, n=%d) but verify-index failed: %v", nc, n, err)
		return
	}
	if !want && err == nil {
		c.Violation("mismatch-accepted:"+mutation, "file does not match the index (mutation %s, %d chunks, n=%d, batch=%d, index kind %s) but verify-index succeeded", mutation, nc, n, batch, kind)
		return
	}
	if want && !useCLI && len(data) > 0 && rng.Intn(3) == 0 {
		// a history within one process: the file verified fine; then a byte is altered in place, size and modification
		// time as before (silent corruption, a writer that restores the time stamps); the next verification must fail
		real := file
		if t, lerr := filepath.EvalSymlinks(file); lerr == nil {
			real = t
		}
		st, _ := os.Stat(real)
		pos := []int{0, len(data) - 1, rng.Intn(len(data))}[rng.Intn(3)]
		if f, oerr := os.OpenFile(real, os.O_WRONLY, 0); oerr == nil {
			f.WriteAt([]byte{data[pos] ^ 0x41}, int64(pos))
			f.Close()
			os.Chtimes(real, st.ModTime(), st.ModTime())
			if err2 := desync.VerifyIndex(context.Background(), file, idx, n, &dsu.CountPB{}); err2 == nil {
				c.Violation("mismatch-accepted:second-verification", "the file verified fine; then byte %d of %d was altered in place (same size, same mtime): the second verification in this process succeeded too (%d chunks, n=%d)", pos, len(data), nc, n)
				return
			}
			c.Count("second_verifications_rejected", 1)
		}
	}
	if want && !useCLI {
		if sum, _ := pb.Get(); sum != int64(nc) {
			c.Violation("progress-sum", "success, but progress events sum to %d for %d chunks (n=%d)", sum, nc, n)
			return
		}
	}
	nb := "1"
	if n > 1 {
		nb = "2-9"
	}
	if n > 9 {
		nb = "10-37"
	}
	if n > 37 {
		nb = "38-64"
	}
	cb := fmt.Sprint(nc)
	if nc > 11 {
		cb = "12-100"
	}
	if nc > 100 {
		cb = "100+"
	}
	if !want || (nc+batch-1)/batch >= 2 {
		c.NonTrivial("%s|%s|c%s|n%s|cli%v", mutation, kind, cb, nb, useCLI)
	}
	if !want {
		c.Count("mismatches_rejected", 1)
	} else {
		c.Count("matches_accepted", 1)
	}
	c.Sample(map[string]interface{}{"index": kind, "chunks": nc, "n": n, "batch": batch, "mutation": mutation, "matches": want, "cli": useCLI})
}

// devices: for device files the length is not compared; the content still has to match.
// /dev/zero matches any all-zero index, /dev/null (every read ends at once) matches none with chunks.
func devices(c *harness.Ctx) {
	rng := c.Rng
	sz := dsu.Sizes{Min: 64, Avg: 128, Max: 256}
	blob := make([]byte, 256*(1+rng.Intn(40))+rng.Intn(200))
	idx := dsu.RefIndex(blob, sz)
	n := 1 + rng.Intn(64)
	c.Info("devices: all-zero index of %d chunks, n=%d", len(idx.Chunks), n)
	c.LogInfo()
	if err := desync.VerifyIndex(context.Background(), "/dev/zero", idx, n, &dsu.CountPB{}); err != nil {
		c.Violation("device-match-rejected", "/dev/zero delivers the zeros an all-zero index describes, verify-index failed: %v", err)
		return
	}
	if err := desync.VerifyIndex(context.Background(), "/dev/null", idx, n, &dsu.CountPB{}); err == nil {
		c.Violation("mismatch-accepted:device-short", "/dev/null holds no data at all, yet verify-index accepted it for an index of %d bytes (n=%d)", idx.Length(), n)
		return
	}
	c.Count("device_cases", 1)
	c.NonTrivial("devices|c%d", min(len(idx.Chunks)/10, 4))
	c.Sample(map[string]interface{}{"leg": "devices", "chunks": len(idx.Chunks), "n": n})
}
