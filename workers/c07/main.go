// C07: a cancelled or interrupted operation never reports success unless its work is complete.
package main

import (
	"archive/tar"
	"bytes"
	"context"
	"fmt"
	"io"
	"math/rand"
	"net/http"
	"net/http/httptest"
	"os"
	"os/exec"
	"path/filepath"
	"sort"
	"strings"
	"sync"
	"sync/atomic"
	"syscall"
	"time"

	"github.com/folbricht/desync"

	"verif/dsu"
	"verif/harness"
)

var cli string

const slots = 40

func main() {
	harness.Main(&harness.Config{
		Prop:  "C07",
		Level: "fault_enumeration",
		Rule: "Scenarios (entry point in {AssembleFile with seeds, VerifyIndex on a file whose last chunk mismatches, ChopFile, Copy, ChunkStream, IndexFromFile, Tar, UnTar, UnTarIndex}, small input of ~8-14 jobs, N in {1,2,8}) x cancel slots: " +
			"slot 0 = no cancel, slot 1 = cancelled before the call, slots 2.. = cancel at the k-th hit of one site (feeder / worker / validation hook points, k-th store call, k-th progress event, k-th filesystem read/create) for k = 1,2,3,... (every k on these inputs). " +
			"CLI leg: extract (temp-file and -k; destination absent / regular file / symlink to a file), chop, cache, make, tar -i, untar -i, verify-index children; SIGINT or SIGTERM is sent while the k-th chunk request is held by the HTTP store, then the request is released. " +
			"Oracle (completeness): nil / exit 0 is accepted only when the product is complete (output == blob, every chunk stored, index covers the input, archive/tree complete, verify-index actually looked at the mismatching chunk); non-zero exit of extract without -k => destination path unchanged. " +
			"Non-trivial: the cancel/signal was delivered while the operation was running; distinct by (entry point, N, site, k)",
		Assumptions:     []string{"cancellation points are the hook points, store calls, progress events and filesystem callbacks; a cancel between two of them is equivalent to one at the next"},
		Cases:           cases,
		Run:             run,
		ParentSetup:     parentSetup,
		Setup:           func(c *harness.Ctx) { cli = os.Getenv("VERIF_CLI") },
		SpinIsViolation: true,
		MinNonTrivial:   20,
		RaceIsViolation: true,
		CaseTimeout:     90 * time.Second,
	})
}

func cases(tier string) int {
	if tier == "thorough" {
		return 3000 * slots
	}
	return 600 * slots
}

func parentSetup(tier string, seed int64, work string) ([]string, error) {
	p, err := harness.BuildCLI(work, "desync-verif", "verif", false)
	if err != nil {
		return nil, err
	}
	return []string{"VERIF_CLI=" + p}, nil
}

var entryPoints = []string{"assemble", "assemble", "verifyindex", "chop", "copy", "chunkstream", "indexfromfile", "tar", "untar", "untarindex", "cli", "cli"}

var sites = map[string][]string{
	"assemble":      {"assemble.feeder", "assemble.worker.job", "validate.feeder", "validate.worker.job", "assemble.beforeGetChunk", "assemble.worker.beforeAdd", "store"},
	"verifyindex":   {"verifyindex.feeder", "pb"},
	"chop":          {"chop.feeder", "store", "pb", "pb+fail"},
	"copy":          {"copy.feeder", "store", "pb", "pb+fail"},
	"chunkstream":   {"chunkstream.feeder", "store"},
	"indexfromfile": {"make.worker.loop", "make.worker.beforeSend", "make.sync.recv", "pb"},
	"tar":           {"fsread", "fsdata", "wbytes"},
	"untar":         {"fscreate"},
	"untarindex":    {"untarindex.feeder", "store", "fscreate", "pb"},
}

// ---- a small tree and its catar ----

func makeTree(rng *rand.Rand, dir string) {
	os.MkdirAll(dir, 0755)
	for d := 0; d < 3; d++ {
		sub := filepath.Join(dir, fmt.Sprintf("dir%d", d))
		os.MkdirAll(sub, 0755)
		for f := 0; f < 1+rng.Intn(2); f++ {
			b := make([]byte, rng.Intn(3000))
			rng.Read(b)
			dsu.WriteFile(filepath.Join(sub, fmt.Sprintf("f%d", f)), b)
		}
	}
	os.Symlink("dir0/f0", filepath.Join(dir, "link"))
	// the last entry of the walk is a regular file, often much larger than everything in front of it
	top := make([]byte, []int{8, 40000, 150000}[rng.Intn(3)])
	rng.Read(top)
	dsu.WriteFile(filepath.Join(dir, "top"), top)
}

func listTree(dir string) map[string]string {
	out := map[string]string{}
	filepath.Walk(dir, func(p string, info os.FileInfo, err error) error {
		if err != nil {
			return nil
		}
		rel, _ := filepath.Rel(dir, p)
		switch {
		case info.Mode()&os.ModeSymlink != 0:
			t, _ := os.Readlink(p)
			out[rel] = "L:" + t
		case info.IsDir():
			out[rel] = "D"
		default:
			b, _ := os.ReadFile(p)
			out[rel] = fmt.Sprintf("F:%x", dsu.Sum(b))
		}
		return nil
	})
	return out
}

type countingReader struct {
	fs     desync.FilesystemReader
	n      int64
	onCall func(n int64)
	// onData is called when the content of the d-th regular file starts to be read (d = 1, 2, ...)
	d      int64
	onData func(d int64)
}

func (r *countingReader) Next() (*desync.File, error) {
	n := atomic.AddInt64(&r.n, 1)
	if r.onCall != nil {
		r.onCall(n)
	}
	f, err := r.fs.Next()
	if err == nil && f != nil && f.Data != nil && r.onData != nil {
		f.Data = &firstRead{ReadCloser: f.Data, hit: func() { r.onData(atomic.AddInt64(&r.d, 1)) }}
	}
	return f, err
}

type cancelAfter struct {
	w     io.Writer
	after int64
	seen  int64
	fire  func()
}

func (c *cancelAfter) Write(p []byte) (int, error) {
	n, err := c.w.Write(p)
	c.seen += int64(n)
	if c.seen > c.after {
		c.fire()
	}
	return n, err
}

type firstRead struct {
	io.ReadCloser
	once sync.Once
	hit  func()
}

func (f *firstRead) Read(p []byte) (int, error) {
	f.once.Do(f.hit)
	return f.ReadCloser.Read(p)
}

type countingWriter struct {
	fs     desync.FilesystemWriter
	n      int64
	onCall func(n int64)
}

func (w *countingWriter) hit() {
	n := atomic.AddInt64(&w.n, 1)
	if w.onCall != nil {
		w.onCall(n)
	}
}
func (w *countingWriter) CreateDir(n desync.NodeDirectory) error { w.hit(); return w.fs.CreateDir(n) }
func (w *countingWriter) CreateFile(n desync.NodeFile) error     { w.hit(); return w.fs.CreateFile(n) }
func (w *countingWriter) CreateSymlink(n desync.NodeSymlink) error {
	w.hit()
	return w.fs.CreateSymlink(n)
}
func (w *countingWriter) CreateDevice(n desync.NodeDevice) error {
	w.hit()
	return w.fs.CreateDevice(n)
}

func run(c *harness.Ctx, i int) {
	desync.Digest = desync.SHA512256{}
	s, slot := i/slots, i%slots
	srng := harness.CaseRng(c.Seed^0xc07, s)
	ep := entryPoints[srng.Intn(len(entryPoints))]
	n := []int{1, 2, 8}[srng.Intn(3)]
	if ep == "cli" {
		runCLI(c, srng, s, slot)
		return
	}
	site, k := "", int64(0)
	switch {
	case slot == 0:
	case slot == 1:
		site = "before"
	default:
		ss := sites[ep]
		site = ss[(slot-2)%len(ss)]
		k = int64((slot-2)/len(ss) + 1)
	}
	sz := dsu.SmallSizes[srng.Intn(3)]
	blob := dsu.MakeBlob(srng, []string{"random", "repetitive", "zero-runs"}[srng.Intn(3)], int(sz.Avg)*(6+srng.Intn(8)), sz)
	idx := dsu.RefIndex(blob, sz)
	c.Info("scenario=%d entry=%s n=%d chunks=%d cancel=%s@%d", s, ep, n, len(idx.Chunks), site, k)
	c.LogInfo()

	ctx, cancel := context.WithCancel(context.Background())
	defer cancel()
	var delivered int32
	fire := func() {
		if atomic.CompareAndSwapInt32(&delivered, 0, 1) {
			cancel()
		}
	}
	if site == "before" {
		fire()
	}
	y := dsu.NewYielder(dsu.YieldTraced, uint64(srng.Int63()))
	y.OnHit = func(point string, hn int64) {
		if point == site && hn == k {
			fire()
		}
	}
	y.Install()
	defer y.Remove()
	// "pb+fail": cancelled at the k-th progress event, and every store request that comes after that fails (a shutdown
	// in which the connections go down too): an error on top of the cancellation must not come out as success
	pb := &dsu.CountPB{OnAdd: func(hn int64) {
		if (site == "pb" || site == "pb+fail") && hn == k {
			fire()
		}
	}}
	store := dsu.NewMemStore("s")
	fstore := &dsu.FaultStore{S: store, Before: func(op string, hn int64, id desync.ChunkID) error {
		if site == "store" && hn == k {
			fire()
		}
		return nil
	}}
	fstoreAll := int64(0)
	fstore.Before = func(op string, hn int64, id desync.ChunkID) error {
		if site == "store" && atomic.AddInt64(&fstoreAll, 1) == k {
			fire()
		}
		if site == "pb+fail" && atomic.LoadInt32(&delivered) == 1 {
			return dsu.ErrInjected{Msg: "store request after the cancellation"}
		}
		return nil
	}
	dir := c.CaseDir()
	var err error
	complete := false
	detail := ""
	switch ep {
	case "assemble":
		for _, ch := range idx.Chunks {
			store.PutRaw(ch.ID, blob[ch.Start:ch.Start+ch.Size])
		}
		// a seed that covers part of the blob so that validation has work to do
		seedFile := filepath.Join(dir, "seed")
		seedBlob := append(append([]byte(nil), blob[:len(blob)/2]...), dsu.MakeBlob(srng, "random", 500, sz)...)
		dsu.WriteFile(seedFile, seedBlob)
		target := filepath.Join(dir, "out")
		seed, serr := desync.NewIndexSeed(target, seedFile, dsu.RefIndex(seedBlob, sz))
		dsu.Must(serr)
		_, err = desync.AssembleFile(ctx, target, idx, fstore, []desync.Seed{seed}, desync.AssembleOptions{N: n, InvalidSeedAction: desync.InvalidSeedAction(srng.Intn(3))})
		got, _ := os.ReadFile(target)
		complete = bytes.Equal(got, blob)
		detail = fmt.Sprintf("output has %d of %d bytes, equal=%v", len(got), len(blob), complete)
	case "verifyindex":
		// the file mismatches in its last chunk: success is never legitimate
		file := filepath.Join(dir, "blob")
		bad := append([]byte(nil), blob...)
		bad[len(bad)-1] ^= 1
		mismatch := srng.Intn(4) != 0
		if !mismatch {
			bad = blob
		}
		dsu.WriteFile(file, bad)
		err = desync.VerifyIndex(ctx, file, idx, n, pb)
		complete = !mismatch
		detail = fmt.Sprintf("file mismatches the index in its last chunk: %v", mismatch)
	case "chop":
		file := filepath.Join(dir, "blob")
		dsu.WriteFile(file, blob)
		err = desync.ChopFile(ctx, file, idx.Chunks, fstore, n, pb)
		complete, detail = allStored(store, idx, blob)
	case "copy":
		src := dsu.NewMemStore("src")
		var ids []desync.ChunkID
		for _, ch := range idx.Chunks {
			src.PutRaw(ch.ID, blob[ch.Start:ch.Start+ch.Size])
			ids = append(ids, ch.ID)
		}
		err = desync.Copy(ctx, ids, src, fstore, n, pb)
		complete, detail = allStored(store, idx, blob)
	case "chunkstream":
		ch, cerr := desync.NewChunker(bytes.NewReader(blob), sz.Min, sz.Avg, sz.Max)
		dsu.Must(cerr)
		var got desync.Index
		got, err = desync.ChunkStream(ctx, ch, fstore, n)
		if err == nil {
			ok, d := allStored(store, idx, blob)
			complete = ok && got.Length() == int64(len(blob)) && len(got.Chunks) == len(idx.Chunks)
			detail = fmt.Sprintf("index covers %d of %d bytes; %s", got.Length(), len(blob), d)
		}
	case "indexfromfile":
		file := filepath.Join(dir, "blob")
		big := dsu.MakeBlob(srng, "random", int(sz.Max)*(8+srng.Intn(10)), sz)
		dsu.WriteFile(file, big)
		var got desync.Index
		// (one worker as well: the last worker is then the only one, nobody is left to notice what it left out)
		got, _, err = desync.IndexFromFile(ctx, file, []int{1, n, n * 2}[s%3], sz.Min, sz.Avg, sz.Max, pb)
		ref := dsu.RefIndex(big, sz)
		complete = got.Length() == int64(len(big)) && len(got.Chunks) == len(ref.Chunks)
		detail = fmt.Sprintf("index covers %d of %d bytes", got.Length(), len(big))
	case "tar", "untar", "untarindex":
		tree := filepath.Join(dir, "tree")
		makeTree(srng, tree)
		var full bytes.Buffer
		dsu.Must(desync.Tar(context.Background(), &full, desync.NewLocalFS(tree, desync.LocalFSOptions{})))
		want := listTree(tree)
		switch ep {
		case "tar":
			var out bytes.Buffer
			rd := &countingReader{fs: desync.NewLocalFS(tree, desync.LocalFSOptions{}), onCall: func(hn int64) {
				if site == "fsread" && hn == k {
					fire()
				}
			}, onData: func(d int64) {
				if site == "fsdata" && d == k {
					fire()
				}
			}}
			// "wbytes": cancel once k/13 of the archive went out
			var w io.Writer = &out
			if site == "wbytes" {
				w = &cancelAfter{w: &out, after: int64(full.Len()) * k / 13, fire: fire}
			}
			err = desync.Tar(ctx, w, rd)
			complete = bytes.Equal(out.Bytes(), full.Bytes())
			detail = fmt.Sprintf("archive has %d of %d bytes", out.Len(), full.Len())
		case "untar", "untarindex":
			dst := filepath.Join(dir, "dst")
			os.MkdirAll(dst, 0755)
			wr := &countingWriter{fs: desync.NewLocalFS(dst, desync.LocalFSOptions{}), onCall: func(hn int64) {
				if site == "fscreate" && hn == k {
					fire()
				}
			}}
			if ep == "untar" {
				err = desync.UnTar(ctx, bytes.NewReader(full.Bytes()), wr)
			} else {
				csz := dsu.Sizes{Min: 256, Avg: 512, Max: 1024}
				cidx := dsu.RefIndex(full.Bytes(), csz)
				for _, ch := range cidx.Chunks {
					store.PutRaw(ch.ID, full.Bytes()[ch.Start:ch.Start+ch.Size])
				}
				err = desync.UnTarIndex(ctx, wr, cidx, fstore, n, pb)
			}
			got := listTree(dst)
			complete = fmt.Sprint(got) == fmt.Sprint(want)
			detail = fmt.Sprintf("%d of %d entries unpacked", len(got), len(want))
		}
	}
	y.Remove()
	wasDelivered := atomic.LoadInt32(&delivered) == 1
	c.Count("runs", 1)
	if wasDelivered {
		c.Count("cancels_delivered", 1)
	}
	if err == nil && !complete {
		c.Violation("success-on-incomplete:"+ep, "%s returned nil after cancel at %s@%d (delivered=%v) but the work is not complete: %s", ep, site, k, wasDelivered, detail)
		return
	}
	if err != nil && !wasDelivered && !(ep == "verifyindex" && !complete) {
		c.Violation("failed-without-cancel:"+ep, "%s failed although the context was never cancelled: %v", ep, err)
		return
	}
	if wasDelivered {
		if err != nil {
			c.Count("interrupted_errors", 1)
		} else {
			c.Count("completed_despite_cancel", 1)
		}
		c.NonTrivial("%s|n%d|%s|k%d", ep, n, site, k)
	}
	c.Sample(map[string]interface{}{"entry": ep, "n": n, "cancel_site": site, "k": k, "delivered": wasDelivered, "error": fmt.Sprint(err), "complete": complete, "detail": detail})
}

func allStored(store *dsu.MemStore, idx desync.Index, blob []byte) (bool, string) {
	missing := 0
	for _, ch := range idx.Chunks {
		if b, ok := store.Holds(ch.ID); !ok || !bytes.Equal(b, blob[ch.Start:ch.Start+ch.Size]) {
			missing++
		}
	}
	return missing == 0, fmt.Sprintf("%d of %d chunks missing from the target", missing, len(idx.Chunks))
}

// ---------------------------------------------------------------------------
// CLI leg: signal the child while the k-th chunk request is held.

func runCLI(c *harness.Ctx, srng *rand.Rand, s, slot int) {
	if slot >= 14 {
		c.Info("scenario=%d entry=cli slot=%d skipped", s, slot)
		return
	}
	cmdName := []string{"extract", "extract", "extract-k", "chop", "cache", "make", "tar", "tar-stdin", "untar", "verify-index"}[srng.Intn(10)]
	n := []int{1, 2, 8}[srng.Intn(3)]
	sig := []syscall.Signal{syscall.SIGINT, syscall.SIGTERM}[srng.Intn(2)]
	k := int64(slot) // 0: no signal
	sz := dsu.Sizes{Min: 1024, Avg: 2048, Max: 4096}
	blob := dsu.MakeBlob(srng, "random", 2048*(6+srng.Intn(8)), sz)
	idx := dsu.RefIndex(blob, sz)
	// (long-name: a file whose name leaves no room for the suffix of a temporary file next to it)
	destKind := []string{"absent", "regular", "symlink", "absent", "regular", "symlink", "long-name"}[srng.Intn(7)]
	untarToTar := "" // `untar --output-format gnu-tar`: the tar file written instead of a tree
	c.Info("scenario=%d entry=cli:%s n=%d chunks=%d signal=%v at request %d dest=%s", s, cmdName, n, len(idx.Chunks), sig, k, destKind)
	c.LogInfo()
	dir := c.CaseDir()
	store := dsu.NewMemStore("s")
	var reqs int64
	var childPid int64
	var delivered int32
	hold := func(h http.Handler) http.Handler {
		return http.HandlerFunc(func(w http.ResponseWriter, r *http.Request) {
			nreq := atomic.AddInt64(&reqs, 1)
			if k > 0 && nreq == k {
				var pid int64
				for w := 0; w < 2000 && pid == 0; w++ {
					if pid = atomic.LoadInt64(&childPid); pid == 0 {
						time.Sleep(time.Millisecond)
					}
				}
				if pid != 0 {
					syscall.Kill(int(pid), sig)
					atomic.StoreInt32(&delivered, 1)
					time.Sleep(30 * time.Millisecond) // let the handler run, then release the request
				}
			}
			h.ServeHTTP(w, r)
		})
	}
	srv := httptest.NewServer(hold(desync.NewHTTPHandler(store, true, false, desync.Converters{desync.Compressor{}}, "")))
	defer srv.Close()
	idxFile := filepath.Join(dir, "blob.caibx")
	file := filepath.Join(dir, "blob")
	dest := filepath.Join(dir, "dest")
	behind := filepath.Join(dir, "behind-the-link")
	old := []byte("previous content of the destination\n")
	var args []string
	env := []string{"HOME=" + dir}
	fill := func() {
		for _, ch := range idx.Chunks {
			store.PutRaw(ch.ID, blob[ch.Start:ch.Start+ch.Size])
		}
	}
	var wantTree map[string]string
	var wantArchiveLen int64
	var stdinFirst, stdinRest []byte
	switch cmdName {
	case "extract", "extract-k":
		fill()
		dsu.Must(dsu.WriteIndex(idxFile, idx))
		switch destKind {
		case "regular":
			dsu.WriteFile(dest, old)
		case "symlink":
			dsu.WriteFile(behind, old)
			os.Symlink(behind, dest)
		case "long-name":
			dest = filepath.Join(dir, strings.Repeat("d", 244+srng.Intn(12)))
			dsu.WriteFile(dest, old)
		}
		args = []string{"extract", "-n", fmt.Sprint(n), "-s", srv.URL, "-e", "1"}
		if cmdName == "extract-k" {
			args = append(args, "-k")
		}
		if srng.Intn(3) == 0 {
			args = append(args, "--print-stats") // rarely used reporting option: the exit status must not depend on it
		}
		args = append(args, idxFile, dest)
	case "chop":
		dsu.WriteFile(file, blob)
		dsu.Must(dsu.WriteIndex(idxFile, idx))
		args = []string{"chop", "-n", fmt.Sprint(n), "-s", srv.URL, "-e", "1", idxFile, file}
	case "make":
		dsu.WriteFile(file, blob)
		args = []string{"make", "-n", fmt.Sprint(n), "-m", "1:2:4", "-s", srv.URL, "-e", "1", idxFile, file}
	case "cache":
		fill()
		dsu.Must(dsu.WriteIndex(idxFile, idx))
		cacheDir := filepath.Join(dir, "cache")
		os.MkdirAll(cacheDir, 0755)
		args = []string{"cache", "-n", fmt.Sprint(n), "-s", srv.URL, "-c", cacheDir, "-e", "1", idxFile}
	case "tar":
		tree := filepath.Join(dir, "tree")
		makeTree(srng, tree)
		idxFile = filepath.Join(dir, "tree.caidx")
		args = []string{"tar", "-i", "-n", fmt.Sprint(n), "-m", "1:2:4", "-s", srv.URL, "-e", "1", idxFile, tree}
		var full bytes.Buffer
		dsu.Must(desync.Tar(context.Background(), &full, desync.NewLocalFS(tree, desync.LocalFSOptions{})))
		wantArchiveLen = int64(full.Len())
	case "tar-stdin":
		// the tree comes as a tar stream on stdin: one large member, then (after the signal) two tiny ones, so that
		// less than a chunk of archive is outstanding when the interruption arrives
		var ts bytes.Buffer
		tw := tar.NewWriter(&ts)
		// (the chunker reads far ahead: with small members the whole archive is still unchunked when the signal comes)
		big := make([]byte, []int{40, 300, 300, 2500, 20000 + srng.Intn(40000)}[srng.Intn(5)])
		srng.Read(big)
		mt := time.Unix(1500000000, 0)
		tw.WriteHeader(&tar.Header{Typeflag: tar.TypeDir, Name: "./", Mode: 0755, ModTime: mt})
		tw.WriteHeader(&tar.Header{Typeflag: tar.TypeReg, Name: "./a.bin", Mode: 0644, Size: int64(len(big)), ModTime: mt})
		tw.Write(big)
		tw.Flush()
		stdinFirst = append([]byte(nil), ts.Bytes()...)
		tw.WriteHeader(&tar.Header{Typeflag: tar.TypeReg, Name: "./b.txt", Mode: 0644, Size: 3, ModTime: mt})
		tw.Write([]byte("bbb"))
		tw.WriteHeader(&tar.Header{Typeflag: tar.TypeReg, Name: "./c.txt", Mode: 0644, Size: 3, ModTime: mt})
		tw.Write([]byte("ccc"))
		tw.Close()
		stdinRest = append([]byte(nil), ts.Bytes()[len(stdinFirst):]...)
		var full bytes.Buffer
		dsu.Must(desync.Tar(context.Background(), &full, desync.NewTarReader(bytes.NewReader(ts.Bytes()), desync.TarReaderOptions{})))
		wantArchiveLen = int64(full.Len())
		idxFile = filepath.Join(dir, "tree.caidx")
		args = []string{"tar", "-i", "--input-format", "tar", "-n", fmt.Sprint(n), "-m", "1:2:4", "-s", srv.URL, "-e", "1", idxFile, "-"}
	case "untar":
		tree := filepath.Join(dir, "tree")
		makeTree(srng, tree)
		wantTree = listTree(tree)
		var full bytes.Buffer
		dsu.Must(desync.Tar(context.Background(), &full, desync.NewLocalFS(tree, desync.LocalFSOptions{})))
		cidx := dsu.RefIndex(full.Bytes(), sz)
		for _, ch := range cidx.Chunks {
			store.PutRaw(ch.ID, full.Bytes()[ch.Start:ch.Start+ch.Size])
		}
		idxFile = filepath.Join(dir, "tree.caidx")
		dsu.Must(dsu.WriteIndex(idxFile, cidx))
		os.MkdirAll(dest, 0755)
		args = []string{"untar", "-i", "-n", fmt.Sprint(n), "-s", srv.URL, "-e", "1", idxFile, dest}
		if s%3 == 1 {
			// the other output format: a GNU tar file instead of a tree on disk
			untarToTar = filepath.Join(dir, "out.tar")
			args = []string{"untar", "-i", "--output-format", "gnu-tar", "-n", fmt.Sprint(n), "-s", srv.URL, "-e", "1", idxFile, untarToTar}
		}
	case "verify-index":
		// no store involved: slow the feeder down with a failpoint and signal after k*3 ms
		bad := append([]byte(nil), blob...)
		bad[len(bad)-1] ^= 1
		dsu.WriteFile(file, bad)
		dsu.Must(dsu.WriteIndex(idxFile, idx))
		env = append(env, "VERIF_FAILPOINTS=verifyindex.feeder=sleep(4)")
		args = []string{"verify-index", "-n", fmt.Sprint(n), idxFile, file}
	}
	cmd := exec.Command(cli, args...)
	cmd.Env = append(os.Environ(), env...)
	var stderr bytes.Buffer
	cmd.Stderr = &stderr
	cmd.Stdout = io.Discard
	var stdin io.WriteCloser
	if cmdName == "tar-stdin" {
		stdin, _ = cmd.StdinPipe()
	}
	dsu.Must(cmd.Start())
	atomic.StoreInt64(&childPid, int64(cmd.Process.Pid))
	if cmdName == "tar-stdin" {
		stdin.Write(stdinFirst)
		if k > 0 {
			// wait until the chunks of the first member are on their way, then interrupt, then deliver the rest
			for w := 0; w < 30 && atomic.LoadInt64(&reqs) < 2; w++ {
				time.Sleep(time.Millisecond)
			}
			time.Sleep(time.Duration(k) * time.Millisecond)
			if cmd.Process.Signal(sig) == nil {
				atomic.StoreInt32(&delivered, 1)
			}
			time.Sleep(5 * time.Millisecond)
		}
		stdin.Write(stdinRest)
		stdin.Close()
	}
	if cmdName == "verify-index" && k > 0 {
		time.Sleep(time.Duration(k*3) * time.Millisecond)
		if cmd.Process.Signal(sig) == nil {
			atomic.StoreInt32(&delivered, 1)
		}
	}
	err := cmd.Wait()
	wasDelivered := atomic.LoadInt32(&delivered) == 1
	c.Count("cli_runs", 1)
	if wasDelivered {
		c.Count("signals_delivered", 1)
	}
	if strings.Contains(stderr.String(), "panic:") {
		c.Violation("cli-crash", "desync %v: %v\n%s", args, err, stderr.String())
		return
	}
	complete, detail := false, ""
	switch cmdName {
	case "extract", "extract-k":
		got, _ := os.ReadFile(dest)
		complete = bytes.Equal(got, blob)
		detail = fmt.Sprintf("destination has %d bytes, blob %d", len(got), len(blob))
		if err != nil && cmdName == "extract" {
			// destination path must be untouched
			switch destKind {
			case "absent":
				if _, serr := os.Lstat(dest); serr == nil {
					c.Violation("dest-touched:absent", "extract exited non-zero (%v) but the destination now exists (%s)", err, detail)
					return
				}
			case "regular", "long-name":
				if !bytes.Equal(got, old) {
					c.Violation("dest-touched:regular", "extract exited non-zero (%v) but the destination file changed (%s)", err, detail)
					return
				}
			case "symlink":
				t, lerr := os.Readlink(dest)
				b, _ := os.ReadFile(behind)
				if lerr != nil || t != behind || !bytes.Equal(b, old) {
					c.Violation("dest-touched:symlink", "extract exited non-zero (%v) but the destination link or the file behind it changed (link err %v, %d bytes behind)", err, lerr, len(b))
					return
				}
			}
		}
	case "chop", "make":
		complete, detail = allStored(store, idx, blob)
		if cmdName == "make" && complete {
			_, serr := os.Stat(idxFile)
			complete = serr == nil
		}
	case "cache":
		cs, _ := desync.NewLocalStore(filepath.Join(dir, "cache"), desync.StoreOptions{})
		missing := 0
		for _, ch := range idx.Chunks {
			if ok, _ := cs.HasChunk(ch.ID); !ok {
				missing++
			}
		}
		complete, detail = missing == 0, fmt.Sprintf("%d of %d chunks missing from the cache", missing, len(idx.Chunks))
	case "tar", "tar-stdin":
		raw, rerr := os.ReadFile(idxFile)
		if rerr == nil {
			ix, perr := desync.IndexFromReader(bytes.NewReader(raw))
			if perr == nil {
				missing := 0
				for _, ch := range ix.Chunks {
					if _, ok := store.Holds(ch.ID); !ok {
						missing++
					}
				}
				complete, detail = missing == 0 && ix.Length() == wantArchiveLen, fmt.Sprintf("%d of %d chunks missing, index describes %d bytes of an archive of %d", missing, len(ix.Chunks), ix.Length(), wantArchiveLen)
			}
		} else {
			detail = "no index written"
		}
	case "untar":
		got := listTree(dest)
		if untarToTar != "" {
			// members of the tar file, by name and kind (content by digest)
			got = map[string]string{}
			if tf, oerr := os.Open(untarToTar); oerr == nil {
				tr := tar.NewReader(tf)
				for {
					h, terr := tr.Next()
					if terr != nil {
						break
					}
					name := filepath.Clean(h.Name)
					switch h.Typeflag {
					case tar.TypeDir:
						got[name] = "D"
					case tar.TypeSymlink:
						got[name] = "L:" + h.Linkname
					default:
						b, _ := io.ReadAll(tr)
						got[name] = fmt.Sprintf("F:%x", dsu.Sum(b))
					}
				}
				tf.Close()
			}
			if _, ok := got["."]; !ok {
				got["."] = "D"
			}
		}
		complete = fmt.Sprint(got) == fmt.Sprint(wantTree)
		detail = fmt.Sprintf("%d of %d entries unpacked", len(got), len(wantTree))
	case "verify-index":
		complete = false
		detail = "file mismatches the index in its last chunk"
	}
	if err == nil && !complete {
		c.Violation("success-on-incomplete:cli-"+cmdName, "desync %v exited 0 (signal %v at request %d delivered=%v) but the work is not complete: %s", args, sig, k, wasDelivered, detail)
		return
	}
	if err != nil && !wasDelivered && cmdName == "extract" && destKind == "long-name" {
		// no temporary file can be made next to such a name: failing (with the destination as it was) is fine
		c.Count("long_name_refused", 1)
	} else if err != nil && !wasDelivered && cmdName != "verify-index" {
		c.Violation("failed-without-signal:cli-"+cmdName, "desync %v failed without a signal: %v\n%s", args, err, stderr.String())
		return
	}
	if wasDelivered {
		if err != nil {
			c.Count("interrupted_errors", 1)
		} else {
			c.Count("completed_despite_cancel", 1)
		}
		c.NonTrivial("cli|%s|n%d|%v|k%d|%s", cmdName, n, sig, k, destKind)
	}
	keys := []string{}
	for kk := range wantTree {
		keys = append(keys, kk)
	}
	sort.Strings(keys)
	c.Sample(map[string]interface{}{"entry": "cli:" + cmdName, "n": n, "signal": sig.String(), "at_request": k, "delivered": wasDelivered, "exit_error": fmt.Sprint(err), "complete": complete, "detail": detail, "dest": destKind})
}
