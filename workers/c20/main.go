// C20: local chunk stores use casync's on-disk format; both formats coexist.
package main

import (
	"bytes"
	"context"
	"crypto/sha256"
	"fmt"
	"io"
	"net/http"
	"net/http/httptest"
	"net/url"
	"os"
	"os/exec"
	"path/filepath"
	"regexp"
	"sort"
	"strings"
	"sync"
	"sync/atomic"
	"time"

	"github.com/folbricht/desync"

	"verif/dsu"
	"verif/harness"
	"verif/oracle"
)

var cli, cliDD, zcheck string

func main() {
	harness.Main(&harness.Config{
		Prop:  "C20",
		Level: "exploration",
		Rule: "Chunks {1 byte, all zero, incompressible, text, repetitive, exactly max size, random sizes} stored into local stores by the default build (klauspost encoder; library StoreChunk, Copy between stores of either format, `desync chop`) and by a build with -tags datadog (libzstd 1.5.2 through cgo; `desync chop`), compressed and uncompressed; " +
			"each store is listed, every file checked (name = base/id[0:4]/id[.cacnk]; raw file == chunk bytes; .cacnk file = exactly one standard zstd frame by an own frame walker, decoding to the chunk under klauspost, under the datadog build (`desync verify`) and under the system's reference libzstd 1.5.4 through a cgo helper); the repository's fixture stores are read by both builds; " +
			"directories holding both formats of the same IDs are accessed by clients of either format (HasChunk, GetChunk, HTTP handler, Verify with repair, Prune): the other format's files are reported missing / never served and stay byte-identical. " +
			"Non-trivial: store written by one encoder and read by another decoder, or a mixed-format directory operation; distinct by (leg, writer, format, chunk class, operation)",
		Assumptions: []string{"casync itself is not available: 'casync-written stores' are the repository's fixture stores; the reference libzstd is the system's 1.5.4 and the vendored 1.5.2 of the datadog build"},
		Cases:       cases,
		Run:         run,
		ParentSetup: parentSetup,
		Setup: func(c *harness.Ctx) {
			cli = os.Getenv("VERIF_CLI")
			cliDD = os.Getenv("VERIF_CLI_DD")
			zcheck = os.Getenv("VERIF_ZCHECK")
		},
		MinNonTrivial: 20,
		CaseTimeout:   180 * time.Second,
	})
}

func cases(tier string) int {
	if tier == "thorough" {
		return 15000
	}
	return 800
}

func parentSetup(tier string, seed int64, work string) ([]string, error) {
	p, err := harness.BuildCLI(work, "desync-verif", "verif", false)
	if err != nil {
		return nil, err
	}
	dd, err := harness.BuildCLI(work, "desync-datadog", "verif datadog", false)
	if err != nil {
		return nil, fmt.Errorf("datadog build: %v", err)
	}
	z, err := harness.BuildHelper(work, "zstdcheck", "./helpers/zstdcheck", "")
	if err != nil {
		return nil, err
	}
	sh, err := harness.BuildHelper(work, "shim", "./helpers/shim", "verif")
	if err != nil {
		return nil, err
	}
	return []string{"VERIF_CLI=" + p, "VERIF_CLI_DD=" + dd, "VERIF_ZCHECK=" + z, "VERIF_SHIM=" + sh}, nil
}

var classes = []string{"one-byte", "zeros", "incompressible", "text", "repetitive", "max-size", "random-size", "already-compressed", "magic-prefix"}

func makeChunk(c *harness.Ctx, class string) []byte {
	rng := c.Rng
	switch class {
	case "one-byte":
		return []byte{byte(rng.Intn(256))}
	case "zeros":
		return make([]byte, 1+rng.Intn(70000))
	case "incompressible":
		b := make([]byte, 1000+rng.Intn(60000))
		rng.Read(b)
		return b
	case "text":
		return []byte(strings.Repeat("the quick brown fox jumps over the lazy dog\n", 1+rng.Intn(800)))
	case "repetitive":
		return dsu.MakeBlob(rng, "repetitive", 5000+rng.Intn(50000), dsu.Sizes{Min: 64, Avg: 128, Max: 256})
	case "already-compressed":
		// the chunk content is itself a compressed file (the first chunk of any .zst / .gz / .xz blob)
		inner := []byte(strings.Repeat("inner payload ", 1+rng.Intn(3000)))
		switch rng.Intn(3) {
		case 0:
			z, _ := desync.Compress(inner)
			return z
		case 1:
			return append([]byte{0x1f, 0x8b, 0x08, 0}, inner...)
		}
		return append([]byte{0xfd, '7', 'z', 'X', 'Z', 0}, inner...)
	case "magic-prefix":
		// starts with the magic number of the store's own compression format, followed by anything
		b := make([]byte, 4+rng.Intn(5000))
		rng.Read(b)
		copy(b, []byte{0x28, 0xb5, 0x2f, 0xfd})
		return b
	case "max-size":
		b := make([]byte, 262144)
		rng.Read(b[:rng.Intn(len(b))])
		return b
	}
	b := make([]byte, 1+rng.Intn(20000))
	rng.Read(b[:len(b)/2])
	return b
}

// checkStore lists dir and checks every file against the expected chunks (id -> plain bytes) in the given format.
func checkStore(c *harness.Ctx, what, dir string, uncompressed bool, want map[desync.ChunkID][]byte) bool {
	found := map[string]bool{}
	var cacnk []string
	ok := true
	filepath.Walk(dir, func(p string, info os.FileInfo, err error) error {
		if err != nil || info.IsDir() || !ok {
			return nil
		}
		rel, _ := filepath.Rel(dir, p)
		found[rel] = true
		return nil
	})
	for id, plain := range want {
		s := id.String()
		rel := s[:4] + "/" + s
		if !uncompressed {
			rel += ".cacnk"
		}
		if !found[rel] {
			c.Violation("layout:missing", "%s: chunk %s is not at %s (files: %v)", what, s[:10], rel, keys(found))
			return false
		}
		delete(found, rel)
		b, _ := os.ReadFile(filepath.Join(dir, rel))
		if uncompressed {
			if !bytes.Equal(b, plain) {
				c.Violation("raw-file-content", "%s: uncompressed chunk file %s does not hold the raw chunk bytes (%d vs %d bytes, starts %x)", what, rel, len(b), len(plain), b[:min(len(b), 8)])
				return false
			}
			continue
		}
		if _, err := oracle.WalkZstdFrame(b); err != nil {
			c.Violation("not-one-frame", "%s: %s is not exactly one standard zstd frame: %v", what, rel, err)
			return false
		}
		d, err := desync.Decompress(nil, b)
		if err != nil || !bytes.Equal(d, plain) {
			c.Violation("frame-content", "%s: %s does not decode (klauspost) to the chunk: %v", what, rel, err)
			return false
		}
		cacnk = append(cacnk, filepath.Join(dir, rel))
	}
	for rel := range found {
		c.Violation("layout:extra", "%s: unexpected file %s in the store", what, rel)
		return false
	}
	// reference libzstd
	if len(cacnk) > 0 {
		out, err := exec.Command(zcheck, cacnk...).CombinedOutput()
		if err != nil {
			c.Skip("zstdcheck: %v %s", err, out)
			return false
		}
		byFile := map[string]string{}
		for _, l := range strings.Split(string(out), "\n") {
			f := strings.Fields(l)
			if len(f) >= 2 && f[0] == "ERROR" {
				c.Violation("libzstd-rejects", "%s: reference libzstd: %s", what, l)
				return false
			}
			if len(f) == 4 && f[0] == "OK" {
				byFile[f[1]] = f[2]
			}
		}
		for id, plain := range want {
			s := id.String()
			f := filepath.Join(dir, s[:4], s+".cacnk")
			if byFile[f] != fmt.Sprintf("%x", sha256.Sum256(plain)) {
				c.Violation("libzstd-content", "%s: reference libzstd decodes %s to different bytes", what, s[:10])
				return false
			}
		}
		c.Count("frames_checked_by_libzstd", int64(len(cacnk)))
	}
	return ok
}

func keys(m map[string]bool) []string {
	var out []string
	for k := range m {
		out = append(out, k)
	}
	sort.Strings(out)
	if len(out) > 6 {
		out = out[:6]
	}
	return out
}

func cfgFor(dir string, stores map[string]bool) string {
	var parts []string
	for s, u := range stores {
		parts = append(parts, fmt.Sprintf("%q: {\"uncompressed\": %v}", s, u))
	}
	sort.Strings(parts)
	f := filepath.Join(dir, fmt.Sprintf("config-%d.json", len(parts)))
	dsu.WriteFile(f, []byte(`{"store-options": {`+strings.Join(parts, ",")+`}}`))
	return f
}

func run(c *harness.Ctx, i int) {
	rng := c.Rng
	desync.Digest = desync.SHA512256{}
	if i == 0 {
		fixtures(c)
		return
	}
	dir := c.CaseDir()
	leg := []string{"library", "copy", "cli-default", "cli-datadog", "mixed", "streaming-frames", "overlapping-writers"}[rng.Intn(7)]
	uncompressed := rng.Intn(2) == 0
	class := classes[rng.Intn(len(classes))]
	want := map[desync.ChunkID][]byte{}
	var order []desync.ChunkID
	for k := 0; k < 1+rng.Intn(5); k++ {
		cl := class
		if k > 0 {
			cl = classes[rng.Intn(len(classes))]
		}
		b := makeChunk(c, cl)
		id := dsu.Sum(b)
		if _, dup := want[id]; !dup {
			order = append(order, id)
		}
		want[id] = b
	}
	if strings.HasPrefix(leg, "cli-") && rng.Intn(2) == 0 {
		// many chunks: the command stores them from several workers at once
		for k := 0; k < 30+rng.Intn(40); k++ {
			b := make([]byte, 1+rng.Intn(200000))
			rng.Read(b[:len(b)/(1+rng.Intn(3))]) // partly random, partly zeros
			id := dsu.Sum(b)
			if _, dup := want[id]; !dup {
				order = append(order, id)
			}
			want[id] = b
		}
	}
	c.Info("leg=%s uncompressed=%v class=%s chunks=%d", leg, uncompressed, class, len(want))
	c.LogInfo()
	store := filepath.Join(dir, "store")
	os.MkdirAll(store, 0755)
	switch leg {
	case "library":
		s, err := desync.NewLocalStore(store, desync.StoreOptions{Uncompressed: uncompressed})
		dsu.Must(err)
		for _, id := range order {
			if err := s.StoreChunk(desync.NewChunk(want[id])); err != nil {
				c.Violation("store-failed", "%v", err)
				return
			}
		}
		if !checkStore(c, "library StoreChunk", store, uncompressed, want) {
			return
		}
		// the datadog build reads it
		if !ddVerify(c, dir, store, uncompressed, "store written by the default build") {
			return
		}
		c.NonTrivial("library|u%v|%s", uncompressed, class)
	case "copy":
		// chunks travel from a store of one format into a store of (possibly) the other
		srcU := rng.Intn(2) == 0
		src := filepath.Join(dir, "src")
		os.MkdirAll(src, 0755)
		ss, _ := desync.NewLocalStore(src, desync.StoreOptions{Uncompressed: srcU})
		for _, id := range order {
			dsu.Must(ss.StoreChunk(desync.NewChunk(want[id])))
		}
		ds, _ := desync.NewLocalStore(store, desync.StoreOptions{Uncompressed: uncompressed})
		how := rng.Intn(3)
		switch how {
		case 0:
			for _, id := range order {
				ch, err := ss.GetChunk(id)
				dsu.Must(err)
				dsu.Must(ds.StoreChunk(ch))
			}
		case 1:
			dsu.Must(desync.Copy(context.Background(), order, ss, ds, 2, desync.NullProgressBar{}))
		case 2:
			idx := desync.Index{Index: desync.FormatIndex{FeatureFlags: desync.CaFormatSHA512256, ChunkSizeMin: 1, ChunkSizeAvg: 1, ChunkSizeMax: 1 << 20}}
			var start uint64
			for _, id := range order {
				idx.Chunks = append(idx.Chunks, desync.IndexChunk{ID: id, Start: start, Size: uint64(len(want[id]))})
				start += uint64(len(want[id]))
			}
			idxFile := filepath.Join(dir, "x.caibx")
			dsu.Must(dsu.WriteIndex(idxFile, idx))
			cfg := cfgFor(dir, map[string]bool{src: srcU, store: uncompressed})
			cmd := exec.Command(cli, "--config", cfg, "cache", "-s", src, "-c", store, idxFile)
			cmd.Env = append(os.Environ(), "HOME="+dir)
			if out, err := cmd.CombinedOutput(); err != nil {
				c.Violation("cache-failed", "desync cache: %v %s", err, out)
				return
			}
		}
		if !checkStore(c, fmt.Sprintf("copy (method %d) from a store with uncompressed=%v", how, srcU), store, uncompressed, want) {
			return
		}
		c.NonTrivial("copy%d|src-u%v|dst-u%v|%s", how, srcU, uncompressed, class)
	case "cli-default", "cli-datadog":
		bin := cli
		if leg == "cli-datadog" {
			bin = cliDD
		}
		// chop a blob made of the chunks
		var blob []byte
		idx := desync.Index{Index: desync.FormatIndex{FeatureFlags: desync.CaFormatSHA512256, ChunkSizeMin: 1, ChunkSizeAvg: 1, ChunkSizeMax: 1 << 20}}
		for _, id := range order {
			idx.Chunks = append(idx.Chunks, desync.IndexChunk{ID: id, Start: uint64(len(blob)), Size: uint64(len(want[id]))})
			blob = append(blob, want[id]...)
		}
		file := filepath.Join(dir, "blob")
		dsu.WriteFile(file, blob)
		idxFile := filepath.Join(dir, "blob.caibx")
		dsu.Must(dsu.WriteIndex(idxFile, idx))
		cfgStore, argStore := store, store
		switch rng.Intn(3) {
		case 1:
			argStore = "store" // relative on the command line, absolute in the config
		case 2:
			cfgStore, argStore = "store", "./store"
		}
		entries := map[string]bool{cfgStore: uncompressed}
		// entries for neighbouring paths that say the opposite: a path the store's path merely starts with, its parent
		// directory, a sibling whose name starts with the store's. None of them is this store.
		if decoys := rng.Intn(3); decoys > 0 {
			if decoys == 2 && !uncompressed {
				delete(entries, cfgStore) // no entry of its own: the defaults apply, whatever the neighbours are told
			}
			for _, d := range []string{store[:len(store)-1-rng.Intn(3)], filepath.Dir(store), store + "-old", store + "2", filepath.Join(store, "sub")} {
				if rng.Intn(2) == 0 {
					entries[d] = !uncompressed
				}
			}
			c.Count("configs_with_entries_for_neighbouring_paths", 1)
		}
		cfg := cfgFor(dir, entries)
		cmd := exec.Command(bin, "--config", cfg, "chop", "-s", argStore, idxFile, file)
		cmd.Dir = dir
		cmd.Env = append(os.Environ(), "HOME="+dir)
		if out, err := cmd.CombinedOutput(); err != nil {
			c.Violation("chop-failed", "%s chop: %v %s", leg, err, out)
			return
		}
		if !checkStore(c, "store written by "+leg, store, uncompressed, want) {
			return
		}
		// the other build reads it
		if leg == "cli-datadog" {
			s, _ := desync.NewLocalStore(store, desync.StoreOptions{Uncompressed: uncompressed})
			for _, id := range order {
				ch, err := s.GetChunk(id)
				if err != nil {
					c.Violation("cross-read", "default build cannot read chunk %x written by the libzstd build: %v", id[:4], err)
					return
				}
				if b, _ := ch.Data(); !bytes.Equal(b, want[id]) {
					c.Violation("cross-read", "default build reads different bytes for %x", id[:4])
					return
				}
			}
		} else if !ddVerify(c, dir, store, uncompressed, "store written by desync chop (default build)") {
			return
		}
		if rng.Intn(3) == 0 {
			// a chunk server over that store that keeps a local cache (serving compressed or, with -u, uncompressed
			// chunks; the cache directory configured for either format): after every chunk went through it once the
			// cache directory is a store of its configured format like any other
			serveU, cacheU := rng.Intn(2) == 0, rng.Intn(2) == 0
			cache := filepath.Join(dir, "server-cache")
			os.MkdirAll(cache, 0755)
			scfg := cfgFor(dir, map[string]bool{store: uncompressed, cache: cacheU})
			addr, scmd, serr := dsu.StartServerCmd(func(addr string) *exec.Cmd {
				a := []string{"--config", scfg, "chunk-server", "-s", store, "-c", cache, "-l", addr}
				if serveU {
					a = append(a, "-u")
				}
				cmd := exec.Command(bin, a...)
				cmd.Env = append(os.Environ(), "HOME="+dir)
				return cmd
			})
			if serr == nil {
				u, _ := url.Parse("http://" + addr + "/")
				rs, rerr := desync.NewRemoteHTTPStore(u, desync.StoreOptions{Uncompressed: serveU, ErrorRetry: 1, ErrorRetryBaseInterval: time.Millisecond})
				dsu.Must(rerr)
				for _, id := range order {
					ch, gerr := rs.GetChunk(id)
					var b []byte
					if gerr == nil {
						b, gerr = ch.Data()
					}
					if gerr != nil || !bytes.Equal(b, want[id]) {
						dsu.StopServerCmd(scmd)
						c.Violation("chunk-server-with-cache", "chunk server (-u=%v) over a store with uncompressed=%v and a cache with uncompressed=%v did not deliver chunk %x: %v", serveU, uncompressed, cacheU, id[:4], gerr)
						return
					}
				}
				dsu.StopServerCmd(scmd)
				if !checkStore(c, fmt.Sprintf("cache directory of a chunk server (-u=%v, cache configured uncompressed=%v)", serveU, cacheU), cache, cacheU, want) {
					return
				}
				c.Count("chunk_server_caches_checked", 1)
			}
		}
		c.NonTrivial("%s|u%v|%s", leg, uncompressed, class)
	case "mixed":
		mixed(c, dir, store, uncompressed, want, order)
	case "overlapping-writers":
		// two clients of one directory store the same chunk at overlapping times: A (this format) is held between
		// writing and publishing its file while B (other format, or the same) stores the chunk and returns. Both
		// reported success, so both must find the chunk afterwards, each in its own format.
		sameFormat := rng.Intn(4) == 0
		a, _ := desync.NewLocalStore(store, desync.StoreOptions{Uncompressed: uncompressed})
		b, _ := desync.NewLocalStore(store, desync.StoreOptions{Uncompressed: uncompressed != !sameFormat})
		point := []string{"local.store.afterWrite", "local.store.beforeRename"}[rng.Intn(2)]
		for _, id := range order {
			var aG int64
			parked := make(chan struct{}, 1)
			release := make(chan struct{})
			y := dsu.NewYielder(dsu.YieldTraced, uint64(rng.Int63()))
			y.OnHit = func(p string, n int64) {
				if p == point && dsu.Goid() == atomic.LoadInt64(&aG) {
					select {
					case parked <- struct{}{}:
					default:
					}
					select {
					case <-release:
					case <-time.After(20 * time.Second):
					}
				}
			}
			y.Install()
			done := make(chan error, 1)
			go func() {
				atomic.StoreInt64(&aG, dsu.Goid())
				done <- a.StoreChunk(desync.NewChunk(want[id]))
			}()
			var errA error
			aDone := false
			select {
			case <-parked:
			case errA = <-done:
				aDone = true
			}
			errB := b.StoreChunk(desync.NewChunk(want[id]))
			close(release)
			if !aDone {
				errA = <-done
			}
			y.Remove()
			if errA != nil || errB != nil {
				c.Violation("overlapping-store-failed", "two clients storing chunk %s at overlapping times: %v / %v", id.String()[:10], errA, errB)
				return
			}
			for k, st := range []desync.LocalStore{a, b} {
				has, herr := st.HasChunk(id)
				ch, gerr := st.GetChunk(id)
				var data []byte
				if gerr == nil {
					data, gerr = ch.Data()
				}
				if !has || herr != nil || gerr != nil || !bytes.Equal(data, want[id]) {
					c.Violation("stored-chunk-missing", "clients A (uncompressed=%v) and B (uncompressed=%v) both stored chunk %s successfully at overlapping times (A held at %s), afterwards client %d finds: HasChunk=%v (%v), GetChunk: %v", uncompressed, uncompressed != !sameFormat, id.String()[:10], point, k, has, herr, gerr)
					return
				}
			}
			c.Count("overlapping_stores", 1)
		}
		c.NonTrivial("%s|u%v|same%v|%s|%s", leg, uncompressed, sameFormat, point, class)
	case "streaming-frames":
		// chunk files written the way casync writes them: libzstd streaming API, size not announced (frame with a
		// window descriptor instead of a content size). Both builds must read them.
		for _, id := range order {
			s := id.String()
			pf := filepath.Join(dir, "plain")
			dsu.WriteFile(pf, want[id])
			out := filepath.Join(store, s[:4], s+".cacnk")
			os.MkdirAll(filepath.Dir(out), 0755)
			if o, err := exec.Command(zcheck, "-c", pf, out).CombinedOutput(); err != nil {
				c.Skip("zstdcheck -c: %v %s", err, o)
				return
			}
			// the leg is only worth something if the frame really has casync's shape: no content size, a window descriptor
			fb, _ := os.ReadFile(out)
			if cs, err := oracle.WalkZstdFrame(fb); err != nil || cs != -1 || len(fb) < 6 || fb[4]&0x20 != 0 {
				c.Inconclusive("helper did not produce a streaming-style frame (content size %d, descriptor %x, %v)", cs, fb[4:6], err)
				return
			}
			c.Count("streaming_frames_written", 1)
		}
		if !checkStore(c, "store of libzstd streaming-API frames (casync style)", store, false, want) {
			return
		}
		ls, _ := desync.NewLocalStore(store, desync.StoreOptions{})
		for _, id := range order {
			ch, err := ls.GetChunk(id)
			if err != nil {
				c.Violation("casync-style-frame-rejected", "default build cannot read a standard zstd frame written with libzstd's streaming API for a chunk of %d bytes: %v", len(want[id]), err)
				return
			}
			if b, _ := ch.Data(); !bytes.Equal(b, want[id]) {
				c.Violation("casync-style-frame-rejected", "default build reads other bytes from a streaming-API frame")
				return
			}
		}
		var msgs bytes.Buffer
		if err := ls.Verify(context.Background(), 2, true, &msgs); err != nil || msgs.Len() > 0 {
			c.Violation("casync-style-frame-rejected", "verify --repair on a store of streaming-API frames: %v %s", err, msgs.String())
			return
		}
		if !ddVerify(c, dir, store, false, "store of streaming-API frames") {
			return
		}
		c.NonTrivial("streaming-frames|%s", class)
	}
	c.Count("stores_checked", 1)
	c.Sample(map[string]interface{}{"leg": leg, "uncompressed": uncompressed, "class": class, "chunks": len(want)})
}

var invalidRe = regexp.MustCompile(`does not match|invalid|error|Error`)

func ddVerify(c *harness.Ctx, dir, store string, uncompressed bool, what string) bool {
	cfg := cfgFor(dir, map[string]bool{store: uncompressed})
	cmd := exec.Command(cliDD, "--config", cfg, "verify", "-s", store)
	cmd.Env = append(os.Environ(), "HOME="+dir)
	out, err := cmd.CombinedOutput()
	if err != nil || invalidRe.Match(out) {
		c.Violation("libzstd-build-rejects", "%s: `desync verify` of the -tags datadog build: %v %s", what, err, out)
		return false
	}
	c.Count("stores_verified_by_datadog_build", 1)
	return true
}

// mixed: both formats in one directory; a client of one format never sees, serves, verifies or prunes the other's files.
func mixed(c *harness.Ctx, dir, store string, uncompressed bool, want map[desync.ChunkID][]byte, order []desync.ChunkID) {
	rng := c.Rng
	own, _ := desync.NewLocalStore(store, desync.StoreOptions{Uncompressed: uncompressed})
	other, _ := desync.NewLocalStore(store, desync.StoreOptions{Uncompressed: !uncompressed})
	// every chunk exists in the OTHER format only, except the first which exists in both
	for k, id := range order {
		dsu.Must(other.StoreChunk(desync.NewChunk(want[id])))
		if k == 0 {
			dsu.Must(own.StoreChunk(desync.NewChunk(want[id])))
		}
	}
	snap := func() map[string]string {
		m := map[string]string{}
		filepath.Walk(store, func(p string, info os.FileInfo, err error) error {
			if err == nil && !info.IsDir() {
				b, _ := os.ReadFile(p)
				rel, _ := filepath.Rel(store, p)
				m[rel] = fmt.Sprintf("%x", sha256.Sum256(b))
			}
			return nil
		})
		return m
	}
	before := snap()
	op := []string{"has-get", "http", "verify", "prune", "pull", "verify-while-other-prunes"}[rng.Intn(6)]
	switch op {
	case "verify-while-other-prunes":
		// the client of the other format removes one of ITS files from a directory this client's verify is walking
		// (at the moment this client reports an invalid chunk of its own from that directory): nothing of this
		// client's business, its verify carries on and reports what it has to report
		var xid desync.ChunkID
		rng.Read(xid[:])
		xid[2] &= 0x7f
		sx := xid.String()
		sy := sx[:4] + strings.Repeat("f", 60)
		xname, yname := sx, sy+".cacnk"
		xdata := []byte("content that does not hash to the name")
		if !uncompressed {
			xname, yname = sx+".cacnk", sy
			xdata, _ = desync.Compress(xdata)
		}
		dsu.WriteFile(filepath.Join(store, sx[:4], xname), xdata)
		dsu.WriteFile(filepath.Join(store, sx[:4], yname), []byte("a file of the other format"))
		hw := &hookWriter{onFirst: func() { os.Remove(filepath.Join(store, sx[:4], yname)) }}
		if err := own.Verify(context.Background(), 1, rng.Intn(2) == 0, hw); err != nil {
			c.Violation("verify-failed:other-format-file-vanished", "verify of a store configured uncompressed=%v failed because a file of the other format disappeared from a directory while it was walked: %v", uncompressed, err)
			return
		}
		if !strings.Contains(hw.buf.String(), sx) || strings.Contains(hw.buf.String(), sy) {
			c.Violation("verify-reports-other-format", "verify (uncompressed=%v) reported: %s", uncompressed, hw.buf.String())
			return
		}
		c.NonTrivial("mixed|%s|u%v", op, uncompressed)
		return

	case "pull":
		// the store served over the casync protocol (`desync pull`, the remote end of an ssh:// store), its format
		// taken from the config file of the serving side: the chunk in the store's own format arrives intact, the
		// ones that exist in the other format only are missing
		os.MkdirAll(filepath.Join(dir, ".config", "desync"), 0755)
		dsu.WriteFile(filepath.Join(dir, ".config", "desync", "config.json"), []byte(fmt.Sprintf(`{"store-options": {%q: {"uncompressed": %v}}}`, store, uncompressed)))
		oldHome := os.Getenv("HOME")
		os.Setenv("HOME", dir)
		os.Setenv("CASYNC_SSH_PATH", os.Getenv("VERIF_SHIM"))
		os.Setenv("CASYNC_REMOTE_PATH", cli)
		os.Unsetenv("SHIM_EVIL")
		u, _ := url.Parse("ssh://localhost" + store)
		rs, err := desync.NewRemoteSSHStore(u, desync.StoreOptions{N: 1})
		os.Setenv("HOME", oldHome)
		if err != nil {
			c.Skip("ssh shim: %v", err)
			return
		}
		for k, id := range order {
			ch, gerr := rs.GetChunk(id)
			if k == 0 {
				var b []byte
				if gerr == nil {
					b, gerr = ch.Data()
				}
				if gerr != nil || !bytes.Equal(b, want[id]) {
					c.Violation("pull-own-format-not-served", "`desync pull` on a store configured uncompressed=%v: the chunk it holds in that format did not arrive intact (%d bytes): %v", uncompressed, len(b), gerr)
					rs.Close()
					return
				}
				continue
			}
			if gerr == nil {
				c.Violation("serves-other-format", "`desync pull` on a store configured uncompressed=%v delivered a chunk that exists in the other format only", uncompressed)
				rs.Close()
				return
			}
			if k >= 2 {
				break
			}
		}
		rs.Close()
	case "has-get":
		for k, id := range order {
			has, err := own.HasChunk(id)
			_, gerr := own.GetChunk(id)
			_, missing := gerr.(desync.ChunkMissing)
			if k == 0 {
				if !has || gerr != nil {
					c.Violation("own-format-not-found", "chunk present in the client's own format: HasChunk=%v GetChunk err=%v", has, gerr)
					return
				}
				continue
			}
			if has || err != nil || !missing {
				c.Violation("sees-other-format", "client (uncompressed=%v) for a chunk that only exists in the other format: HasChunk=%v (%v), GetChunk err=%v", uncompressed, has, err, gerr)
				return
			}
		}
	case "http":
		var conv desync.Converters
		ext := ""
		if !uncompressed {
			conv = desync.Converters{desync.Compressor{}}
			ext = ".cacnk"
		}
		srv := httptest.NewServer(desync.NewHTTPHandler(own, false, false, conv, ""))
		defer srv.Close()
		for k, id := range order {
			s := id.String()
			for _, e := range []string{ext, map[bool]string{true: ".cacnk", false: ""}[uncompressed]} {
				resp, err := http.Get(srv.URL + "/" + s[:4] + "/" + s + e)
				if err != nil {
					continue
				}
				resp.Body.Close()
				if resp.StatusCode == 200 && (k != 0 || e != ext) {
					c.Violation("serves-other-format", "chunk server (uncompressed=%v) answered 200 for %s%s, which only exists in the other format / was asked for with the other format's name", uncompressed, s[:10], e)
					return
				}
			}
		}
		// a server of the OTHER format in front of the same client: what it sends under its own names is in its own
		// format (the chunk converted), never the store's files as they are
		var oconv desync.Converters
		oext := ""
		if uncompressed {
			oconv = desync.Converters{desync.Compressor{}}
			oext = ".cacnk"
		}
		osrv := httptest.NewServer(desync.NewHTTPHandler(own, false, false, oconv, ""))
		defer osrv.Close()
		s0 := order[0].String()
		if resp, err := http.Get(osrv.URL + "/" + s0[:4] + "/" + s0 + oext); err == nil {
			body, _ := io.ReadAll(resp.Body)
			resp.Body.Close()
			if resp.StatusCode == 200 {
				plain := body
				if uncompressed {
					var derr error
					if plain, derr = desync.Decompress(nil, body); derr != nil {
						c.Violation("serves-other-format", "compressing chunk server in front of an uncompressed store answered GET %s.cacnk with 200 and %d bytes that are no zstd frame: %v", s0[:10], len(body), derr)
						return
					}
				}
				if !bytes.Equal(plain, want[order[0]]) {
					c.Violation("serves-other-format", "chunk server (compressing=%v) in front of a store with uncompressed=%v answered 200 with bytes that are not the chunk in the server's format", uncompressed, uncompressed)
					return
				}
			}
		}
	case "verify":
		var msgs bytes.Buffer
		// damage the other format's copy of chunk 1 (if any): a verify of this format must neither report nor remove it
		if len(order) > 1 {
			s := order[1].String()
			p := filepath.Join(store, s[:4], s)
			if uncompressed {
				p += ".cacnk"
			}
			os.WriteFile(p, []byte("damaged"), 0644)
			before = snap()
		}
		if rng.Intn(2) == 0 {
			// the command, with the store's format (and possibly skip-verify, which people set for reading) in the config
			cfg := filepath.Join(dir, "verify-config.json")
			dsu.WriteFile(cfg, []byte(fmt.Sprintf(`{"store-options": {%q: {"uncompressed": %v, "skip-verify": %v}}}`, store, uncompressed, rng.Intn(2) == 0)))
			cmd := exec.Command(cli, "--config", cfg, "verify", "-r", "-n", fmt.Sprint(1+rng.Intn(4)), "-s", store)
			cmd.Env = append(os.Environ(), "HOME="+dir)
			cmd.Stderr = &msgs
			if err := cmd.Run(); err != nil {
				c.Violation("verify-failed", "desync verify: %v %s", err, msgs.String())
				return
			}
		} else if err := own.Verify(context.Background(), 1+rng.Intn(4), true, &msgs); err != nil {
			c.Violation("verify-failed", "%v", err)
			return
		}
		if msgs.Len() > 0 {
			c.Violation("verify-reports-other-format", "verify (uncompressed=%v, repair) reported: %s", uncompressed, msgs.String())
			return
		}
	case "prune":
		if err := own.Prune(context.Background(), map[desync.ChunkID]struct{}{}); err != nil {
			c.Violation("prune-failed", "%v", err)
			return
		}
		// own-format copy of chunk 0 goes, everything of the other format stays
		s := order[0].String()
		rel := s[:4] + "/" + s
		if !uncompressed {
			rel += ".cacnk"
		}
		delete(before, rel)
	}
	after := snap()
	if fmt.Sprint(before) != fmt.Sprint(after) {
		c.Violation("other-format-touched:"+op, "after %s by a client with uncompressed=%v the directory changed: before %d files, after %d", op, uncompressed, len(before), len(after))
		return
	}
	c.NonTrivial("mixed|%s|u%v", op, uncompressed)
}

// hookWriter calls onFirst when the first message is written to it.
type hookWriter struct {
	mu      sync.Mutex
	buf     bytes.Buffer
	onFirst func()
}

func (h *hookWriter) Write(p []byte) (int, error) {
	h.mu.Lock()
	defer h.mu.Unlock()
	if h.onFirst != nil {
		h.onFirst()
		h.onFirst = nil
	}
	return h.buf.Write(p)
}

// fixtures: the repository's stores (written by casync / earlier desync) are read by both builds and by libzstd.
func fixtures(c *harness.Ctx) {
	c.Info("fixture stores")
	c.LogInfo()
	n := 0
	for _, st := range []string{"/repo/testdata/blob1.store", "/repo/testdata/blob2.store", "/repo/cmd/desync/testdata/blob1.store", "/repo/cmd/desync/testdata/blob2.store"} {
		if _, err := os.Stat(st); err != nil {
			continue
		}
		s, _ := desync.NewLocalStore(st, desync.StoreOptions{})
		var files []string
		bad := false
		filepath.Walk(st, func(p string, info os.FileInfo, err error) error {
			if err != nil || info.IsDir() || !strings.HasSuffix(p, ".cacnk") || bad {
				return nil
			}
			id, _ := desync.ChunkIDFromString(strings.TrimSuffix(filepath.Base(p), ".cacnk"))
			b, _ := os.ReadFile(p)
			if _, err := oracle.WalkZstdFrame(b); err != nil {
				c.Inconclusive("frame walker rejects fixture %s: %v (check is broken)", p, err)
				bad = true
				return nil
			}
			if _, err := s.GetChunk(id); err != nil {
				c.Violation("fixture-unreadable", "%s: %v", p, err)
				bad = true
			}
			files = append(files, p)
			return nil
		})
		if bad {
			return
		}
		out, _ := exec.Command(zcheck, files...).CombinedOutput()
		if bytes.Contains(out, []byte("ERROR")) {
			c.Inconclusive("reference libzstd rejects fixture store %s: %s", st, out)
			return
		}
		cmd := exec.Command(cliDD, "verify", "-s", st)
		cmd.Env = append(os.Environ(), "HOME="+c.WorkDir)
		if o, err := cmd.CombinedOutput(); err != nil || invalidRe.Match(o) {
			c.Violation("fixture-libzstd-build", "datadog build verify of %s: %v %s", st, err, o)
			return
		}
		n += len(files)
	}
	c.Count("fixture_chunks", int64(n))
	if n > 0 {
		c.NonTrivial("fixtures")
	}
	c.Sample(map[string]interface{}{"leg": "fixtures", "chunks": n})
}
