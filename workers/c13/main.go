// C13: archives written by desync are well-formed casync catar.
package main

import (
	"archive/tar"
	"bytes"
	"context"
	"crypto/sha256"
	"errors"
	"fmt"
	"io"
	"math/rand"
	"os"
	"os/exec"
	"path/filepath"
	"sort"
	"strings"
	"sync"
	"time"

	"github.com/folbricht/desync"
	"golang.org/x/sys/unix"

	"verif/dsu"
	"verif/harness"
	"verif/oracle"
	"verif/treegen"
)

func main() {
	harness.Main(&harness.Config{
		Prop:  "C13",
		Level: "exploration",
		Rule: "Generated trees packed by desync.Tar from disk and from a tar stream: root fan-out every n in 0..130 (cases 1..131, every goodbye tree shape up to 7 levels) and PRNG fan-outs up to several thousand, nested directories, names of any length/bytes, several xattrs per entry, symlinks, devices, FIFOs and sockets present in the source (must be skipped cleanly). " +
			"Oracle: independent strict catar validator (element sizes, order ENTRY XATTR* then PAYLOAD/SYMLINK/DEVICE/children+GOODBYE, FILENAME always followed by ENTRY, sorted child names and xattrs, goodbye: item count, offsets, sizes, SipHash-2-4 of each name, binary-search-tree order, casync lookup finds every child, tail offset/size/marker), anchored on the casync-made fixtures flat/flatdir/nested/complex.catar; the reconstructed tree must equal the source listing. " +
			"Non-trivial: archive with a directory of >=2 children; distinct by (source, root fan-out, depth, features present)",
		Assumptions: []string{"validator and SipHash-2-4 written from the casync format description; anchored by the casync-made fixtures (which hold no xattrs: desync's NUL-terminated xattr value convention is taken as given)"},
		Cases:       cases,
		Run:         run,
		ParentSetup: func(tier string, seed int64, work string) ([]string, error) {
			p, err := harness.BuildCLI(work, "desync-verif", "verif", false)
			return []string{"VERIF_CLI=" + p}, err
		},
		MinNonTrivial: 20,
		CaseTimeout:   180 * time.Second,
	})
}

func cases(tier string) int {
	if tier == "thorough" {
		return 20000
	}
	return 1500
}

func modeBits(e treegen.Entry) uint64 {
	m := uint64(e.Mode)
	switch e.Kind {
	case "dir":
		m |= unix.S_IFDIR
	case "file":
		m |= unix.S_IFREG
	case "symlink":
		m |= unix.S_IFLNK
	case "chr":
		m |= unix.S_IFCHR
	case "blk":
		m |= unix.S_IFBLK
	}
	return m
}

func run(c *harness.Ctx, i int) {
	rng := c.Rng
	desync.Digest = desync.SHA512256{}
	if i == 0 {
		anchor(c)
		return
	}
	o := treegen.Options{MaxDepth: rng.Intn(5), MaxFanout: 1 + rng.Intn(12), FixedFanout: -1, Specials: rng.Intn(2) == 0, Devices: rng.Intn(2) == 0, Xattrs: rng.Intn(2) == 0, OddNames: rng.Intn(2) == 0, OddMeta: rng.Intn(2) == 0, ZeroMTime: true}
	if i <= 131 {
		o.FixedFanout = i - 1
	} else if rng.Intn(4) == 0 {
		o.FixedFanout = 131 + rng.Intn(500)
		if rng.Intn(4) == 0 {
			o.FixedFanout = 1025 + rng.Intn(600) // more than one readdir batch
		}
		if c.Tier == "thorough" && rng.Intn(10) == 0 {
			o.FixedFanout = 1000 + rng.Intn(4000)
		}
		o.MaxDepth = rng.Intn(2)
	}
	source := "disk"
	if i%5 == 3 {
		source = "tar-stream"
	}
	entries := treegen.Generate(rng, o)
	bigNested := 0
	if i > 131 && i%20 == 2 {
		// a very large directory that is NOT the root, with siblings in front of and behind it and below a parent: its
		// size enters the goodbye tables of every directory above it
		source = "disk"
		bigNested = []int{300, 1023, 1024, 1025, 1500, 2100, 3000}[rng.Intn(7)]
		mt := int64(1500000000_000000000)
		d := func(p string) { entries = append(entries, treegen.Entry{Path: p, Kind: "dir", Mode: 0755, MTime: mt}) }
		f := func(p string) {
			entries = append(entries, treegen.Entry{Path: p, Kind: "file", Mode: 0644, MTime: mt, Data: []byte(p)})
		}
		base := "zz-nest"
		if rng.Intn(2) == 0 {
			base = "0-nest" // sorts before most generated names
		}
		d(base)
		d(base + "/a-before")
		f(base + "/a-before/x")
		d(base + "/m-big")
		for k := 0; k < bigNested; k++ {
			f(fmt.Sprintf("%s/m-big/f%05d", base, k))
		}
		d(base + "/z-after")
		f(base + "/z-after/y")
		f(base + "/zz-last")
	}
	c.Info("source=%s entries=%d big-nested-dir=%d root-fanout=%d depth<=%d specials=%v devices=%v xattrs=%v oddnames=%v", source, len(entries), bigNested, o.FixedFanout, o.MaxDepth, o.Specials, o.Devices, o.Xattrs, o.OddNames)
	c.LogInfo()
	dir := c.CaseDir()
	root := filepath.Join(dir, "tree")
	var buf bytes.Buffer
	var want []treegen.Entry
	if source == "disk" {
		if err := treegen.Materialize(root, entries); err != nil {
			c.Skip("cannot materialize: %v", err)
			return
		}
		if err := desync.Tar(context.Background(), &buf, desync.NewLocalFS(root, desync.LocalFSOptions{})); err != nil {
			c.Violation("tar-failed", "Tar of a generated tree failed: %v", err)
			return
		}
		if i%10 == 4 && buf.Len() > 0 {
			// several archives encoded at the same time in one process (a server packing uploads, a library user): each
			// comes out as it does alone
			other := filepath.Join(dir, "other-tree")
			os.MkdirAll(filepath.Join(other, "sub"), 0755)
			for k := 0; k < 30; k++ {
				os.WriteFile(filepath.Join(other, "sub", fmt.Sprintf("f%02d", k)), []byte(strings.Repeat("x", k*7)), 0644)
			}
			var alone bytes.Buffer
			dsu.Must(desync.Tar(context.Background(), &alone, desync.NewLocalFS(other, desync.LocalFSOptions{})))
			var wg sync.WaitGroup
			outs := make([]bytes.Buffer, 6)
			errs := make([]error, 6)
			for g := range outs {
				wg.Add(1)
				go func(g int) {
					defer wg.Done()
					src := root
					if g%2 == 1 {
						src = other
					}
					errs[g] = desync.Tar(context.Background(), &outs[g], desync.NewLocalFS(src, desync.LocalFSOptions{}))
				}(g)
			}
			wg.Wait()
			for g := range outs {
				want := buf.Bytes()
				if g%2 == 1 {
					want = alone.Bytes()
				}
				if errs[g] != nil || !bytes.Equal(outs[g].Bytes(), want) {
					c.Violation("malformed-archive:concurrent", "six archives encoded at the same time: number %d (err %v, %d bytes) differs from the archive the same tree gives when it is encoded alone (%d bytes)", g, errs[g], outs[g].Len(), len(want))
					return
				}
			}
			c.Count("archives_encoded_concurrently", int64(len(outs)))
		}
		if i%5 == 2 && buf.Len() > 0 {
			// a destination that fails after k bytes (disk full, closed pipe), once or for good: Tar must not report success
			k := rng.Intn(buf.Len())
			if rng.Intn(2) == 0 {
				k = buf.Len() - 1 - rng.Intn(min(buf.Len(), 400)) // inside the last goodbye table
			}
			fw := &failingWriter{at: k, transient: rng.Intn(2) == 0}
			if ferr := desync.Tar(context.Background(), fw, desync.NewLocalFS(root, desync.LocalFSOptions{})); ferr == nil {
				c.Violation("write-error-lost", "Tar reported success although a write to its destination failed at byte %d of %d (transient=%v)", k, buf.Len(), fw.transient)
				return
			}
			c.Count("failing_destinations", 1)
		}
		if i%7 == 3 {
			// files that change size between the lstat and the read (log files, /proc-like files): the archive is either
			// refused or well-formed, never a payload header that disagrees with the bytes that follow it
			var ub bytes.Buffer
			ur := &unstableReader{fs: desync.NewLocalFS(root, desync.LocalFSOptions{}), rng: rng}
			uerr := desync.Tar(context.Background(), &ub, ur)
			if uerr == nil && ur.changed > 0 {
				if _, verr := oracle.ValidateCatar(ub.Bytes(), true); verr != nil {
					c.Violation("malformed-archive:unstable-file", "%d files delivered more or fewer bytes than their recorded size (%s); Tar reported success and the archive is malformed: %v", ur.changed, ur.how, verr)
					return
				}
			}
			if ur.changed > 0 {
				c.Count("archives_of_unstable_files", 1)
				c.NonTrivial("unstable|%s|err%v", ur.how, uerr != nil)
			}
		}
		for _, e := range entries {
			if e.Kind != "fifo" && e.Kind != "sock" {
				want = append(want, e)
			}
		}
	} else {
		// tar stream written by Go's archive/tar (PAX), entries in depth-first order
		var tb bytes.Buffer
		tw := tar.NewWriter(&tb)
		// the stream has no member for the root (and desync is asked to add one), or its own ("./", as `tar -C dir -cf
		// x.tar .` writes it) - and desync is sometimes asked to add one all the same
		rootStyle := []string{"none", "none", "own", "own+add", "none-no-add"}[rng.Intn(5)]
		pfx := ""
		if rootStyle == "own" || rootStyle == "own+add" {
			pfx = "./"
			tw.WriteHeader(&tar.Header{Typeflag: tar.TypeDir, Name: "./", Mode: 0755, ModTime: time.Unix(1500000000, 0), Format: tar.FormatPAX})
		}
		if rootStyle == "none-no-add" && rng.Intn(2) == 0 {
			tw.WriteHeader(&tar.Header{Typeflag: tar.TypeReg, Name: "0-first-member", Mode: 0644, Size: 3, ModTime: time.Unix(1500000000, 0), Format: tar.FormatPAX})
			tw.Write([]byte("abc"))
		}
		for _, e := range entries {
			if e.Path == "." || e.Kind == "fifo" || e.Kind == "sock" || e.Kind == "chr" || e.Kind == "blk" {
				continue
			}
			if strings.ContainsAny(e.Path, "\x00") || len(e.Path) > 3000 {
				continue
			}
			if e.Kind == "file" && !strings.Contains(e.Path, "/") && rng.Intn(6) == 0 {
				// names longer than a filesystem allows (PAX long names): only a tar stream can carry them
				e.Path = e.Path + strings.Repeat("L", 256+rng.Intn(700))
			}
			h := &tar.Header{Name: pfx + e.Path, Mode: int64(e.Mode & 0777), Uid: e.UID, Gid: e.GID, ModTime: time.Unix(0, e.MTime), Format: tar.FormatPAX}
			switch e.Kind {
			case "dir":
				h.Typeflag = tar.TypeDir
				h.Name += "/"
			case "file":
				h.Typeflag = tar.TypeReg
				h.Size = int64(len(e.Data))
			case "symlink":
				h.Typeflag = tar.TypeSymlink
				h.Linkname = e.Target
			}
			if err := tw.WriteHeader(h); err != nil {
				continue
			}
			if e.Kind == "file" {
				tw.Write(e.Data)
			}
			want = append(want, e)
		}
		orphan := rootStyle != "none-no-add" && rng.Intn(4) == 0
		a, b := "bb", "cc"
		if orphan {
			// a member whose directory has no member of its own, behind the members of a sibling directory (tar
			// --no-recursion -T list, archives of selected paths): it cannot be placed - refusing is fine, putting it
			// somewhere else is not
			mt := time.Unix(1500000000, 0)
			sib := []string{"bb", "cc", "b", "ccc"}
			a, b = sib[rng.Intn(2)], sib[rng.Intn(4)]
			if a == b {
				b = "cc"
				a = "bb"
			}
			tw.WriteHeader(&tar.Header{Typeflag: tar.TypeDir, Name: pfx + "zz9/", Mode: 0755, ModTime: mt, Format: tar.FormatPAX})
			tw.WriteHeader(&tar.Header{Typeflag: tar.TypeDir, Name: pfx + "zz9/" + a + "/", Mode: 0755, ModTime: mt, Format: tar.FormatPAX})
			tw.WriteHeader(&tar.Header{Typeflag: tar.TypeReg, Name: pfx + "zz9/" + a + "/x", Mode: 0644, Size: 1, ModTime: mt, Format: tar.FormatPAX})
			tw.Write([]byte("x"))
			tw.WriteHeader(&tar.Header{Typeflag: tar.TypeReg, Name: pfx + "zz9/" + b + "/y", Mode: 0644, Size: 1, ModTime: mt, Format: tar.FormatPAX})
			tw.Write([]byte("y"))
		}
		tw.Close()
		if orphan {
			var ob bytes.Buffer
			oerr := desync.Tar(context.Background(), &ob, desync.NewTarReader(bytes.NewReader(tb.Bytes()), desync.TarReaderOptions{AddRoot: rootStyle != "own"}))
			if oerr == nil {
				ogot, verr := oracle.ValidateCatar(ob.Bytes(), false)
				if verr != nil {
					c.Violation("malformed-archive:tar-stream-orphan", "tar stream with a member whose directory has no member: Tar reported success and the archive is malformed: %v", verr)
					return
				}
				var names []string
				found := false
				for _, g := range ogot {
					if strings.HasPrefix(g.Path, "zz9") {
						names = append(names, g.Path)
					}
					if strings.HasSuffix(g.Path, "zz9/"+b+"/y") || g.Path == "zz9/"+b+"/y" {
						found = true
					}
				}
				if !found {
					c.Violation("entries-misplaced:tar-stream-orphan", "tar stream with the members zz9/, zz9/%s/, zz9/%s/x, zz9/%s/y (no member for zz9/%s/): Tar reported success and the archive holds %v", a, a, b, b, names)
					return
				}
			}
			c.Count("tar_streams_with_an_orphan_member", 1)
			c.NonTrivial("tar-stream|orphan|err%v", oerr != nil)
			return
		}
		// only entries whose parents made it into the stream
		if rootStyle == "none-no-add" {
			// members without a root of any kind and none added (`tar cf - file1 file2 dir`): the first member becomes
			// the root of the archive; whatever follows cannot be placed. Refusing is fine, leaving members out is not.
			var nb bytes.Buffer
			nerr := desync.Tar(context.Background(), &nb, desync.NewTarReader(bytes.NewReader(tb.Bytes()), desync.TarReaderOptions{}))
			if nerr == nil {
				ngot, verr := oracle.ValidateCatar(nb.Bytes(), false)
				if verr != nil {
					c.Violation("malformed-archive:tar-stream-no-root", "Tar reported success and the archive is malformed: %v", verr)
					return
				}
				if len(ngot) < len(want) {
					c.Violation("entries-dropped:tar-stream-no-root", "tar stream of %d members without a root member, no root added: Tar reported success and the archive holds %d entries", len(want), len(ngot))
					return
				}
			}
			c.Count("tar_streams_without_root", 1)
			c.NonTrivial("tar-stream|no-root|err%v", nerr != nil)
			return
		}
		if i%2 == 1 && os.Getenv("VERIF_CLI") != "" && (rootStyle == "none" || rootStyle == "own") {
			// `desync tar -i` reading the stream from STDIN into a store: intact, cut short, or with a member Tar refuses
			// (a hard link) in the middle. Whatever the index of a run that exits 0 describes must be a well-formed archive.
			if !cliTarIndex(c, rng, dir, tb.Bytes(), rootStyle != "own") {
				return
			}
		}
		if err := desync.Tar(context.Background(), &buf, desync.NewTarReader(bytes.NewReader(tb.Bytes()), desync.TarReaderOptions{AddRoot: rootStyle != "own"})); err != nil {
			if rootStyle == "own+add" {
				// a root of its own and one added: refusing that is fine
				c.Count("tar_streams_refused", 1)
				c.NonTrivial("tar-stream|own+add|refused")
				return
			}
			c.Violation("tar-failed", "Tar from a tar stream (root member: %s) failed: %v", rootStyle, err)
			return
		}
		if rootStyle == "own+add" {
			if _, verr := oracle.ValidateCatar(buf.Bytes(), false); verr != nil {
				c.Violation("malformed-archive:tar-stream-two-roots", "tar stream with its own './' member packed with the add-root option: Tar reported success and the archive is malformed: %v", verr)
			}
			c.NonTrivial("tar-stream|own+add|accepted")
			return
		}
		if rootStyle == "own" {
			c.NonTrivial("tar-stream|own-root")
		}
	}
	if source == "disk" && i%4 == 1 && len(entries) < 400 {
		// the command line tool writing the archive to a path that may already hold something (an older, larger archive)
		out := filepath.Join(dir, "out.catar")
		prior := []string{"absent", "shorter", "longer", "longer-archive"}[rng.Intn(4)]
		switch prior {
		case "shorter":
			os.WriteFile(out, []byte("old"), 0644)
		case "longer":
			junk := make([]byte, buf.Len()+1+rng.Intn(5000))
			rng.Read(junk)
			os.WriteFile(out, junk, 0644)
		case "longer-archive":
			// a well-formed archive that is longer: this one followed by nothing but with a bigger tree
			var prev bytes.Buffer
			big := filepath.Join(dir, "prevtree")
			os.MkdirAll(filepath.Join(big, "d"), 0755)
			for k := 0; k < 40; k++ {
				os.WriteFile(filepath.Join(big, "d", fmt.Sprintf("f%d", k)), make([]byte, 200+buf.Len()/40), 0644)
			}
			desync.Tar(context.Background(), &prev, desync.NewLocalFS(big, desync.LocalFSOptions{}))
			os.WriteFile(out, prev.Bytes(), 0644)
		}
		cmd := exec.Command(os.Getenv("VERIF_CLI"), "tar", out, root)
		cmd.Env = append(os.Environ(), "HOME="+dir)
		if o, err := cmd.CombinedOutput(); err != nil {
			c.Violation("cli-tar-failed", "desync tar failed: %v %s", err, o)
			return
		}
		fileBytes, _ := os.ReadFile(out)
		if _, err := oracle.ValidateCatar(fileBytes, true); err != nil {
			c.Violation("malformed-archive:cli", "desync tar onto a path holding %s content wrote a file (%d bytes) the independent validator rejects: %v", prior, len(fileBytes), err)
			return
		}
		if !bytes.Equal(fileBytes, buf.Bytes()) {
			c.Violation("malformed-archive:cli", "desync tar wrote %d bytes that differ from the archive the library produces for the same tree (%d bytes); prior content: %s", len(fileBytes), buf.Len(), prior)
			return
		}
		c.Count("cli_archives_validated", 1)
		c.NonTrivial("cli|prior-%s", prior)
	}
	got, err := oracle.ValidateCatar(buf.Bytes(), source == "disk")
	if err != nil {
		c.Violation("malformed-archive:"+source, "independent validator rejects the archive (%d bytes, %d source entries): %v", buf.Len(), len(entries), err)
		return
	}
	// reconstructed tree == source listing
	gm := map[string]oracle.CatarEntry{}
	for _, g := range got {
		if _, dup := gm[g.Path]; dup {
			c.Violation("duplicate-entry", "path %q appears twice in the archive", g.Path)
			return
		}
		gm[g.Path] = g
	}
	wantPaths := 0
	for _, w := range want {
		if source == "tar-stream" && w.Path == "." {
			continue
		}
		wantPaths++
		g, ok := gm[w.Path]
		if !ok {
			c.Violation("entry-missing:"+source, "source entry %q (%s) is not in the archive", w.Path, w.Kind)
			return
		}
		if source == "disk" {
			if g.Mode != modeBits(w) || g.UID != uint64(w.UID) || g.GID != uint64(w.GID) || g.MTime != uint64(w.MTime) {
				c.Violation("entry-metadata", "%q: archive has mode %o uid %d gid %d mtime %d, source has mode %o uid %d gid %d mtime %d", w.Path, g.Mode, g.UID, g.GID, int64(g.MTime), modeBits(w), w.UID, w.GID, w.MTime)
				return
			}
			if fmt.Sprint(sorted(g.Xattrs)) != fmt.Sprint(sorted(w.Xattrs)) {
				c.Violation("entry-xattrs", "%q: archive has xattrs %q, source %q", w.Path, sorted(g.Xattrs), sorted(w.Xattrs))
				return
			}
			if (w.Kind == "chr" || w.Kind == "blk") && (g.Major != uint64(w.Major) || g.Minor != uint64(w.Minor)) {
				c.Violation("entry-device", "%q: archive has device %d,%d, source %d,%d", w.Path, g.Major, g.Minor, w.Major, w.Minor)
				return
			}
		} else if g.Mode&0170000 != modeBits(w)&0170000 {
			c.Violation("entry-type", "%q: archive has mode %o, tar stream entry is a %s", w.Path, g.Mode, w.Kind)
			return
		}
		if w.Kind == "symlink" && g.Target != w.Target {
			c.Violation("entry-target", "%q: symlink target differs", w.Path)
			return
		}
		if w.Kind == "file" && (g.Size != uint64(len(w.Data)) || g.SHA256 != sha256.Sum256(w.Data)) {
			c.Violation("entry-content", "%q: payload differs from the file content", w.Path)
			return
		}
	}
	extra := len(got) - wantPaths
	if source == "tar-stream" {
		extra-- // the added root
	}
	if extra != 0 {
		c.Violation("entry-count:"+source, "archive holds %d entries, source listing %d", len(got), wantPaths)
		return
	}
	// second pack is byte-identical (determinism belongs to C05, cheap to observe here)
	maxKids, depth := 0, 0
	kids := map[string]int{}
	for _, g := range got {
		kids[filepath.Dir(g.Path)]++
		if d := strings.Count(g.Path, "/"); d > depth {
			depth = d
		}
	}
	for _, n := range kids {
		if n > maxKids {
			maxKids = n
		}
	}
	c.Count("archives_validated", 1)
	c.Count("entries_validated", int64(len(got)))
	c.Count("goodbye_tables", int64(len(kids)))
	if maxKids >= 2 {
		fb := fmt.Sprint(maxKids)
		if maxKids > 131 {
			fb = "131+"
		}
		c.NonTrivial("%s|f%s|d%d|s%v|x%v|o%v", source, fb, depth, o.Specials, o.Xattrs, o.OddNames)
	}
	c.Sample(map[string]interface{}{"source": source, "entries": len(got), "archive_bytes": buf.Len(), "max_fanout": maxKids, "depth": depth, "specials_in_source": o.Specials})
	if source == "disk" && i%5 == 2 {
		// symbolic links that are re-pointed (atomically, to longer targets) while the tree is packed - a "current ->
		// releases/N" link switched during a backup: each link in the archive carries the old or the new target in full
		links := map[string][2]string{}
		had := map[string]map[string]bool{}
		for _, e := range entries {
			if e.Kind == "symlink" && len(e.Target) < 200 && len(entries) <= 300 {
				links[e.Path] = [2]string{e.Target, ""}
				had[e.Path] = map[string]bool{e.Target: true}
			}
		}
		if len(links) > 0 {
			rr := &retargetReader{fs: desync.NewLocalFS(root, desync.LocalFSOptions{}), root: root, links: links, had: had}
			var rb bytes.Buffer
			if rerr := desync.Tar(context.Background(), &rb, rr); rerr == nil {
				rgot, verr := oracle.ValidateCatar(rb.Bytes(), true)
				if verr != nil {
					c.Violation("malformed-archive:retargeted-links", "symlinks re-pointed while packing: Tar reported success and the archive is malformed: %v", verr)
					return
				}
				for _, g := range rgot {
					if h, ok := had[g.Path]; ok && !h[g.Target] {
						c.Violation("entry-target:retargeted", "%q (first %q) was re-pointed %d times while the tree was packed; the archive has %q, which the link never pointed to", g.Path, links[g.Path][0], rr.gen, g.Target)
						return
					}
				}
			}
			c.Count("archives_of_retargeted_links", 1)
			c.NonTrivial("retargeted-links|%d", min(len(links), 4))
		}
	}
	_ = dsu.Tick
	_ = os.Stat
}

// failingWriter fails the write that crosses offset at (only that one if transient).
type failingWriter struct {
	at        int
	n         int
	transient bool
	failed    bool
}

func (f *failingWriter) Write(p []byte) (int, error) {
	if f.n+len(p) > f.at && !(f.transient && f.failed) {
		f.failed = true
		return 0, errors.New("no space left on device (injected)")
	}
	f.n += len(p)
	return len(p), nil
}

// retargetReader re-points every symbolic link of the tree before handing out its at-th entry (after giving the walker
// behind the reader a moment to get ahead of the consumer, as it does).
type retargetReader struct {
	fs    desync.FilesystemReader
	root  string
	links map[string][2]string
	gen   int
	had   map[string]map[string]bool // every target a link ever had
}

func retarget(old string, gen int) string {
	return strings.Repeat("g", gen) + fmt.Sprint(gen%10) + "/" + old
}

func (r *retargetReader) Next() (*desync.File, error) {
	// the walker behind the reader is one entry ahead of the consumer: the entry handed out next was looked at before
	// the links change now
	time.Sleep(200 * time.Microsecond)
	r.gen++
	for p, t := range r.links {
		nt := retarget(t[0], r.gen)
		tmp := filepath.Join(r.root, p) + ".retarget-tmp"
		if os.Symlink(nt, tmp) == nil {
			if os.Rename(tmp, filepath.Join(r.root, p)) != nil {
				os.Remove(tmp)
			} else {
				r.had[p][nt] = true
			}
		}
	}
	return r.fs.Next()
}

// unstableReader hands out files whose content is longer or shorter than the size recorded in the entry.
type unstableReader struct {
	fs      desync.FilesystemReader
	rng     *rand.Rand
	changed int
	how     string
}

type rc struct {
	io.Reader
	io.Closer
}

func (u *unstableReader) Next() (*desync.File, error) {
	f, err := u.fs.Next()
	if err != nil || f == nil || f.Data == nil || u.rng.Intn(3) != 0 {
		return f, err
	}
	u.changed++
	if u.rng.Intn(2) == 0 {
		u.how = "grew"
		f.Data = rc{io.MultiReader(f.Data, bytes.NewReader(make([]byte, 1+u.rng.Intn(5000)))), f.Data}
	} else if f.Size > 0 {
		u.how = "shrank"
		f.Data = rc{io.LimitReader(f.Data, int64(u.rng.Intn(int(f.Size)))), f.Data}
	} else {
		u.how = "grew"
		f.Data = rc{bytes.NewReader([]byte("appeared")), f.Data}
	}
	return f, nil
}

func sorted(m map[string]string) []string {
	var out []string
	for k, v := range m {
		out = append(out, k+"="+v)
	}
	sort.Strings(out)
	return out
}

// cliTarIndex feeds (a variant of) the tar stream to `desync tar -i --input-format tar` and validates the archive the
// produced index describes. Returns false after a violation.
func cliTarIndex(c *harness.Ctx, rng *rand.Rand, dir string, stream []byte, addRoot bool) bool {
	variant := []string{"intact", "cut", "cut", "hardlink"}[rng.Intn(4)]
	in := stream
	switch variant {
	case "cut":
		in = stream[:rng.Intn(len(stream)+1)]
	case "hardlink":
		// insert a hard-link member at a member boundary (every header starts on a 512-byte block; find them by walking)
		var offs []int64
		cr := &countReader{r: bytes.NewReader(stream)}
		tr := tar.NewReader(cr)
		for {
			if _, err := tr.Next(); err != nil {
				break
			}
			io.Copy(io.Discard, tr)
			offs = append(offs, (cr.n+511)/512*512)
		}
		var hb bytes.Buffer
		hw := tar.NewWriter(&hb)
		hw.WriteHeader(&tar.Header{Typeflag: tar.TypeLink, Name: "zz-hardlink", Linkname: "zz-target", Mode: 0644, ModTime: time.Unix(1500000000, 0), Format: tar.FormatPAX})
		hw.Flush()
		at := int64(0)
		if len(offs) > 1 {
			at = offs[rng.Intn(len(offs)-1)]
		}
		if at > int64(len(stream)) {
			at = 0
		}
		in = append(append(append([]byte{}, stream[:at]...), hb.Bytes()...), stream[at:]...)
	}
	store := filepath.Join(dir, "cli-store")
	os.MkdirAll(store, 0755)
	idxFile := filepath.Join(dir, "cli.caidx")
	args := []string{"tar", "-i", "--input-format", "tar", "-m", "1:2:4", "-n", fmt.Sprint(1 + rng.Intn(4)), "-s", store}
	if addRoot {
		args = append(args, "--tar-add-root")
	}
	args = append(args, idxFile, "-")
	cmd := exec.Command(os.Getenv("VERIF_CLI"), args...)
	cmd.Env = append(os.Environ(), "HOME="+dir)
	cmd.Stdin = bytes.NewReader(in)
	out, err := cmd.CombinedOutput()
	c.Count("cli_tar_index_runs_"+variant, 1)
	if err != nil {
		if variant == "intact" {
			c.Violation("cli-tar-failed", "desync %v on an intact tar stream failed: %v %s", args, err, out)
			return false
		}
		c.NonTrivial("cli-tar-index|%s|refused", variant)
		return true
	}
	raw, rerr := os.ReadFile(idxFile)
	if rerr != nil {
		c.Violation("malformed-archive:cli-index", "desync tar -i exited 0 without an index: %v", rerr)
		return false
	}
	ix, perr := oracle.ParseCaibx(raw)
	if perr != nil {
		c.Violation("malformed-archive:cli-index", "index written by desync tar -i does not parse: %v", perr)
		return false
	}
	ls, lerr := desync.NewLocalStore(store, desync.StoreOptions{})
	dsu.Must(lerr)
	var ab bytes.Buffer
	for k, ch := range ix.Items {
		chk, gerr := ls.GetChunk(desync.ChunkID(ch.ID))
		if gerr != nil {
			c.Violation("malformed-archive:cli-index", "chunk %d of the index written by desync tar -i is not in the store: %v", k, gerr)
			return false
		}
		b, _ := chk.Data()
		ab.Write(b)
	}
	if _, verr := oracle.ValidateCatar(ab.Bytes(), false); verr != nil {
		c.Violation("malformed-archive:cli-index", "desync tar -i (tar stream from STDIN: %s, %d of %d bytes) exited 0 and the archive its index describes (%d bytes) is malformed: %v", variant, len(in), len(stream), ab.Len(), verr)
		return false
	}
	c.NonTrivial("cli-tar-index|%s|accepted", variant)
	return true
}

type countReader struct {
	r io.Reader
	n int64
}

func (c *countReader) Read(p []byte) (int, error) {
	n, err := c.r.Read(p)
	c.n += int64(n)
	return n, err
}

func anchor(c *harness.Ctx) {
	c.Info("anchor: casync-made fixtures")
	c.LogInfo()
	n := 0
	for _, f := range []string{"flat.catar", "flatdir.catar", "nested.catar", "complex.catar"} {
		b, err := os.ReadFile(filepath.Join("/repo/testdata", f))
		if err != nil {
			continue
		}
		ents, err := oracle.ValidateCatar(b, true)
		if err != nil {
			c.Inconclusive("validator rejects the casync-made fixture %s: %v (check is broken)", f, err)
			return
		}
		n += len(ents)
		// desync re-encodes flat trees identically: pack what we can from the fixture's own description is C05's job
	}
	c.Count("fixture_entries_validated", int64(n))
	if n > 0 {
		c.NonTrivial("anchor")
	}
	c.Sample(map[string]interface{}{"leg": "anchor", "fixture_entries": n})
}
