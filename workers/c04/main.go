// C04: index files round-trip exactly and malformed ones are rejected.
package main

import (
	"bufio"
	"bytes"
	"encoding/binary"
	"errors"
	"fmt"
	"io"
	"math/rand"
	"net"
	"net/http"
	"net/http/httptest"
	"net/url"
	"os"
	"os/exec"
	"path/filepath"
	"runtime"
	"strings"
	"sync"
	"time"

	"github.com/folbricht/desync"

	"verif/dsu"
	"verif/fakes"
	"verif/harness"
	"verif/oracle"
)

var cli, shim string

func main() {
	harness.Main(&harness.Config{
		Prop:  "C04",
		Level: "exploration",
		Rule: "PRNG case list: generated indexes (0,1,2..5000 chunks; sizes 1..max incl. exactly max; random IDs; feature flag sets) under both digests, written with Index.WriteTo and through every index store kind {local file, HTTP index handler, S3 fake, SFTP shim, stdin/stdout of the CLI}, " +
			"parsed by an independent caibx parser (layout incl. tail sizes) and by IndexFromReader and compared three ways; every strict prefix of small files and sampled prefixes of large ones must be rejected; corruptions {offset decreased (last / middle entry), chunk > max, digest flag flipped} must be rejected, " +
			"other single-field corruptions {header size/type, table size field, zero fill, tail offset/size/marker} must be rejected or yield the identical table; casync-made fixtures (all .caibx/.caidx/chunker.index files in the repository) must re-encode byte-identically. " +
			"Non-trivial: index with >=2 chunks that round-tripped through a store, or a malformed input that was rejected; distinct by (leg, store kind, digest, chunk-count bucket, corruption)",
		Assumptions:   []string{"oracle/caibx.go is written from the casync format description and anchored by byte-identical re-encoding of the casync-made fixtures"},
		Cases:         cases,
		Run:           run,
		ParentSetup:   parentSetup,
		Setup:         func(c *harness.Ctx) { cli = os.Getenv("VERIF_CLI"); shim = os.Getenv("VERIF_SHIM") },
		MinNonTrivial: 20,
		CaseTimeout:   120 * time.Second,
	})
}

func cases(tier string) int {
	if tier == "thorough" {
		return 200000
	}
	return 5000
}

func parentSetup(tier string, seed int64, work string) ([]string, error) {
	p, err := harness.BuildCLI(work, "desync-verif", "verif", false)
	if err != nil {
		return nil, err
	}
	sh, err := harness.BuildHelper(work, "shim", "./helpers/shim", "verif")
	if err != nil {
		return nil, err
	}
	return []string{"VERIF_CLI=" + p, "VERIF_SHIM=" + sh}, nil
}

func genIndex(rng *rand.Rand, sha256 bool) desync.Index {
	var n int
	switch rng.Intn(8) {
	case 0:
		n = 0
	case 1:
		n = 1
	case 2:
		n = 2
	case 3:
		n = 500 + rng.Intn(4500)
	case 4:
		// counts at and around powers of two and their multiples (batching boundaries of any encoder)
		n = []int{64, 128, 256, 512, 768, 1024, 2048, 4096}[rng.Intn(8)] + rng.Intn(3) - 1
	default:
		n = rng.Intn(60)
	}
	max := uint64(1 + rng.Intn(1<<uint(4+rng.Intn(16))))
	if rng.Intn(10) == 0 {
		// a declared maximum so large that "size > max" can never trip, not even through unsigned wrap-around
		max = []uint64{1<<64 - 1, 1<<64 - 2, 1 << 63, 1<<63 + 12345}[rng.Intn(4)]
	}
	min := max / 4
	flags := uint64(desync.CaFormatExcludeNoDump)
	if rng.Intn(3) == 0 {
		flags |= desync.TarFeatureFlags &^ desync.CaFormatSHA512256
	}
	if rng.Intn(5) == 0 {
		flags = uint64(rng.Int63()) &^ desync.CaFormatSHA512256
	}
	if !sha256 {
		flags |= desync.CaFormatSHA512256
	}
	idx := desync.Index{Index: desync.FormatIndex{FeatureFlags: flags, ChunkSizeMin: min, ChunkSizeAvg: (min + max) / 2, ChunkSizeMax: max}}
	var start uint64
	for i := 0; i < n; i++ {
		bound := max
		if bound > 1<<40 {
			bound = 1 << 40
		}
		size := uint64(1 + rng.Int63n(int64(bound)))
		if rng.Intn(6) == 0 && max < 1<<40 {
			size = max
		}
		if i > 0 && rng.Intn(12) == 0 {
			size = 0 // an empty chunk: representable (two equal end offsets) everywhere but in first place
		}
		var id desync.ChunkID
		rng.Read(id[:])
		if rng.Intn(25) == 0 {
			// IDs made of the bytes the format itself is made of: zeros, all ones, the table's tail marker and the
			// element type constants at the 8-byte positions a parser looks at
			consts := []uint64{0, ^uint64(0), desync.CaFormatTableTailMarker, desync.CaFormatTable, desync.CaFormatIndex, 48, 40}
			for w := 0; w < 4; w++ {
				if rng.Intn(2) == 0 {
					binary.LittleEndian.PutUint64(id[8*w:], consts[rng.Intn(len(consts))])
				}
			}
		}
		idx.Chunks = append(idx.Chunks, desync.IndexChunk{ID: id, Start: start, Size: size})
		start += size
	}
	return idx
}

type fragReader struct {
	b   []byte
	rng *rand.Rand
	max int
}

func (f *fragReader) Read(p []byte) (int, error) {
	if len(f.b) == 0 {
		return 0, io.EOF
	}
	n := 1 + f.rng.Intn(f.max)
	if n > len(p) {
		n = len(p)
	}
	if n > len(f.b) {
		n = len(f.b)
	}
	copy(p, f.b[:n])
	f.b = f.b[n:]
	return n, nil
}

type failWriter struct {
	limit int
	n     int
}

func (f *failWriter) Write(p []byte) (int, error) {
	if f.n+len(p) > f.limit {
		w := f.limit - f.n
		if w < 0 {
			w = 0
		}
		f.n += w
		return w, errors.New("no space left on device (injected)")
	}
	f.n += len(p)
	return len(p), nil
}

func sameIndex(a, b desync.Index) string {
	if a.Index.FeatureFlags != b.Index.FeatureFlags || a.Index.ChunkSizeMin != b.Index.ChunkSizeMin || a.Index.ChunkSizeAvg != b.Index.ChunkSizeAvg || a.Index.ChunkSizeMax != b.Index.ChunkSizeMax {
		return fmt.Sprintf("parameters differ: %+v vs %+v", a.Index, b.Index)
	}
	if len(a.Chunks) != len(b.Chunks) {
		return fmt.Sprintf("chunk count %d vs %d", len(a.Chunks), len(b.Chunks))
	}
	for i := range a.Chunks {
		if a.Chunks[i] != b.Chunks[i] {
			return fmt.Sprintf("chunk %d differs: %+v vs %+v", i, a.Chunks[i], b.Chunks[i])
		}
	}
	return ""
}

func fromOracle(p *oracle.Caibx) desync.Index {
	idx := desync.Index{Index: desync.FormatIndex{FeatureFlags: p.Flags, ChunkSizeMin: p.Min, ChunkSizeAvg: p.Avg, ChunkSizeMax: p.Max}}
	var last uint64
	for _, it := range p.Items {
		idx.Chunks = append(idx.Chunks, desync.IndexChunk{ID: it.ID, Start: last, Size: it.End - last})
		last = it.End
	}
	return idx
}

func bucket(n int) string {
	switch {
	case n < 3:
		return fmt.Sprint(n)
	case n < 60:
		return "3-59"
	}
	return "500+"
}

func run(c *harness.Ctx, i int) {
	rng := c.Rng
	if i == 0 {
		fixtures(c)
		return
	}
	sha256 := rng.Intn(3) == 0
	if sha256 {
		desync.Digest = desync.SHA256{}
	} else {
		desync.Digest = desync.SHA512256{}
	}
	idx := genIndex(rng, sha256)
	leg := []string{"roundtrip", "roundtrip", "store", "prefix", "corrupt", "corrupt"}[rng.Intn(6)]
	if i%40 == 7 {
		concurrentLeg(c, rng, sha256)
		return
	}
	c.Info("leg=%s chunks=%d max=%d sha256=%v flags=%x", leg, len(idx.Chunks), idx.Index.ChunkSizeMax, sha256, idx.Index.FeatureFlags)
	c.LogInfo()
	var buf bytes.Buffer
	if _, err := idx.WriteTo(&buf); err != nil {
		c.Violation("write-failed", "%v", err)
		return
	}
	raw := buf.Bytes()
	// independent parser accepts and sees the same table
	p, err := oracle.ParseCaibx(raw)
	if err != nil {
		c.Violation("layout", "independent parser rejects the bytes written by Index.WriteTo: %v (chunks=%d)", err, len(idx.Chunks))
		return
	}
	if d := sameIndex(idx, fromOracle(p)); d != "" {
		c.Violation("layout-table", "independent parser reads a different table: %s", d)
		return
	}
	if !bytes.Equal(p.Encode(), raw) {
		c.Violation("layout-bytes", "independent encoder produces different bytes than Index.WriteTo for the same table")
		return
	}
	back, err := desync.IndexFromReader(bytes.NewReader(raw))
	if err != nil {
		c.Violation("read-failed", "IndexFromReader rejects what WriteTo wrote: %v", err)
		return
	}
	if d := sameIndex(idx, back); d != "" {
		c.Violation("roundtrip", "WriteTo -> IndexFromReader is not the identity: %s", d)
		return
	}
	// the same bytes arriving in pieces of arbitrary sizes (a pipe, an HTTP body, stdin)
	if rng.Intn(3) == 0 {
		fr := &fragReader{b: raw, rng: rng, max: []int{1, 3, 7, 13, 997, 1001}[rng.Intn(6)]}
		back2, err := desync.IndexFromReader(fr)
		if err != nil {
			c.Violation("read-fragmented", "IndexFromReader fails on the bytes WriteTo wrote when they arrive in pieces of at most %d bytes: %v", fr.max, err)
			return
		}
		if d := sameIndex(idx, back2); d != "" {
			c.Violation("read-fragmented", "IndexFromReader reads another table when the bytes arrive in pieces of at most %d bytes: %s", fr.max, d)
			return
		}
		c.Count("fragmented_reads", 1)
	}
	// a destination that fails after k bytes (disk full, closed pipe): WriteTo must not report success
	if rng.Intn(3) == 0 {
		k := rng.Intn(len(raw))
		if rng.Intn(2) == 0 {
			k = len(raw) - 1 - rng.Intn(min(len(raw), 200)) // in the last bytes
		}
		fw := &failWriter{limit: k}
		if _, err := idx.WriteTo(fw); err == nil {
			c.Violation("write-error-lost", "Index.WriteTo returned nil although the writer failed after %d of %d bytes", k, len(raw))
			return
		}
		c.Count("failing_writers", 1)
	}
	switch leg {
	case "roundtrip":
		if len(idx.Chunks) >= 2 {
			c.NonTrivial("roundtrip|%v|%s", sha256, bucket(len(idx.Chunks)))
		}
	case "store":
		storeLeg(c, rng, idx, raw, sha256)
	case "prefix":
		step := 1
		if len(raw) > 4000 {
			step = len(raw)/300 + 1
		}
		rejected := 0
		for l := 0; l < len(raw); l += step {
			cut := l
			if step > 1 {
				cut = l + rng.Intn(step)
				if cut >= len(raw) {
					cut = len(raw) - 1
				}
			}
			got, err := desync.IndexFromReader(bytes.NewReader(raw[:cut]))
			if err == nil {
				c.Violation("prefix-accepted", "a strict prefix (%d of %d bytes) of an index with %d chunks was accepted as an index with %d chunks", cut, len(raw), len(idx.Chunks), len(got.Chunks))
				return
			}
			rejected++
		}
		c.Count("prefixes_rejected", int64(rejected))
		c.NonTrivial("prefix|%v|%s", sha256, bucket(len(idx.Chunks)))
	case "corrupt":
		corruptLeg(c, rng, idx, raw, sha256)
	}
	c.Sample(map[string]interface{}{"leg": leg, "chunks": len(idx.Chunks), "max": idx.Index.ChunkSizeMax, "sha256": sha256, "bytes": len(raw)})
}

func storeLeg(c *harness.Ctx, rng *rand.Rand, idx desync.Index, raw []byte, sha256 bool) {
	dir := c.CaseDir()
	kind := []string{"local", "http", "s3", "sftp", "console"}[rng.Intn(5)]
	if rng.Intn(12) == 0 {
		// an index file name that leads to a device that is full
		os.Symlink("/dev/full", filepath.Join(dir, "full.caibx"))
		ls, e := desync.NewLocalIndexStore(dir)
		dsu.Must(e)
		if err := ls.StoreIndex("full.caibx", idx); err == nil {
			c.Violation("write-error-lost", "LocalIndexStore.StoreIndex onto a full device reported success (%d chunks)", len(idx.Chunks))
			return
		}
		c.Count("full_device_stores", 1)
	}
	name := "x.caibx"
	var got desync.Index
	var err error
	var stored []byte
	opt := desync.StoreOptions{N: 1, ErrorRetry: 0}
	// history: the name may already hold another (often longer) index written through the same store
	var prev *desync.Index
	if rng.Intn(2) == 0 {
		p := genIndex(rng, sha256)
		if rng.Intn(2) == 0 {
			p.Chunks = append(append([]desync.IndexChunk(nil), idx.Chunks...), p.Chunks...) // strictly longer file
			var start uint64
			for k := range p.Chunks {
				p.Chunks[k].Start = start
				start += p.Chunks[k].Size
			}
			p.Index = idx.Index
			for k := len(idx.Chunks); k < len(p.Chunks); k++ {
				if p.Chunks[k].Size > p.Index.ChunkSizeMax {
					p.Chunks[k].Size = p.Index.ChunkSizeMax
				}
			}
			start = 0
			for k := range p.Chunks {
				p.Chunks[k].Start = start
				start += p.Chunks[k].Size
			}
		}
		if rng.Intn(3) == 0 {
			// the very same chunk table under other parameters (the same blob indexed again with other chunk sizes that
			// happen to cut it the same way - a blob below the minimum size always does -, or with other feature flags):
			// what is read back must be the later index, not the earlier one
			p = idx
			p.Index.ChunkSizeMin = idx.Index.ChunkSizeMin/2 + 1
			if rng.Intn(2) == 0 {
				p.Index.ChunkSizeAvg = idx.Index.ChunkSizeAvg + 1
			}
			if rng.Intn(2) == 0 {
				p.Index.FeatureFlags ^= desync.CaFormatExcludeNoDump
			}
		}
		prev = &p
	}
	pre := func(s desync.IndexWriteStore) error {
		if prev == nil {
			return nil
		}
		c.Count("store_overwrites", 1)
		return s.StoreIndex(name, *prev)
	}
	switch kind {
	case "local":
		s, e := desync.NewLocalIndexStore(dir)
		dsu.Must(e)
		if err = pre(s); err != nil {
			break
		}
		if err = s.StoreIndex(name, idx); err == nil {
			stored, _ = os.ReadFile(filepath.Join(dir, name))
			got, err = s.GetIndex(name)
		}
		if err == nil && len(idx.Chunks) > 0 && rng.Intn(2) == 0 {
			// the file is replaced from outside (rsync -t, cp -p of a release with clamped time stamps) by another index of
			// the same length carrying the same modification time: the store reads what is there now
			p := filepath.Join(dir, name)
			st, _ := os.Stat(p)
			other := idx
			other.Chunks = append([]desync.IndexChunk(nil), idx.Chunks...)
			for k := range other.Chunks {
				other.Chunks[k].ID[0] ^= 0xff
				other.Chunks[k].ID[31] ^= 0x55
			}
			var ob bytes.Buffer
			other.WriteTo(&ob)
			if ob.Len() == len(stored) && st != nil {
				dsu.Must(os.WriteFile(p+".new", ob.Bytes(), 0644))
				dsu.Must(os.Chtimes(p+".new", st.ModTime(), st.ModTime()))
				dsu.Must(os.Rename(p+".new", p))
				again, gerr := s.GetIndex(name)
				if gerr != nil {
					c.Violation("store-local-replaced", "GetIndex after the file was replaced by another valid index: %v", gerr)
					return
				}
				if d := sameIndex(other, again); d != "" {
					c.Violation("store-local-replaced", "the index file was replaced from outside by another index of the same length and modification time; GetIndex does not return what the file holds now: %s", d)
					return
				}
				c.Count("index_files_replaced_from_outside", 1)
			}
		}
	case "http":
		ls, e := desync.NewLocalIndexStore(dir)
		dsu.Must(e)
		srv := httptest.NewServer(desync.NewHTTPIndexHandler(ls, true, ""))
		defer srv.Close()
		u, _ := url.Parse(srv.URL + "/")
		s, e := desync.NewRemoteHTTPIndexStore(u, opt)
		dsu.Must(e)
		if err = pre(s); err != nil {
			break
		}
		if err = s.StoreIndex(name, idx); err == nil {
			stored, _ = os.ReadFile(filepath.Join(dir, name))
			got, err = s.GetIndex(name)
		}
	case "s3":
		f := fakes.NewS3("bucket")
		defer f.Close()
		s, e := desync.NewS3IndexStore(f.URL("idx"), fakes.Creds(), fakes.Region, opt, fakes.Lookup)
		dsu.Must(e)
		if err = pre(s); err != nil {
			break
		}
		if err = s.StoreIndex(name, idx); err == nil {
			stored, _ = f.Get("idx/" + name)
			got, err = s.GetIndex(name)
		}
	case "sftp":
		os.Setenv("CASYNC_SSH_PATH", shim)
		u, _ := url.Parse("sftp://localhost" + dir)
		s, e := desync.NewSFTPIndexStore(u, opt)
		if e != nil {
			c.Skip("sftp shim: %v", e)
			return
		}
		defer s.Close()
		if err = pre(s); err != nil {
			break
		}
		if err = s.StoreIndex(name, idx); err == nil {
			stored, _ = os.ReadFile(filepath.Join(dir, name))
			got, err = s.GetIndex(name)
		}
	case "console":
		// `desync list-chunks -` reads the index from stdin; `desync make - file` writes one to stdout
		args := []string{"list-chunks", "-"}
		if sha256 {
			args = []string{"--digest", "sha256", "list-chunks", "-"}
		}
		cmd := exec.Command(cli, args...)
		cmd.Stdin = bytes.NewReader(raw)
		cmd.Env = append(os.Environ(), "HOME="+dir)
		out, e := cmd.Output()
		if e != nil {
			c.Violation("console-read", "desync %v failed on stdin: %v", args, e)
			return
		}
		lines := strings.Fields(string(out))
		if len(lines) != len(idx.Chunks) {
			c.Violation("console-read", "list-chunks printed %d ids for an index with %d chunks", len(lines), len(idx.Chunks))
			return
		}
		for k, l := range lines {
			if l != idx.Chunks[k].ID.String() {
				c.Violation("console-read", "list-chunks id %d differs", k)
				return
			}
		}
		blob := dsu.MakeBlob(rng, "random", 3000+rng.Intn(20000), dsu.Sizes{Min: 1024, Avg: 2048, Max: 4096})
		dsu.WriteFile(filepath.Join(dir, "blob"), blob)
		margs := []string{"make", "-m", "1:2:4", "-", filepath.Join(dir, "blob")}
		if rng.Intn(2) == 0 {
			// a reporting option: what goes to STDOUT is the index and nothing but the index
			margs = []string{"make", "--print-stats", "-m", "1:2:4", "-", filepath.Join(dir, "blob")}
		}
		if sha256 {
			margs = append([]string{"--digest", "sha256"}, margs...)
		}
		mk := exec.Command(cli, margs...)
		mk.Env = append(os.Environ(), "HOME="+dir)
		mout, e := mk.Output()
		if e != nil {
			c.Violation("console-write", "desync %v failed: %v", margs, e)
			return
		}
		p, e := oracle.ParseCaibx(mout)
		if e != nil {
			c.Violation("console-write", "index written to stdout is rejected by the independent parser: %v", e)
			return
		}
		if d := sameIndex(dsu.RefIndex(blob, dsu.Sizes{Min: 1024, Avg: 2048, Max: 4096}), fromOracle(p)); d != "" {
			c.Violation("console-write", "index written to stdout differs from the reference: %s", d)
			return
		}
		c.NonTrivial("store|console|%v|%s", sha256, bucket(len(idx.Chunks)))
		return
	}
	if err != nil {
		c.Violation("store-"+kind, "store/get of a valid index failed: %v", err)
		return
	}
	if !bytes.Equal(stored, raw) {
		c.Violation("store-"+kind+"-bytes", "bytes stored by the %s index store (%d) differ from Index.WriteTo (%d)", kind, len(stored), len(raw))
		return
	}
	if d := sameIndex(idx, got); d != "" {
		c.Violation("store-"+kind+"-roundtrip", "%s", d)
		return
	}
	c.Count("store_roundtrips", 1)
	if len(idx.Chunks) >= 2 {
		c.NonTrivial("store|%s|%v|%s|over=%v", kind, sha256, bucket(len(idx.Chunks)), prev != nil)
	}
}

// concurrentLeg: one HTTP index server, several indexes of the same shape (same sizes, other IDs: any mix of them is a
// valid index), fetched at the same time by several clients, one of which may read its response slowly so that the
// server is still sending it while it serves the others. Every client must receive exactly the index it asked for.
func concurrentLeg(c *harness.Ctx, rng *rand.Rand, sha256 bool) {
	dir := c.CaseDir()
	slow := rng.Intn(3) == 0
	n := 2 + rng.Intn(3000)
	k := 2 + rng.Intn(4)
	if slow {
		n = 250000 + rng.Intn(100000) // ~10-14 MB response: more than the socket buffers of a connection nobody reads
		k = 2
	}
	procs := []int{1, 2, 4, 16}[rng.Intn(4)]
	clients := 4 + rng.Intn(12)
	c.Info("leg=concurrent chunks=%d indexes=%d slow-reader=%v gomaxprocs=%d clients=%d sha256=%v", n, k, slow, procs, clients, sha256)
	c.LogInfo()
	base := genIndex(rng, sha256)
	base.Chunks = nil
	var start uint64
	for i := 0; i < n; i++ {
		bound := base.Index.ChunkSizeMax
		if bound > 1<<40 {
			bound = 1 << 40
		}
		size := uint64(1 + rng.Int63n(int64(bound)))
		base.Chunks = append(base.Chunks, desync.IndexChunk{Start: start, Size: size})
		start += size
	}
	ls, e := desync.NewLocalIndexStore(dir)
	dsu.Must(e)
	idxs := make([]desync.Index, k)
	raws := make([][]byte, k)
	for j := 0; j < k; j++ {
		idxs[j] = desync.Index{Index: base.Index, Chunks: append([]desync.IndexChunk(nil), base.Chunks...)}
		for i := range idxs[j].Chunks {
			rng.Read(idxs[j].Chunks[i].ID[:])
		}
		var b bytes.Buffer
		idxs[j].WriteTo(&b)
		raws[j] = b.Bytes()
		dsu.Must(os.WriteFile(filepath.Join(dir, fmt.Sprintf("i%d.caibx", j)), raws[j], 0644))
	}
	old := runtime.GOMAXPROCS(procs)
	defer runtime.GOMAXPROCS(old)
	srv := httptest.NewServer(desync.NewHTTPIndexHandler(ls, false, ""))
	defer srv.Close()
	u, _ := url.Parse(srv.URL + "/")
	var mu sync.Mutex
	var bad []string
	report := func(f string, a ...interface{}) { mu.Lock(); bad = append(bad, fmt.Sprintf(f, a...)); mu.Unlock() }
	fetchAll := func(rounds int) {
		var wg sync.WaitGroup
		for cl := 0; cl < clients; cl++ {
			wg.Add(1)
			go func(cl int) {
				defer wg.Done()
				s, e := desync.NewRemoteHTTPIndexStore(u, desync.StoreOptions{N: 1, ErrorRetry: 0})
				if e != nil {
					report("client: %v", e)
					return
				}
				for r := 0; r < rounds; r++ {
					j := (cl + r) % k
					if slow {
						j = 1 // the slow reader asked for index 0
					}
					got, err := s.GetIndex(fmt.Sprintf("i%d.caibx", j))
					if err != nil {
						report("GetIndex(i%d) under concurrent load failed: %v", j, err)
						return
					}
					if d := sameIndex(idxs[j], got); d != "" {
						report("GetIndex(i%d) under concurrent load returned another table: %s", j, d)
						return
					}
				}
			}(cl)
		}
		wg.Wait()
	}
	if slow {
		conn, err := net.Dial("tcp", strings.TrimPrefix(srv.URL, "http://"))
		dsu.Must(err)
		defer conn.Close()
		fmt.Fprintf(conn, "GET /i0.caibx HTTP/1.1\r\nHost: x\r\nConnection: close\r\n\r\n")
		br := bufio.NewReaderSize(conn, 4096)
		if _, err := br.Peek(1); err != nil { // the server has started to send
			c.Skip("slow reader: %v", err)
			return
		}
		fetchAll(3)
		resp, err := http.ReadResponse(br, nil)
		if err != nil {
			report("slow reader: %v", err)
		} else {
			body, err := io.ReadAll(resp.Body)
			resp.Body.Close()
			if err != nil || resp.StatusCode != 200 {
				report("slow reader: status %d, %v", resp.StatusCode, err)
			} else if !bytes.Equal(body, raws[0]) {
				at := 0
				for at < len(body) && at < len(raws[0]) && body[at] == raws[0][at] {
					at++
				}
				what := "other bytes"
				if at < len(raws[1]) && at < len(body) && bytes.Equal(body[at:min(at+32, len(body))], raws[1][at:min(at+32, len(raws[1]))]) {
					what = "the bytes of the index another client asked for"
				}
				report("a client that read its response slowly received %d bytes that differ from the stored index from offset %d on (%s)", len(body), at, what)
			}
		}
	} else {
		fetchAll(2 + rng.Intn(4))
	}
	if len(bad) > 0 {
		c.Violation("concurrent-fetch", "%s (%d reports; %d chunks, %d indexes, %d clients, GOMAXPROCS=%d)", bad[0], len(bad), n, k, clients, procs)
		return
	}
	c.Count("concurrent_fetch_cases", 1)
	c.NonTrivial("concurrent|slow=%v|procs=%d|%v", slow, procs, sha256)
	c.Sample(map[string]interface{}{"leg": "concurrent", "chunks": n, "indexes": k, "clients": clients, "slow_reader": slow, "gomaxprocs": procs})
}

func corruptLeg(c *harness.Ctx, rng *rand.Rand, idx desync.Index, raw []byte, sha256 bool) {
	n := len(idx.Chunks)
	kinds := []string{"flag", "hdr-size", "hdr-type", "tbl-size", "tbl-type", "zero2", "tail-offset", "tail-size", "tail-marker"}
	if n >= 2 {
		kinds = append(kinds, "decrease-last", "decrease-middle", "decrease-last", "equal", "zero-tail", "zero-tail")
	}
	if n >= 1 && idx.Index.ChunkSizeMax < 1<<62 { // above that no offset can express a chunk larger than the maximum
		kinds = append(kinds, "too-large")
	}
	kind := kinds[rng.Intn(len(kinds))]
	bad := append([]byte(nil), raw...)
	put := func(off int, v uint64) { binary.LittleEndian.PutUint64(bad[off:], v) }
	get := func(off int) uint64 { return binary.LittleEndian.Uint64(bad[off:]) }
	item := func(k int) int { return 64 + 40*k }
	tail := 64 + 40*n
	mustReject := false
	switch kind {
	case "flag":
		put(16, get(16)^desync.CaFormatSHA512256)
		mustReject = true
	case "hdr-size":
		put(0, 48+uint64(1+rng.Intn(100)))
	case "hdr-type":
		put(8, get(8)^1)
		mustReject = true // no longer an index header
	case "tbl-size":
		put(48, uint64(rng.Int63()))
	case "tbl-type":
		put(56, get(56)^1)
		mustReject = true
	case "zero2":
		put(tail+8, 1+uint64(rng.Intn(100)))
	case "tail-offset":
		put(tail+16, 49)
	case "tail-size":
		put(tail+24, get(tail+24)+uint64(1+rng.Intn(1000)))
	case "tail-marker":
		put(tail+32, get(tail+32)^1)
	case "zero-tail":
		// the file lost its end and zeros stand in its place (a crash after the blocks were allocated, a copy padded to a
		// block size): the header, k items, then nothing but zeros - a table of k chunks that describes a shorter blob
		k := 1 + rng.Intn(n-1)
		end := len(bad)
		switch rng.Intn(3) {
		case 0:
			end = item(k) + 40 // exactly one tail record of zeros
		case 1:
			end = item(k) + 40 + rng.Intn(4096)
		}
		if end > len(bad) {
			bad = append(bad, make([]byte, end-len(bad))...)
		}
		bad = bad[:end]
		for j := item(k); j < len(bad); j++ {
			bad[j] = 0
		}
		mustReject = true
	case "decrease-last":
		// the last end offset drops below its predecessor (nothing follows that could trip the max check)
		prev := get(item(n - 2))
		put(item(n-1), prev-uint64(1+rng.Int63n(int64(prev))))
		mustReject = true
	case "decrease-middle":
		k := rng.Intn(n-1) + 1
		prev := get(item(k - 1))
		if prev < 1 {
			return
		}
		put(item(k), prev-uint64(1+rng.Int63n(int64(prev))))
		mustReject = true
	case "equal":
		k := rng.Intn(n-1) + 1
		put(item(k), get(item(k-1)))
	case "too-large":
		k := rng.Intn(n)
		var prev uint64
		if k > 0 {
			prev = get(item(k - 1))
		}
		// shift this and all later offsets so that chunk k exceeds max
		delta := prev + idx.Index.ChunkSizeMax + 1 + uint64(rng.Intn(10)) - get(item(k))
		for j := k; j < n; j++ {
			put(item(j), get(item(j))+delta)
		}
		mustReject = true
	}
	got, err := desync.IndexFromReader(bytes.NewReader(bad))
	if err == nil {
		if mustReject {
			c.Violation("corruption-accepted:"+kind, "an index (%d chunks, sha256=%v) with corruption %q was accepted; it yields %d chunks, length %d", n, sha256, kind, len(got.Chunks), got.Length())
			return
		}
		// accepted: then the table must be what the file says (identical to the original for fields that do not touch the table)
		want := idx
		if kind == "equal" {
			// a zero-size chunk: the table as written
			p := fromOracleLoose(bad, n)
			want = p
		}
		if d := sameIndex(want, got); d != "" {
			c.Violation("corruption-misread:"+kind, "corruption %q was accepted and yields a different table: %s", kind, d)
			return
		}
		c.Count("corruptions_accepted_harmless", 1)
	} else {
		c.Count("corruptions_rejected", 1)
	}
	c.NonTrivial("corrupt|%s|%v|%s|%v", kind, sha256, bucket(n), err == nil)
}

// fromOracleLoose reads the table without validity checks (for comparing what an accepted odd file says).
func fromOracleLoose(b []byte, n int) desync.Index {
	u := func(off int) uint64 { return binary.LittleEndian.Uint64(b[off:]) }
	idx := desync.Index{Index: desync.FormatIndex{FeatureFlags: u(16), ChunkSizeMin: u(24), ChunkSizeAvg: u(32), ChunkSizeMax: u(40)}}
	var last uint64
	for k := 0; k < n; k++ {
		off := 64 + 40*k
		var id desync.ChunkID
		copy(id[:], b[off+8:off+40])
		idx.Chunks = append(idx.Chunks, desync.IndexChunk{ID: id, Start: last, Size: u(off) - last})
		last = u(off)
	}
	return idx
}

// fixtures: every index file in the repository re-encodes byte-identically (casync / pinned output).
func fixtures(c *harness.Ctx) {
	desync.Digest = desync.SHA512256{}
	c.Info("fixtures")
	c.LogInfo()
	var files []string
	for _, pat := range []string{"/repo/testdata/*.caibx", "/repo/testdata/*.caidx", "/repo/testdata/*.index", "/repo/cmd/desync/testdata/*.caibx", "/repo/cmd/desync/testdata/*.caidx"} {
		m, _ := filepath.Glob(pat)
		files = append(files, m...)
	}
	n := 0
	for _, f := range files {
		raw, err := os.ReadFile(f)
		dsu.Must(err)
		p, perr := oracle.ParseCaibx(raw)
		idx, derr := desync.IndexFromReader(bytes.NewReader(raw))
		if perr != nil || derr != nil {
			if (perr == nil) != (derr == nil) {
				c.Violation("fixture-disagreement", "%s: independent parser: %v, IndexFromReader: %v", f, perr, derr)
			}
			continue
		}
		if !bytes.Equal(p.Encode(), raw) {
			c.Inconclusive("independent encoder does not reproduce fixture %s (check is broken)", f)
			return
		}
		var buf bytes.Buffer
		idx.WriteTo(&buf)
		if !bytes.Equal(buf.Bytes(), raw) {
			c.Violation("fixture-reencode", "%s does not re-encode byte-identically (%d vs %d bytes)", f, buf.Len(), len(raw))
			return
		}
		if d := sameIndex(idx, fromOracle(p)); d != "" {
			c.Violation("fixture-table", "%s: %s", f, d)
			return
		}
		n++
	}
	c.Count("fixtures_reencoded", int64(n))
	if n >= 3 {
		c.NonTrivial("fixtures")
	}
	c.Sample(map[string]interface{}{"leg": "fixtures", "files": len(files), "reencoded_identically": n})
}
