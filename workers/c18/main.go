// C18: unpacking an archive never writes outside the destination directory.
package main

import (
	"bytes"
	"context"
	"encoding/binary"
	"fmt"
	"io"
	"math/rand"
	"os"
	"os/exec"
	"path/filepath"
	"strings"
	"syscall"
	"time"

	"github.com/folbricht/desync"

	"verif/dsu"
	"verif/harness"
	"verif/treegen"
)

func main() {
	if os.Getenv("C18_JAIL") != "" {
		jailed()
		return
	}
	harness.Main(&harness.Config{
		Prop:  "C18",
		Level: "exploration",
		Rule: "Hostile element streams from the harness's own encoder: entry names {.., ../x, a/../../x, /abs, a/b, empty, ., very long, random bytes} as file / directory / symlink / device entries at the root or nested; surplus GOODBYE elements followed by more entries; " +
			"symlink-then-entry orders (symlink to an outside directory followed by a directory / file / device of the same name, or entries beneath it); destinations that already hold symlinks to outside directories and files; random mixes of these with benign entries. " +
			"Each archive is unpacked by UnTar on the disk writer and by UnTarIndex (archive chunked into a store) in a child process chroot()ed into a scratch jail /p/q/dst with sentinel files and directories at every level and an /outside tree. " +
			"Oracle: typed snapshot of the whole jail minus the destination subtree is unchanged (content, metadata, no new entries), whatever the call returned. Non-trivial: archive holding >=1 hostile construct that the decoder got to; distinct by (construct, entry kind, position, path, outcome)",
		Assumptions: []string{"the jail is a chroot on the same filesystem; escapes above the jail root cannot be observed (nor happen)"},
		Cases:       cases,
		Run:         run,
		ParentSetup: func(tier string, seed int64, work string) ([]string, error) {
			// a statically linked CLI that can be exec'ed inside the chroot jail
			os.Setenv("CGO_ENABLED", "0")
			defer os.Unsetenv("CGO_ENABLED")
			p, err := harness.BuildCLI(work, "desync-static", "verif", false)
			return []string{"VERIF_CLI_STATIC=" + p}, err
		},
		MinNonTrivial: 20,
		CaseTimeout:   120 * time.Second,
	})
}

func cases(tier string) int {
	if tier == "thorough" {
		return 120000
	}
	return 6000
}

// ---- the jailed child: chroot, then unpack stdin into /p/q/dst ----

func jailed() {
	jail := os.Getenv("C18_JAIL")
	raw, _ := io.ReadAll(os.Stdin)
	if err := syscall.Chroot(jail); err != nil {
		fmt.Fprintln(os.Stderr, "chroot:", err)
		os.Exit(3)
	}
	os.Chdir("/")
	if m := os.Getenv("C18_MODE"); m == "cli" || m == "cli-index" {
		// the command line tool itself, inside the jail
		args := []string{"desync", "untar", "/in.catar", "/p/q/dst"}
		if m == "cli-index" {
			args = []string{"desync", "untar", "-i", "-s", "/store", "/in.caidx", "/p/q/dst"}
		}
		err := syscall.Exec("/desync-bin", args, []string{"HOME=/", "PATH=/"})
		fmt.Fprintln(os.Stderr, "exec:", err)
		os.Exit(3)
	}
	desync.Digest = desync.SHA512256{}
	fs := desync.NewLocalFS("/p/q/dst", desync.LocalFSOptions{})
	var err error
	if os.Getenv("C18_MODE") == "index" {
		ms := dsu.NewMemStore("s")
		sz := dsu.Sizes{Min: 64, Avg: 128, Max: 256}
		idx := dsu.RefIndex(raw, sz)
		for _, ch := range idx.Chunks {
			ms.PutRaw(ch.ID, raw[ch.Start:ch.Start+ch.Size])
		}
		err = desync.UnTarIndex(context.Background(), fs, idx, ms, 2, desync.NullProgressBar{})
	} else {
		err = desync.UnTar(context.Background(), bytes.NewReader(raw), fs)
	}
	if err != nil {
		fmt.Fprintln(os.Stderr, "untar:", err)
		os.Exit(1)
	}
	os.Exit(0)
}

// ---- archive encoder ----

type enc struct{ bytes.Buffer }

func (e *enc) u64(v ...uint64) {
	for _, x := range v {
		var b [8]byte
		binary.LittleEndian.PutUint64(b[:], x)
		e.Write(b[:])
	}
}
func (e *enc) entry(mode uint64) {
	e.u64(64, desync.CaFormatEntry, desync.TarFeatureFlags, mode, 0, 0, 0, 1600000000_000000000)
}
func (e *enc) filename(n string) {
	e.u64(uint64(16+len(n)+1), desync.CaFormatFilename)
	e.WriteString(n)
	e.WriteByte(0)
}
func (e *enc) payload(b []byte) { e.u64(uint64(16+len(b)), desync.CaFormatPayload); e.Write(b) }
func (e *enc) symlink(t string) {
	e.u64(uint64(16+len(t)+1), desync.CaFormatSymlink)
	e.WriteString(t)
	e.WriteByte(0)
}
func (e *enc) device() { e.u64(32, desync.CaFormatDevice, 1, 3) }
func (e *enc) xattr(k, v string) {
	e.u64(uint64(16+len(k)+1+len(v)), desync.CaFormatXAttr)
	e.WriteString(k)
	e.WriteByte(0)
	e.WriteString(v)
}

// maybeXattr puts extended attributes on about every third entry (trusted.* can be set on symlinks and devices too).
func (e *enc) maybeXattr(rng *rand.Rand) {
	if rng.Intn(3) == 0 {
		e.xattr([]string{"trusted.c18", "trusted.c18", "user.c18", "security.c18"}[rng.Intn(4)], "planted")
	}
}
func (e *enc) goodbye() {
	e.u64(16+24, desync.CaFormatGoodbye, 0, 40, desync.CaFormatGoodbyeTailMarker)
}

const (
	mDir  = 0040755
	mFile = 0100644
	mLnk  = 0120777
	mChr  = 0020644
)

func (e *enc) node(kind string, rng *rand.Rand) {
	switch kind {
	case "file":
		e.entry(mFile)
		e.maybeXattr(rng)
		e.payload([]byte("hostile payload\n"))
	case "dir":
		e.entry(mDir)
		e.filename("inner")
		e.entry(mFile)
		e.payload([]byte("inner payload\n"))
		e.goodbye()
	case "emptydir":
		e.entry(mDir | 0700)
		e.maybeXattr(rng)
		e.goodbye()
	case "dir-sub":
		// a directory holding sub-directories whose names also exist outside (below /outside, /, /p, /p/q)
		e.entry(mDir)
		for _, n := range []string{"outside", "p", "sentinel-dir", "sub"} {
			if rng.Intn(2) == 0 {
				e.filename(n)
				e.entry(mDir | 0700)
				if rng.Intn(2) == 0 {
					e.filename("sub")
					e.entry(mDir | 0700)
					e.goodbye()
				}
				e.goodbye()
			}
		}
		e.goodbye()
	case "symlink":
		e.entry(mLnk)
		e.maybeXattr(rng)
		e.symlink([]string{"/outside", "/outside", "/outside/sentinel", "/outside/dev13", "../../../outside/sub"}[rng.Intn(5)])
	case "device":
		e.entry(mChr)
		e.maybeXattr(rng)
		e.device()
	}
}

var hostileNames = []string{"..", "../escaped", "../../escaped", "a/../../escaped", "../../../../../../escaped", "/abs", "/outside/planted", "a/b", "", ".", "./x", "..x", "x..", "...", "..\\..\\x", "sub/../../q/planted"}
var kinds = []string{"file", "dir", "emptydir", "symlink", "device"}

func build(rng *rand.Rand) ([]byte, string) {
	var e enc
	construct := []string{"name", "name", "name-nested", "surplus-goodbye", "symlink-then-dir", "symlink-then-file", "symlink-then-device", "nested-symlink-then-dir", "preexisting", "mix", "replace-chain", "replace-chain", "symlink-then-slashname", "nameless", "nameless", "root-nondir", "random-sequence", "random-sequence", "tempname-symlink", "named-root"}[rng.Intn(20)]
	kind := kinds[rng.Intn(len(kinds))]
	name := hostileNames[rng.Intn(len(hostileNames))]
	if rng.Intn(6) == 0 {
		b := make([]byte, 1+rng.Intn(300))
		for i := range b {
			b[i] = byte(1 + rng.Intn(255))
		}
		if rng.Intn(2) == 0 {
			copy(b, "../")
		}
		name = string(b)
	}
	benign := func() {
		e.filename(fmt.Sprintf("ok%d", rng.Intn(1000)))
		e.node([]string{"file", "emptydir"}[rng.Intn(2)], rng)
	}
	if construct != "root-nondir" && construct != "random-sequence" && construct != "named-root" {
		e.entry(mDir) // root
	}
	tag := construct
	switch construct {
	case "tempname-symlink":
		// a symlink leading out under a name that an implementation might use for its temporary file while it creates
		// the entry "f" that follows (f plus a suffix, a dot prefix, ...): nothing may be written through it
		target := []string{"/outside/sentinel", "../../../outside/sentinel", "/outside/planted", "/outside", "/sentinel"}[rng.Intn(5)]
		nm := []string{"f", "data.bin", "a"}[rng.Intn(3)]
		for _, suf := range []string{".tmp", ".temp", ".part", ".partial", ".new", ".bak", ".swp", "~", ".desync-partial", ".desync-tmp", ".desync", ".lock", ".0"} {
			if rng.Intn(3) != 0 {
				e.filename(nm + suf)
				e.entry(mLnk)
				e.symlink(target)
			}
		}
		if rng.Intn(2) == 0 {
			e.filename("." + nm + ".tmp")
			e.entry(mLnk)
			e.symlink(target)
		}
		// names sort after their own prefixes: put the entry itself last (order in the stream is what matters)
		e.filename(nm)
		e.node([]string{"file", "file", "device", "emptydir"}[rng.Intn(4)], rng)
		e.goodbye()
		tag += "|" + target
	case "nameless":
		// an ENTRY without a FILENAME in front of it (legal only for the root): it takes the path of the directory it sits
		// in, so a nameless file / symlink can replace that directory and later entries are created through it
		depth := rng.Intn(3)
		for k := 0; k < depth; k++ {
			e.filename([]string{"a", "sub", "link-dir"}[rng.Intn(3)])
			e.entry(mDir)
		}
		e.filename("f")
		e.node("file", rng) // the decoder returns after a payload; the next ENTRY starts a fresh node
		var chain []string
		for k := 0; k < 1+rng.Intn(3); k++ {
			kd := []string{"file", "symlink", "symlink-up", "device", "emptydir-open"}[rng.Intn(5)]
			chain = append(chain, kd)
			switch kd {
			case "symlink":
				e.entry(mLnk)
				e.symlink([]string{"/outside", "../../../outside", "/", "/outside/sentinel"}[rng.Intn(4)])
			case "symlink-up":
				e.entry(mLnk)
				e.symlink([]string{"..", "../..", "../../.."}[rng.Intn(3)])
			case "emptydir-open":
				e.entry(mDir | 0700)
			default:
				e.node(kd, rng)
			}
		}
		for k := 0; k < 1+rng.Intn(3); k++ {
			e.filename([]string{"planted", "sentinel", "sentinel-dir", "sub", "outside", "p"}[rng.Intn(6)])
			e.node(kinds[rng.Intn(len(kinds))], rng)
		}
		for k := 0; k <= depth; k++ {
			e.goodbye()
		}
		tag += fmt.Sprintf("|depth%d|%s", depth, strings.Join(chain, ">"))
	case "named-root":
		// a FILENAME in front of the very first ENTRY: the tools never write one (the root has no name), a decoder that
		// validates names only for entries behind the root joins it into the destination path unchecked
		rn := name
		if rng.Intn(3) == 0 {
			rn = []string{"../sentinel-dir", "../sentinel", "../planted", "../../outside/planted", "/outside/planted", "..", "../..", "x"}[rng.Intn(8)]
		}
		e.filename(rn)
		rk := []string{"dir", "dir", "file", "symlink", "device"}[rng.Intn(5)]
		switch rk {
		case "dir":
			e.entry(mDir | 0700)
			for k := 0; k < 1+rng.Intn(3); k++ {
				e.filename([]string{"planted", "sentinel", "keep", "sub", "q"}[rng.Intn(5)])
				e.node(kinds[rng.Intn(len(kinds))], rng)
			}
			e.goodbye()
		case "symlink":
			e.entry(mLnk)
			e.symlink([]string{"/outside", "../../outside", "/outside/sentinel"}[rng.Intn(3)])
		default:
			e.node(rk, rng)
		}
		tag += "|" + rk
	case "root-nondir":
		// the first entry (the one that becomes the destination itself) is not a directory, more entries follow
		rk := []string{"symlink", "symlink-up", "file", "device"}[rng.Intn(4)]
		switch rk {
		case "symlink":
			e.entry(mLnk)
			e.symlink([]string{"/outside", "../../outside", "/", "/outside/sentinel"}[rng.Intn(4)])
		case "symlink-up":
			e.entry(mLnk)
			e.symlink([]string{"..", "../..", "."}[rng.Intn(3)])
		default:
			e.node(rk, rng)
		}
		for k := 0; k < 1+rng.Intn(3); k++ {
			e.filename([]string{"planted", "sentinel", "sentinel-dir", "sub", "q"}[rng.Intn(5)])
			e.node(kinds[rng.Intn(len(kinds))], rng)
		}
		if rng.Intn(2) == 0 {
			e.goodbye()
		}
		tag += "|" + rk
	case "random-sequence":
		// no grammar at all: a random sequence of elements
		if rng.Intn(4) != 0 {
			e.entry(mDir)
		}
		var sig []string
		for k := 0; k < 3+rng.Intn(14); k++ {
			switch rng.Intn(8) {
			case 0:
				e.entry(mDir | 0700)
				sig = append(sig, "D")
			case 1:
				e.entry(mFile)
				sig = append(sig, "F")
			case 2:
				e.entry(mLnk)
				sig = append(sig, "L")
			case 3:
				e.payload([]byte("random sequence payload\n"))
				sig = append(sig, "p")
			case 4:
				e.symlink([]string{"/outside", "..", "../../../outside", "/outside/sentinel", "/"}[rng.Intn(5)])
				sig = append(sig, "s")
			case 5:
				e.goodbye()
				sig = append(sig, "g")
			case 6:
				e.entry(mChr)
				e.device()
				sig = append(sig, "C")
			default:
				if rng.Intn(5) == 0 {
					e.filename(name) // a hostile one, at any position (also in front of the first ENTRY)
					sig = append(sig, "N")
				} else {
					e.filename([]string{"a", "a", "planted", "sentinel", "sentinel-dir", "outside", "link-dir", "link-up", "p", "q", "sub"}[rng.Intn(11)])
					sig = append(sig, "n")
				}
			}
		}
		tag += "|" + strings.Join(sig, "")
	case "name":
		if rng.Intn(2) == 0 {
			benign()
		}
		e.filename(name)
		e.node(kind, rng)
		e.goodbye()
		tag += "|" + kind
	case "name-nested":
		e.filename("sub")
		e.entry(mDir)
		e.filename(name)
		e.node(kind, rng)
		e.goodbye()
		e.goodbye()
		tag += "|" + kind
	case "surplus-goodbye":
		if rng.Intn(2) == 0 {
			benign()
		}
		for k := 0; k < 1+rng.Intn(4); k++ {
			e.goodbye()
		}
		e.filename([]string{"escaped", "sentinel", "sentinel-dir", "p"}[rng.Intn(4)])
		e.node(kind, rng)
		if rng.Intn(2) == 0 {
			e.goodbye()
		}
		tag += "|" + kind
	case "symlink-then-dir", "symlink-then-file", "symlink-then-device":
		// (the last two: dangling links to names that do not exist yet, outside)
		target := []string{"/outside", "../../../outside", "/outside/sentinel", "/", "/outside/dev13", "../../../outside/dev13", "/outside/not-there-yet", "../../../outside/sub/not-there-yet"}[rng.Intn(8)]
		e.filename("a")
		e.entry(mLnk)
		e.symlink(target)
		e.filename("a")
		switch construct {
		case "symlink-then-dir":
			e.entry(mDir | 0700)
			e.filename("planted")
			e.node([]string{"file", "emptydir", "device"}[rng.Intn(3)], rng)
			e.filename("sentinel")
			e.node("file", rng)
			e.goodbye()
		case "symlink-then-file":
			e.node("file", rng)
		case "symlink-then-device":
			e.node("device", rng)
		}
		e.goodbye()
		tag += "|" + target
	case "nested-symlink-then-dir":
		e.filename("d")
		e.entry(mDir)
		e.filename("b")
		e.entry(mLnk)
		e.symlink("/outside")
		e.filename("b")
		e.entry(mDir | 0700)
		e.filename("planted")
		e.node("file", rng)
		e.goodbye()
		e.goodbye()
		e.goodbye()
	case "preexisting":
		// the destination already holds: link-dir -> /outside, link-file -> /outside/sentinel, link-rel -> ../../sentinel-dir
		ln := []string{"link-dir", "link-file", "link-rel", "link-up", "link-dev", "hl-file", "hl-file", "link-dangling", "link-dangling"}[rng.Intn(9)]
		e.filename(ln)
		switch rng.Intn(3) {
		case 0:
			e.entry(mDir | 0700)
			e.filename("planted")
			e.node("file", rng)
			e.filename("sentinel")
			e.node("file", rng)
			e.goodbye()
			tag += "|dir"
		case 1:
			e.node("file", rng)
			tag += "|file"
		default:
			e.node(kind, rng)
			tag += "|" + kind
		}
		e.goodbye()
		tag += "|" + ln
	case "symlink-then-slashname":
		// a symlink leading out, then an entry whose *name* walks through it
		ln := []string{"l", "a", "link-dir"}[rng.Intn(3)]
		if ln != "link-dir" {
			e.filename(ln)
			e.entry(mLnk)
			e.symlink([]string{"/outside", "../../../outside", ".."}[rng.Intn(3)])
		}
		e.filename(ln + "/" + []string{"planted", "sentinel", "sub/planted"}[rng.Intn(3)])
		e.node(kind, rng)
		e.goodbye()
		tag += "|" + kind + "|" + ln
	case "replace-chain":
		// the same name is used several times in one directory with different kinds: what was created first is
		// replaced later (a directory by a file by a symlink leading out ...)
		name := []string{"a", "sentinel-dir", "x"}[rng.Intn(3)]
		var chain []string
		pattern := [][]string{nil, nil, {"dir-sub", "symlink"}, {"dir-sub", "file", "symlink"}, {"dir", "symlink", "dir-sub"}}[rng.Intn(5)]
		for k := 0; k < 2+rng.Intn(3); k++ {
			kd := []string{"dir", "dir-sub", "dir-sub", "emptydir", "file", "symlink", "symlink-file", "device"}[rng.Intn(8)]
			if pattern != nil {
				if k >= len(pattern) {
					break
				}
				kd = pattern[k]
			}
			chain = append(chain, kd)
			e.filename(name)
			switch kd {
			case "symlink":
				e.entry(mLnk)
				e.symlink([]string{"/outside", "../../../outside", "/", ".."}[rng.Intn(4)])
			case "symlink-file":
				e.entry(mLnk)
				e.symlink("/outside/sentinel")
			default:
				e.node(kd, rng)
			}
		}
		if rng.Intn(2) == 0 {
			benign()
		}
		e.goodbye()
		tag += "|" + strings.Join(chain, ">")
	case "mix":
		for k := 0; k < 2+rng.Intn(6); k++ {
			switch rng.Intn(4) {
			case 0:
				benign()
			case 1:
				e.filename(hostileNames[rng.Intn(len(hostileNames))])
				e.node(kinds[rng.Intn(len(kinds))], rng)
			case 2:
				e.goodbye()
			case 3:
				e.filename("a")
				e.entry(mLnk)
				e.symlink("/outside")
			}
		}
		e.goodbye()
	}
	return e.Bytes(), tag
}

func prepareJail(jail string, dstState string) {
	defer func() {
		switch dstState {
		case "absent":
			os.RemoveAll(filepath.Join(jail, "p/q/dst"))
		case "empty":
			os.RemoveAll(filepath.Join(jail, "p/q/dst"))
			os.Mkdir(filepath.Join(jail, "p/q/dst"), 0755)
		}
		t := time.Unix(1500000000, 0)
		os.Chtimes(filepath.Join(jail, "p/q"), t, t)
	}()
	for _, d := range []string{"p/q/dst", "outside/sub", "sentinel-dir", "p/sentinel-dir", "p/q/sentinel-dir"} {
		os.MkdirAll(filepath.Join(jail, d), 0755)
	}
	for _, f := range []string{"sentinel", "outside/sentinel", "outside/sub/sentinel", "sentinel-dir/sentinel", "p/sentinel", "p/q/sentinel", "p/sentinel-dir/sentinel", "p/q/sentinel-dir/sentinel"} {
		os.WriteFile(filepath.Join(jail, f), []byte("sentinel "+f+"\n"), 0640)
	}
	// pre-existing symlinks inside the destination
	os.Symlink("/outside", filepath.Join(jail, "p/q/dst/link-dir"))
	os.Symlink("/outside/sentinel", filepath.Join(jail, "p/q/dst/link-file"))
	os.Symlink("../../sentinel-dir", filepath.Join(jail, "p/q/dst/link-rel"))
	os.Symlink("..", filepath.Join(jail, "p/q/dst/link-up"))
	// a device node outside with the very type and numbers the hostile device entries carry, and a link to it
	syscall.Mknod(filepath.Join(jail, "outside/dev13"), syscall.S_IFCHR|0666, 1<<8|3)
	os.Chmod(filepath.Join(jail, "outside/dev13"), 0666)
	os.Symlink("/outside/dev13", filepath.Join(jail, "p/q/dst/link-dev"))
	os.Symlink("/outside/not-there-yet", filepath.Join(jail, "p/q/dst/link-dangling"))
	// a regular file in the destination that is a second (hard) link to a file outside, as snapshot trees made with
	// cp -al / rsync --link-dest have: rewriting it in place rewrites the outside file
	os.WriteFile(filepath.Join(jail, "outside/hl-target"), []byte("shared inode\n"), 0666)
	os.Link(filepath.Join(jail, "outside/hl-target"), filepath.Join(jail, "p/q/dst/hl-file"))
	// the command line tool needs /dev/null (go-fuse's splice package opens it at start-up)
	os.Mkdir(filepath.Join(jail, "dev"), 0755)
	syscall.Mknod(filepath.Join(jail, "dev/null"), syscall.S_IFCHR|0666, 1<<8|3)
	os.Chmod(filepath.Join(jail, "dev/null"), 0666)
	// fixed mtimes everywhere outside the destination
	t := time.Unix(1500000000, 0)
	filepath.Walk(jail, func(p string, info os.FileInfo, err error) error {
		if err == nil && info.Mode()&os.ModeSymlink == 0 {
			os.Chtimes(p, t, t)
		}
		return nil
	})
}

func outsideOf(m map[string]treegen.Snap) map[string]treegen.Snap {
	out := map[string]treegen.Snap{}
	for p, s := range m {
		if p == "p/q/dst" || strings.HasPrefix(p, "p/q/dst/") {
			continue
		}
		out[p] = s
	}
	return out
}

func run(c *harness.Ctx, i int) {
	rng := c.Rng
	raw, tag := build(rng)
	mode := []string{"untar", "index", "untar", "index", "cli", "cli-index"}[rng.Intn(6)]
	if os.Getenv("VERIF_CLI_STATIC") == "" && strings.HasPrefix(mode, "cli") {
		mode = "untar"
	}
	dir := c.CaseDir()
	jail := filepath.Join(dir, "jail")
	dstState := "populated"
	if strings.HasPrefix(tag, "root-nondir") || strings.HasPrefix(tag, "random-sequence") || strings.HasPrefix(tag, "nameless") || strings.HasPrefix(tag, "named-root") {
		dstState = []string{"populated", "empty", "absent"}[rng.Intn(3)]
	}
	tag += "|dst-" + dstState
	prepareJail(jail, dstState)
	c.Info("construct=%s mode=%s archive=%d bytes", tag, mode, len(raw))
	c.LogInfo()
	if strings.HasPrefix(mode, "cli") {
		// binary (hard link), archive / index + store inside the jail but outside the destination
		if err := os.Link(os.Getenv("VERIF_CLI_STATIC"), filepath.Join(jail, "desync-bin")); err != nil {
			b, _ := os.ReadFile(os.Getenv("VERIF_CLI_STATIC"))
			os.WriteFile(filepath.Join(jail, "desync-bin"), b, 0755)
		}
		if mode == "cli" {
			os.WriteFile(filepath.Join(jail, "in.catar"), raw, 0644)
		} else {
			sz := dsu.Sizes{Min: 64, Avg: 128, Max: 256}
			idx := dsu.RefIndex(raw, sz)
			idx.Index.FeatureFlags |= desync.TarFeatureFlags
			dsu.Must(dsu.WriteIndex(filepath.Join(jail, "in.caidx"), idx))
			_, err := dsu.FillLocalStore(filepath.Join(jail, "store"), raw, idx, false)
			dsu.Must(err)
		}
	}
	treegen.SkipContent["desync-bin"] = true
	before, err := treegen.Snapshot(jail)
	dsu.Must(err)
	self, _ := os.Executable()
	cmd := exec.Command(self)
	// a fault of one kind at one point: the k-th stat/lstat call of the command fails with EIO (injected by strace).
	// Whatever the tool concludes from a look at the filesystem that failed, it may fail but not leave the destination.
	if strings.HasPrefix(mode, "cli") && rng.Intn(3) == 0 {
		if st, err := exec.LookPath("strace"); err == nil {
			k := 1 + rng.Intn(14)
			cmd = exec.Command(st, "-f", "-o", "/dev/null", "-e", "trace=newfstatat", "-e", fmt.Sprintf("inject=newfstatat:error=EIO:when=%d", k), self)
			tag += fmt.Sprintf("|stat-fault")
			c.Info("construct=%s mode=%s archive=%d bytes stat-fault-at=%d", tag, mode, len(raw), k)
			c.LogInfo()
			c.Count("runs_with_stat_fault", 1)
		}
	}
	cmd.Env = append(os.Environ(), "C18_JAIL="+jail, "C18_MODE="+mode)
	cmd.Stdin = bytes.NewReader(raw)
	var stderr bytes.Buffer
	cmd.Stderr = &stderr
	rerr := cmd.Run()
	if strings.Contains(stderr.String(), "panic:") {
		c.Violation("crash", "unpacking a hostile archive (%s) panicked: %s", tag, stderr.String())
		return
	}
	if ee, ok := rerr.(*exec.ExitError); ok && ee.ExitCode() == 3 {
		c.Skip("chroot failed: %s", stderr.String())
		return
	}
	after, err := treegen.Snapshot(jail)
	dsu.Must(err)
	all := treegen.Compare(outsideOf(before), outsideOf(after))
	// Creating or replacing the destination path itself (an archive whose first entry is a file, or a nameless entry at
	// the top level) legitimately touches the directory holding it: its mtime is not an escape.
	var diffs []treegen.Diff
	for _, d := range all {
		if d.Path == "p/q" && d.Field == "mtime" {
			c.Count("destination_itself_replaced", 1)
			continue
		}
		diffs = append(diffs, d)
	}
	outcome := "rejected"
	if rerr == nil {
		outcome = "accepted"
	}
	if len(diffs) > 0 {
		d := diffs[0]
		c.Violation("escape:"+strings.SplitN(tag, "|", 2)[0]+":"+d.Field, "unpacking (%s, %s, call %s: %s) changed the filesystem outside the destination: %q (%s) field %s: before %q, after %q; %d differences in total",
			tag, mode, outcome, strings.TrimSpace(stderr.String()), d.Path, d.Type, d.Field, d.Want, d.Got, len(diffs))
		return
	}
	c.Count("archives", 1)
	c.Count("archives_"+outcome, 1)
	c.NonTrivial("%s|%s|%s", tag, mode, outcome)
	c.Sample(map[string]interface{}{"construct": tag, "mode": mode, "archive_bytes": len(raw), "outcome": outcome, "stderr": strings.TrimSpace(stderr.String())})
}
