// C12: request de-duplication is safe under every interleaving.
package main

import (
	"fmt"
	"runtime"
	"sort"
	"strings"
	"sync"
	"sync/atomic"
	"time"

	"github.com/folbricht/desync"

	"verif/dsu"
	"verif/harness"
)

func main() {
	harness.Main(&harness.Config{
		Prop:  "C12",
		Level: "exploration",
		Rule: "PRNG-determined histories: 2-8 concurrent callers doing 1-3 operations each (GetChunk/HasChunk on DedupQueue; StoreChunk/GetChunk/HasChunk on WriteDedupQueue) over 1-3 chunk IDs, " +
			"upstream = gate-controlled in-memory store (unique chunk object / unique error value per upstream call, per-call delays, holds until another caller arrived), " +
			"perturbation and targeted parks at the dedup hook points, under -race. Offline checker over the recorded history (caller call/return, upstream call/return, issuing goroutine): " +
			"every result is justified by an upstream request U of the same kind and ID issued by leader L with U.call < C.return and C.call < L.return; at most one upstream request per (kind, ID) in flight; " +
			"a GetChunk that starts after a successful de-duplicated store has begun upstream returns that chunk. Non-trivial: history in which >=2 callers shared one upstream request; distinct by (queue, callers, ids, park point, outcome mix, hook-order signature)",
		Assumptions: []string{
			"reading of the statement (DESIGN.md C12): a result may be shared until the leader that produced it has returned",
			"interleavings are sampled (random delays, parks at hook points), not enumerated",
		},
		Cases:               cases,
		Run:                 run,
		MinNonTrivial:       20,
		RaceIsViolation:     true,
		DeadlockIsViolation: true,
		CaseTimeout:         150 * time.Second,
	})
}

func cases(tier string) int {
	if tier == "thorough" {
		return 200000
	}
	return 12000
}

type callerOp struct {
	Caller int
	G      int64
	Kind   string // get, has, store
	ID     desync.ChunkID
	T0, T1 int64
	Chunk  *desync.Chunk // result of get / argument of store
	Bool   bool
	Err    error
}

var parkPoints = []string{"", "", "dedup.get.afterLoadOrStore", "dedup.get.beforeMarkDone", "dedup.get.afterMarkDone", "dedup.get.afterDelete",
	"dedup.has.afterLoadOrStore", "dedup.has.afterMarkDone", "dedup.has.afterDelete",
	"wdedup.store.afterLoadOrStore", "wdedup.store.beforeMarkDone", "wdedup.store.afterMarkDone", "wdedup.store.afterDelete", "wdedup.get.afterLookup"}

func run(c *harness.Ctx, i int) {
	rng := c.Rng
	desync.Digest = desync.SHA512256{}
	write := rng.Intn(2) == 1
	nIDs := 1 + rng.Intn(3)
	k := 2 + rng.Intn(7)
	ymode := 1 + rng.Intn(2)
	park := parkPoints[rng.Intn(len(parkPoints))]
	if park != "" {
		ymode = dsu.YieldTraced
	}
	failProb := []int{0, 0, 20, 50}[rng.Intn(4)]
	// a handful of cases per run hold the first upstream request for a long stretch of real time while the other callers
	// wait for it: a caller that gives up waiting and goes upstream on its own (a time-out on the followers' side) only
	// shows when an upstream request outlasts that time-out. The verdict is still taken from the history, not the clock.
	slowHold := time.Duration(0)
	if i%3000 == 11 {
		slowHold = 35 * time.Second
		if c.Tier == "thorough" {
			slowHold = 100 * time.Second
		}
		nIDs, park, failProb = 1, "", 0
		if k < 4 {
			k = 4
		}
	}

	ms := dsu.NewMemStore("up")
	// the upstream hands out decoded chunks, or (as a compressed store opened without verification does) chunks in
	// storage form that are decoded when first used - by every caller that shares the result, at the same time
	ms.Lazy = i%3 == 1
	var ids []desync.ChunkID
	var datas [][]byte
	for j := 0; j < nIDs; j++ {
		b := make([]byte, 20+rng.Intn(50))
		rng.Read(b)
		id := dsu.Sum(b)
		ids = append(ids, id)
		datas = append(datas, b)
		if rng.Intn(3) != 0 && !write {
			ms.PutRaw(id, b)
		}
	}
	var arrivals int64
	faultSeed := uint64(rng.Int63())
	var errCounter int64
	ms.Fault = func(op string, n int64, id desync.ChunkID) error {
		if failProb > 0 && int(mix(faultSeed^uint64(n)*31^uint64(len(op)))%100) < failProb {
			return dsu.ErrInjected{Msg: fmt.Sprintf("%s#%d/%d", op, n, atomic.AddInt64(&errCounter, 1))}
		}
		return nil
	}
	gateSeed := uint64(rng.Int63())
	var held int32
	ms.Gate = func(op string, id desync.ChunkID, n int64) {
		if slowHold > 0 && atomic.CompareAndSwapInt32(&held, 0, 1) {
			time.Sleep(slowHold)
			return
		}
		r := mix(gateSeed ^ uint64(n)*977 ^ uint64(op[0]))
		switch r % 4 {
		case 0:
		case 1:
			for j := uint64(0); j < (r>>8)%20; j++ {
				runtime.Gosched()
			}
		case 2:
			time.Sleep(time.Duration((r>>8)%300) * time.Microsecond)
		case 3:
			// hold until one more caller has arrived (bounded)
			a := atomic.LoadInt64(&arrivals)
			for j := 0; j < 400 && atomic.LoadInt64(&arrivals) == a; j++ {
				time.Sleep(10 * time.Microsecond)
			}
		}
		// toggle presence between upstream calls so that stale booleans become visible
		if op == "has" && !write && (r>>20)%3 == 0 {
			idx := 0
			for q := range ids {
				if ids[q] == id {
					idx = q
				}
			}
			if (r>>24)%2 == 0 {
				ms.PutRaw(id, datas[idx])
			} else {
				ms.Delete(id)
			}
		}
	}

	var dq *desync.DedupQueue
	var wq *desync.WriteDedupQueue
	if write {
		wq = desync.NewWriteDedupQueue(ms)
	} else {
		dq = desync.NewDedupQueue(ms)
	}
	c.Info("queue=%s callers=%d ids=%d park=%q ymode=%d failprob=%d", map[bool]string{false: "dedup", true: "wdedup"}[write], k, nIDs, park, ymode, failProb)
	c.LogInfo()

	y := dsu.NewYielder(ymode, uint64(rng.Int63()))
	var parked int32
	var hookMu sync.Mutex
	var hookLog []hookEv
	if park != "" || write {
		y.OnHit = func(point string, n int64) {
			if write && strings.HasPrefix(point, "wdedup.") {
				hookMu.Lock()
				hookLog = append(hookLog, hookEv{dsu.Goid(), point, dsu.Tick()})
				hookMu.Unlock()
			}
			if park != "" && point == park && atomic.CompareAndSwapInt32(&parked, 0, 1) {
				// the first goroutine reaching the point waits until another caller arrives (bounded)
				a := atomic.LoadInt64(&arrivals)
				for j := 0; j < 600 && atomic.LoadInt64(&arrivals) < a+1; j++ {
					time.Sleep(10 * time.Microsecond)
				}
				// and gives it time to get going
				for j := 0; j < 30; j++ {
					runtime.Gosched()
				}
			}
		}
	}
	y.Install()

	// plan the operations up front (PRNG determined)
	type plan struct {
		kind  string
		id    int
		delay int
	}
	plans := make([][]plan, k)
	for p := range plans {
		nops := 1 + rng.Intn(3)
		for o := 0; o < nops; o++ {
			kinds := []string{"get", "get", "has"}
			if write {
				kinds = []string{"store", "store", "get", "get", "has"}
			}
			plans[p] = append(plans[p], plan{kinds[rng.Intn(len(kinds))], rng.Intn(nIDs), rng.Intn(200)})
		}
	}
	var mu sync.Mutex
	var ops []callerOp
	var wg sync.WaitGroup
	for p := 0; p < k; p++ {
		wg.Add(1)
		go func(p int) {
			defer wg.Done()
			g := dsu.Goid()
			for _, pl := range plans[p] {
				if pl.delay > 100 {
					time.Sleep(time.Duration(pl.delay-100) * time.Microsecond)
				} else {
					for j := 0; j < pl.delay/10; j++ {
						runtime.Gosched()
					}
				}
				op := callerOp{Caller: p, G: g, Kind: pl.kind, ID: ids[pl.id]}
				if pl.kind == "store" {
					op.Chunk = desync.NewChunk(datas[pl.id]) // unique object per call
					op.Chunk.ID()
				}
				atomic.AddInt64(&arrivals, 1)
				op.T0 = dsu.Tick()
				switch pl.kind {
				case "get":
					if write {
						op.Chunk, op.Err = wq.GetChunk(op.ID)
					} else {
						op.Chunk, op.Err = dq.GetChunk(op.ID)
					}
				case "has":
					if write {
						op.Bool, op.Err = wq.HasChunk(op.ID)
					} else {
						op.Bool, op.Err = dq.HasChunk(op.ID)
					}
				case "store":
					op.Err = wq.StoreChunk(op.Chunk)
				}
				op.T1 = dsu.Tick()
				if pl.kind == "get" && op.Err == nil && op.Chunk != nil {
					op.Chunk.Data() // callers use what they get
				}
				mu.Lock()
				ops = append(ops, op)
				mu.Unlock()
			}
		}(p)
	}
	wg.Wait()
	y.Remove()

	ups := ms.Calls()
	shared := check(c, ops, ups, datas, ids)
	if write && ymode == dsu.YieldTraced {
		checkReadsOverlappingWrites(c, ops, ups, hookLog)
	}
	for key, v := range ms.MaxInFl {
		if v > 1 {
			c.Violation("concurrent-upstream", "%d upstream requests for %s in flight at the same time", v, key[:12])
		}
	}
	if slowHold > 0 {
		c.Count("cases_with_an_upstream_request_held_for_tens_of_seconds", 1)
	}
	c.Count("caller_ops", int64(len(ops)))
	c.Count("upstream_calls", int64(len(ups)))
	c.Count("shared_results", int64(shared))
	if ymode == dsu.YieldTraced {
		sig, total := y.Signature()
		c.Distinct("hook_order_signatures", fmt.Sprintf("%x", sig))
		c.Count("hook_hits", total)
	}
	if shared > 0 {
		sig, _ := y.Signature()
		c.NonTrivial("%v|k%d|ids%d|%s|f%d|%x", write, k, nIDs, park, failProb, sig%4096)
	}
	c.Sample(map[string]interface{}{"queue": map[bool]string{false: "dedup", true: "wdedup"}[write], "callers": k, "ids": nIDs, "park": park, "caller_ops": len(ops), "upstream_calls": len(ups), "shared_results": shared,
		"history": summarize(ops, ups)})
}

type hookEv struct {
	G     int64
	Point string
	T     int64
}

// checkReadsOverlappingWrites: "reads that overlap a de-duplicated write of the same chunk see that chunk". Decided only
// where the hook trace proves that the read's look-up fell into the life time of the write's in-flight record: the
// record was registered before the read was called (the writer's afterLoadOrStore hit precedes the read's call event)
// and the reader passed its look-up before the writer got to markDone (reader's afterLookup hit precedes the writer's
// afterMarkDone hit; the record is only deleted after that). Such a read must return what the write returned.
func checkReadsOverlappingWrites(c *harness.Ctx, ops []callerOp, ups []dsu.Call, hooks []hookEv) {
	for _, us := range ups {
		if us.Op != "store" {
			continue
		}
		var reg, done int64 = -1, -1
		for _, h := range hooks {
			if h.G != us.G {
				continue
			}
			if h.Point == "wdedup.store.afterLoadOrStore" && h.T < us.T0 && h.T > reg {
				reg = h.T
			}
			if h.Point == "wdedup.store.afterMarkDone" && h.T > us.T1 && (done < 0 || h.T < done) {
				done = h.T
			}
		}
		if reg < 0 || done < 0 {
			continue
		}
		for _, r := range ops {
			if r.Kind != "get" || r.ID != us.ID || r.T0 < reg {
				continue
			}
			var look int64 = -1
			for _, h := range hooks {
				if h.G == r.G && h.Point == "wdedup.get.afterLookup" && h.T > r.T0 && h.T < r.T1 {
					look = h.T
					break
				}
			}
			if look < 0 || look > done {
				continue
			}
			c.Count("reads_proven_to_overlap_a_write", 1)
			if (us.Err == nil) != (r.Err == nil) || (us.Err == nil && r.Chunk == nil) {
				c.Violation("read-misses-overlapping-write", "caller %d get(%x) [%d,%d] looked up the write queue (t=%d) while the store of that chunk was registered (t=%d) and not yet marked done (t=%d); the store returned %v, the read returned err=%v\nhistory: %s",
					r.Caller, r.ID[:3], r.T0, r.T1, look, reg, done, us.Err, r.Err, strings.Join(summarize(ops, ups), "; "))
				return
			}
		}
	}
}

func mix(x uint64) uint64 {
	x += 0x9e3779b97f4a7c15
	x = (x ^ (x >> 30)) * 0xbf58476d1ce4e5b9
	x = (x ^ (x >> 27)) * 0x94d049bb133111eb
	return x ^ (x >> 31)
}

func summarize(ops []callerOp, ups []dsu.Call) []string {
	type ev struct {
		t int64
		s string
	}
	var evs []ev
	for _, o := range ops {
		evs = append(evs, ev{o.T0, fmt.Sprintf("c%d:%s(%x) call", o.Caller, o.Kind, o.ID[:2])})
		r := "ok"
		if o.Err != nil {
			r = "err"
		}
		evs = append(evs, ev{o.T1, fmt.Sprintf("c%d:%s(%x) ret %s", o.Caller, o.Kind, o.ID[:2], r)})
	}
	for _, u := range ups {
		evs = append(evs, ev{u.T0, fmt.Sprintf("up:%s(%x)#%d call", u.Op, u.ID[:2], u.N)})
		evs = append(evs, ev{u.T1, fmt.Sprintf("up:%s(%x)#%d ret %s", u.Op, u.ID[:2], u.N, u.Result)})
	}
	sort.Slice(evs, func(a, b int) bool { return evs[a].t < evs[b].t })
	var out []string
	for _, e := range evs {
		out = append(out, e.s)
		if len(out) >= 40 {
			out = append(out, "...")
			break
		}
	}
	return out
}

// check implements the offline history checker; returns the number of results shared between callers.
func check(c *harness.Ctx, ops []callerOp, ups []dsu.Call, datas [][]byte, ids []desync.ChunkID) int {
	// leader of each upstream call: the caller op (same goroutine) whose interval contains it
	leader := make([]*callerOp, len(ups))
	for ui, u := range ups {
		for oi := range ops {
			o := &ops[oi]
			if o.G == u.G && o.T0 < u.T0 && u.T1 < o.T1 {
				leader[ui] = o
			}
		}
		if leader[ui] == nil {
			c.Violation("orphan-upstream", "upstream %s #%d has no enclosing caller operation", u.Op, u.N)
			return 0
		}
	}
	uses := make([]int, len(ups))
	sameErr := func(a, b error) bool {
		if a == nil || b == nil {
			return a == nil && b == nil
		}
		return a == b || a.Error() == b.Error()
	}
	for oi := range ops {
		o := &ops[oi]
		justified := false
		why := ""
		for ui, u := range ups {
			if u.ID != o.ID {
				continue
			}
			l := leader[ui]
			match := false
			switch o.Kind {
			case "get":
				if u.Op == "get" {
					if o.Err != nil {
						match = u.Err != nil && sameErr(u.Err, o.Err)
					} else {
						match = u.Err == nil && o.Chunk != nil && o.Chunk == u.Chunk
					}
				} else if u.Op == "store" {
					// served from the in-flight write: the stored chunk object, or the store's error
					if u.Err != nil {
						match = o.Err != nil && sameErr(u.Err, o.Err)
					} else {
						match = o.Err == nil && o.Chunk != nil && o.Chunk == u.Chunk
					}
				}
			case "has":
				if u.Op == "has" {
					if o.Err != nil {
						match = u.Err != nil && sameErr(u.Err, o.Err)
					} else {
						match = u.Err == nil && fmt.Sprint(o.Bool) == u.Result
					}
				}
			case "store":
				if u.Op == "store" {
					match = sameErr(u.Err, o.Err)
				}
			}
			if !match {
				continue
			}
			if !(u.T0 < o.T1) {
				why = "upstream request started after the caller returned"
				continue
			}
			if !(o.T0 < l.T1) {
				why = fmt.Sprintf("result of upstream %s#%d handed out to a call that started (t=%d) after the leader returned (t=%d)", u.Op, u.N, o.T0, l.T1)
				continue
			}
			justified = true
			if l != o {
				uses[ui]++
			}
			break
		}
		if !justified {
			res := "ok"
			if o.Err != nil {
				res = "error " + o.Err.Error()
			} else if o.Kind == "get" && o.Chunk == nil {
				res = "(nil chunk, nil error)"
			} else if o.Kind == "has" {
				res = fmt.Sprint(o.Bool)
			}
			cls := "unjustified-result"
			if strings.Contains(why, "after the leader returned") {
				cls = "stale-result"
			}
			if o.Kind == "get" && o.Chunk == nil && o.Err == nil {
				cls = "nil-result"
			}
			c.Violation(cls, "caller %d %s(%x) [%d,%d] returned %s which no upstream request justifies (%s)\nhistory: %s", o.Caller, o.Kind, o.ID[:3], o.T0, o.T1, res, why, strings.Join(summarize(ops, ups), "; "))
		}
		// returned data must be the chunk
		if o.Kind == "get" && o.Err == nil && o.Chunk != nil {
			b, err := o.Chunk.Data()
			if err != nil || dsu.Sum(b) != o.ID {
				c.Violation("wrong-data", "caller %d get(%x) returned a chunk that does not hash to the ID", o.Caller, o.ID[:3])
			}
		}
	}
	// Reads that overlap a de-duplicated write see that chunk: a read that starts after the
	// upstream store has begun finds the in-flight record (it is only removed after the
	// upstream store returned), so it must never issue its own upstream GetChunk before that
	// store has returned. (A "missing" handed out by a still in-flight *read* request is the
	// inherent window of request sharing and is covered by the justification rule above.)
	for ui, ug := range ups {
		if ug.Op != "get" {
			continue
		}
		r := leader[ui]
		if r.Kind != "get" {
			continue
		}
		for _, us := range ups {
			if us.Op == "store" && us.ID == ug.ID && us.T0 < r.T0 && ug.T0 < us.T1 {
				c.Violation("read-bypasses-write", "caller %d get(%x) started (t=%d) after the upstream store of that chunk had begun (t=%d) but went to the upstream store itself (t=%d) before that write returned (t=%d)\nhistory: %s",
					r.Caller, r.ID[:3], r.T0, us.T0, ug.T0, us.T1, strings.Join(summarize(ops, ups), "; "))
				break
			}
		}
	}
	shared := 0
	for _, n := range uses {
		shared += n
	}
	return shared
}
