// C19: decoders survive arbitrary input.
package main

import (
	"bytes"
	"context"
	"encoding/binary"
	"fmt"
	"io"
	"log"
	"math/rand"
	"net"
	"net/http"
	"net/http/httptest"
	"os"
	"path/filepath"
	"runtime"
	"strings"
	"syscall"
	"time"

	"github.com/folbricht/desync"

	"verif/dsu"
	"verif/harness"
	"verif/oracle"
)

const perCase = 40 // inputs per case

func main() {
	harness.Main(&harness.Config{
		Prop:  "C19",
		Level: "exploration",
		Rule: "Inputs: (a) for every element type (all catar/index types plus unknown ones) x size field in {0..80 exhaustively, 2^e, 2^e+-1, 3*2^e for e<64, 2^64-16..2^64-1} x body {absent, short, exact, long} x context {alone, after a valid ENTRY, inside a directory}; " +
			"(b) every truncation of the small valid fixtures and sampled truncations of large ones; (c) PRNG bit/byte/size-field mutations of valid index and catar files; (d) protocol messages with every length class, before and after the handshake. " +
			"Targets: IndexFromReader, FormatDecoder.Next loop, ArchiveDecoder.Next loop, Protocol.ReadMessage / RecvHello / RequestChunk, ProtocolServer.Serve, HTTP PUT to the index handler. Each input is written to disk before the call; the child runs under RLIMIT_AS. " +
			"Monitors: recover() around each call, crash attribution for fatal errors, 'panic serving' lines of net/http, and runtime.MemStats.TotalAlloc delta per call <= 1 MiB + 32*len(input). " +
			"Non-trivial: input that made the decoder return an error (malformed) or that decoded >=2 elements; distinct by (target, generator, element type, size class, body, outcome)",
		Assumptions:   []string{"allocation bound constants (1 MiB + 32 bytes per input byte) were calibrated on the valid corpus with a wide margin", "RLIMIT_AS 6 GiB per child"},
		Cases:         cases,
		Run:           run,
		Setup:         setup,
		MinNonTrivial: 20,
		CaseTimeout:   120 * time.Second,
	})
}

func cases(tier string) int {
	if tier == "thorough" {
		return 300000
	}
	return 2500
}

var corpus [][]byte
var corpusNames []string

func setup(c *harness.Ctx) {
	lim := syscall.Rlimit{Cur: 6 << 30, Max: 6 << 30}
	syscall.Setrlimit(syscall.RLIMIT_AS, &lim)
	for _, pat := range []string{"/repo/testdata/*.catar", "/repo/testdata/*.caibx", "/repo/testdata/chunker.index", "/repo/cmd/desync/testdata/*.caibx", "/repo/cmd/desync/testdata/*.caidx"} {
		m, _ := filepath.Glob(pat)
		for _, f := range m {
			b, err := os.ReadFile(f)
			if err == nil && len(b) < 1<<20 {
				corpus = append(corpus, b)
				corpusNames = append(corpusNames, filepath.Base(f))
			}
		}
	}
	// small well-formed inputs of our own making: indexes with 0, 1, 2 and 9 chunks (the index of an empty blob is
	// perfectly valid), archives of an empty directory, of one file, of a nested tree
	for _, n := range []int{0, 1, 2, 9} {
		ci := oracle.Caibx{Flags: oracle.FlagSHA512256 | 0x8000000000000000, Min: 16, Avg: 64, Max: 256}
		for k := 0; k < n; k++ {
			it := oracle.CaibxItem{End: uint64(k+1) * 100}
			it.ID[0] = byte(k + 1)
			ci.Items = append(ci.Items, it)
		}
		corpus = append(corpus, ci.Encode())
		corpusNames = append(corpusNames, fmt.Sprintf("own-index-%d-chunks", n))
	}
	gb := u64(16+24, desync.CaFormatGoodbye, 0, 40, desync.CaFormatGoodbyeTailMarker)
	cat := func(parts ...[]byte) []byte { return bytes.Join(parts, nil) }
	corpus = append(corpus, cat(validEntry(0040755), gb))
	corpusNames = append(corpusNames, "own-archive-empty-dir")
	corpus = append(corpus, cat(validEntry(0100644), u64(16+5, desync.CaFormatPayload), []byte("hello")))
	corpusNames = append(corpusNames, "own-archive-single-file")
	corpus = append(corpus, cat(validEntry(0040755), filename("d"), validEntry(0040755), filename("f"), validEntry(0100644), u64(16+5, desync.CaFormatPayload), []byte("hello"), gb, filename("l"), validEntry(0120777), u64(16+2, desync.CaFormatSymlink), []byte("x\x00"), gb))
	corpusNames = append(corpusNames, "own-archive-nested")
	log.SetOutput(io.Discard)
	desync.Log.SetOutput(io.Discard)
}

// genValid returns a well-formed input unchanged: "arbitrary input" includes the valid corner cases.
func genValid(rng *rand.Rand) ([]byte, string) {
	k := rng.Intn(len(corpus))
	return corpus[k], "valid|" + corpusNames[k]
}

var elemTypes = []uint64{desync.CaFormatEntry, desync.CaFormatUser, desync.CaFormatGroup, desync.CaFormatXAttr, desync.CaFormatACLUser, desync.CaFormatACLGroup, desync.CaFormatACLGroupObj,
	desync.CaFormatACLDefault, desync.CaFormatACLDefaultUser, desync.CaFormatACLDefaultGroup, desync.CaFormatFCaps, desync.CaFormatSELinux, desync.CaFormatSymlink, desync.CaFormatDevice,
	desync.CaFormatPayload, desync.CaFormatFilename, desync.CaFormatGoodbye, desync.CaFormatIndex, desync.CaFormatTable, 0, 0x1234567890abcdef}

func sizeValue(rng *rand.Rand) (uint64, string) {
	switch rng.Intn(6) {
	case 0, 1:
		v := uint64(rng.Intn(81))
		return v, fmt.Sprintf("small:%d", v)
	case 2:
		e := uint(rng.Intn(64))
		v := uint64(1) << e
		switch rng.Intn(4) {
		case 1:
			v++
		case 2:
			v--
		case 3:
			v *= 3
		}
		return v, fmt.Sprintf("2^%d", e)
	case 3:
		return ^uint64(0) - uint64(rng.Intn(17)), "max-k"
	case 4:
		v := uint64(81 + rng.Intn(5000))
		return v, "hundreds"
	default:
		v := uint64(rng.Int63())
		return v, "random64"
	}
}

func u64(v ...uint64) []byte {
	b := make([]byte, 8*len(v))
	for i, x := range v {
		binary.LittleEndian.PutUint64(b[8*i:], x)
	}
	return b
}

func validEntry(mode uint64) []byte {
	return u64(64, desync.CaFormatEntry, desync.TarFeatureFlags, mode, 0, 0, 0, 1500000000000000000)
}

func filename(name string) []byte {
	return append(u64(uint64(16+len(name)+1), desync.CaFormatFilename), append([]byte(name), 0)...)
}

// genElement builds one hostile element stream.
func genElement(rng *rand.Rand) ([]byte, string) {
	typ := elemTypes[rng.Intn(len(elemTypes))]
	size, sclass := sizeValue(rng)
	var body []byte
	bkind := []string{"absent", "short", "exact", "long", "absent", "short", "exact", "long", "very-long"}[rng.Intn(9)]
	switch bkind {
	case "very-long":
		// more data behind the header than any read-ahead: a size field far beyond it must still not be believed
		body = make([]byte, 65536+rng.Intn(8000))
	case "short":
		body = make([]byte, rng.Intn(16))
	case "exact":
		n := uint64(0)
		if size >= 16 {
			n = size - 16
		}
		if n > 8192 {
			n = 8192
		}
		body = make([]byte, n)
	case "long":
		body = make([]byte, 64+rng.Intn(4000))
	}
	if rng.Intn(2) == 0 {
		rng.Read(body)
	}
	if typ == desync.CaFormatGoodbye && bkind != "absent" && rng.Intn(2) == 0 && len(body) >= 24 {
		// plausible tail marker at the end
		binary.LittleEndian.PutUint64(body[len(body)-8:], desync.CaFormatGoodbyeTailMarker)
	}
	el := append(u64(size, typ), body...)
	ctx := []string{"alone", "after-entry", "in-dir"}[rng.Intn(3)]
	var out []byte
	switch ctx {
	case "alone":
		out = el
	case "after-entry":
		out = append(validEntry(0100644), el...)
	case "in-dir":
		out = append(append(append(validEntry(040755), filename("a")...), validEntry(0100644)...), el...)
	}
	tname := desync.FormatString[typ]
	if tname == "" {
		tname = fmt.Sprintf("type-%x", typ)
	}
	return out, fmt.Sprintf("element|%s|%s|%s|%s", tname, sclass, bkind, ctx)
}

// genSequence: elements that are each well-formed, in an order the grammar of an archive does not allow (a goodbye
// with no directory open, one goodbye too many, payload without entry, two entries in a row, names without entries,
// a complete archive followed by more) - bookkeeping of the decoder (depth, current directory, pending entry) must
// cope with every order.
func genSequence(rng *rand.Rand) ([]byte, string) {
	goodbye := u64(16+24, desync.CaFormatGoodbye, 0, 40, desync.CaFormatGoodbyeTailMarker)
	payload := append(u64(16+5, desync.CaFormatPayload), []byte("hello")...)
	symlink := append(u64(16+2, desync.CaFormatSymlink), 'x', 0)
	device := u64(32, desync.CaFormatDevice, 1, 3)
	file := func(n string) []byte { return append(append(filename(n), validEntry(0100644)...), payload...) }
	var out []byte
	var sig []byte
	add := func(code byte, b []byte) { out = append(out, b...); sig = append(sig, code) }
	shape := rng.Intn(8)
	switch shape {
	case 0: // complete small archive, then surplus goodbyes
		add('D', validEntry(040755))
		add('f', file("a"))
		add('g', goodbye)
		for k := 0; k < 1+rng.Intn(3); k++ {
			add('g', goodbye)
		}
	case 1: // a single-file archive followed by a goodbye
		add('F', validEntry(0100644))
		add('p', payload)
		add('g', goodbye)
	case 2: // begins with goodbye(s)
		for k := 0; k < 1+rng.Intn(2); k++ {
			add('g', goodbye)
		}
		if rng.Intn(2) == 0 {
			add('D', validEntry(040755))
			add('g', goodbye)
		}
	case 3: // empty directory closed twice, inside a root
		add('D', validEntry(040755))
		add('n', filename("d"))
		add('D', validEntry(040755))
		add('g', goodbye)
		add('g', goodbye)
		add('g', goodbye)
	case 4: // a corpus archive with goodbyes in front of or behind it
		var ks []int
		for k, n := range corpusNames {
			if strings.HasSuffix(n, ".catar") {
				ks = append(ks, k)
			}
		}
		if len(ks) > 0 {
			if rng.Intn(2) == 0 {
				add('g', goodbye)
			}
			add('A', corpus[ks[rng.Intn(len(ks))]])
			for k := 0; k < rng.Intn(3); k++ {
				add('g', goodbye)
			}
			if rng.Intn(3) == 0 {
				add('f', file("late"))
			}
		}
	default: // a random walk over well-formed elements
		for k := 0; k < 2+rng.Intn(14); k++ {
			switch rng.Intn(9) {
			case 0:
				add('D', validEntry(040755))
			case 1:
				add('F', validEntry(0100644))
			case 2:
				add('L', validEntry(0120777))
			case 3:
				add('p', payload)
			case 4:
				add('s', symlink)
			case 5, 6:
				add('g', goodbye)
			case 7:
				add('C', append(validEntry(0020644), device...))
			default:
				add('n', filename([]string{"a", "b", "zz"}[rng.Intn(3)]))
			}
		}
	}
	return out, fmt.Sprintf("sequence|%d|%s", shape, string(sig))
}

func genTruncation(rng *rand.Rand) ([]byte, string) {
	k := rng.Intn(len(corpus))
	b := corpus[k]
	cut := rng.Intn(len(b) + 1)
	if rng.Intn(2) == 0 && len(b) > 0 {
		// at and next to the places where elements begin and end in index files and small archives
		cands := []int{0, 8, 15, 16, 47, 48, 49, 55, 56, 57, 63, 64, 65, 72, 104, len(b) - 41, len(b) - 40, len(b) - 39, len(b) - 9, len(b) - 8, len(b) - 1}
		cut = cands[rng.Intn(len(cands))]
		if cut < 0 || cut > len(b) {
			cut = rng.Intn(len(b) + 1)
		}
	}
	return b[:cut], fmt.Sprintf("truncation|%s|%d-of-%d", corpusNames[k], cut, len(b))
}

// genSizeField: an element of fixed size whose size field says something else, everything around it well-formed: the
// INDEX header of a valid index file, or ENTRY / DEVICE / ACL_GROUP_OBJ / ACL_DEFAULT in an element stream. Such input
// is malformed and must yield an error.
func genSizeField(rng *rand.Rand) ([]byte, string, string) {
	wrongFor := func(right uint64) uint64 {
		w := []uint64{0, 16, 17, right - 1, right + 1, right + 8, right - 8, 1 << 63, ^uint64(0)}[rng.Intn(9)]
		if w == right {
			w = right + 16
		}
		return w
	}
	if rng.Intn(2) == 0 {
		var ks []int
		for k, n := range corpusNames {
			if isIndexName(n) && len(corpus[k]) >= 48 {
				ks = append(ks, k)
			}
		}
		k := ks[rng.Intn(len(ks))]
		b := append([]byte(nil), corpus[k]...)
		w := wrongFor(48)
		binary.LittleEndian.PutUint64(b, w)
		return b, fmt.Sprintf("sizefield|index-header|%s|%d", corpusNames[k], w), "index"
	}
	type el struct {
		name string
		typ  uint64
		size uint64
	}
	e := []el{{"entry", desync.CaFormatEntry, 64}, {"device", desync.CaFormatDevice, 32}, {"acl-group-obj", desync.CaFormatACLGroupObj, 24}, {"acl-default", desync.CaFormatACLDefault, 48}}[rng.Intn(4)]
	w := wrongFor(e.size)
	body := make([]byte, e.size-16)
	if e.name == "entry" {
		copy(body, validEntry(0100644)[16:])
	}
	out := append(u64(w, e.typ), body...)
	if e.name != "entry" {
		out = append(validEntry(0100644), out...)
	}
	out = append(out, u64(16+3, desync.CaFormatPayload)...)
	out = append(out, "abc"...)
	return out, fmt.Sprintf("sizefield|%s|%d", e.name, w), "format"
}

func isIndexName(n string) bool {
	return strings.HasSuffix(n, ".caibx") || strings.HasSuffix(n, ".caidx") || strings.HasSuffix(n, ".index") || strings.HasPrefix(n, "own-index")
}

func genMutation(rng *rand.Rand) ([]byte, string) {
	k := rng.Intn(len(corpus))
	b := append([]byte(nil), corpus[k]...)
	kind := rng.Intn(4)
	for m := 0; m < 1+rng.Intn(4); m++ {
		if len(b) == 0 {
			break
		}
		switch kind {
		case 0:
			b[rng.Intn(len(b))] ^= 1 << uint(rng.Intn(8))
		case 1:
			b[rng.Intn(len(b))] = byte(rng.Intn(256))
		case 2:
			// overwrite an aligned u64 (likely a size or offset field)
			o := rng.Intn(len(b)/8+1) * 8
			if o+8 <= len(b) {
				v, _ := sizeValue(rng)
				binary.LittleEndian.PutUint64(b[o:], v)
			}
		case 3:
			o := rng.Intn(len(b))
			b = append(b[:o], b[min(len(b), o+rng.Intn(64)):]...)
		}
	}
	return b, fmt.Sprintf("mutation%d|%s", kind, corpusNames[k])
}

func genProtocol(rng *rand.Rand) ([]byte, string) {
	length, sclass := sizeValue(rng)
	typ := []uint64{desync.CaProtocolHello, desync.CaProtocolRequest, desync.CaProtocolChunk, desync.CaProtocolMissing, desync.CaProtocolGoodbye, desync.CaProtocolAbort, 0, 42}[rng.Intn(8)]
	body := make([]byte, []int{0, 0, 7, 8, 40, 41, 300, 0, 7, 8, 40, 41, 300, 66000, 70001}[rng.Intn(15)])
	rng.Read(body)
	return append(u64(length, typ), body...), "protocol|" + sclass + fmt.Sprintf("|t%x|b%d", typ&0xff, len(body))
}

type result struct {
	outcome string
	alloc   uint64
	panicV  interface{}
	stack   string
}

func measure(f func() string) (r result) {
	var m0, m1 runtime.MemStats
	runtime.ReadMemStats(&m0)
	func() {
		defer func() {
			if p := recover(); p != nil {
				r.panicV = p
				buf := make([]byte, 4096)
				r.stack = string(buf[:runtime.Stack(buf, false)])
			}
		}()
		r.outcome = f()
	}()
	runtime.ReadMemStats(&m1)
	r.alloc = m1.TotalAlloc - m0.TotalAlloc
	return
}

func hello(flags uint64) []byte {
	return append(u64(24, desync.CaProtocolHello), u64(flags)...)
}

func run(c *harness.Ctx, i int) {
	rng := c.Rng
	desync.Digest = desync.SHA512256{}
	dir := c.CaseDir()
	inputFile := filepath.Join(dir, "input")
	var srv *httptest.Server
	var srvLog bytes.Buffer
	for k := 0; k < perCase; k++ {
		var in []byte
		var gen string
		forced := ""
		switch rng.Intn(11) {
		case 10:
			in, gen = genSequence(rng)
			forced = []string{"archive", "archive", "format"}[rng.Intn(3)]
		case 9:
			in, gen, forced = genSizeField(rng)
		case 8:
			in, gen = genValid(rng)
		case 0, 1, 2:
			in, gen = genElement(rng)
		case 3:
			in, gen = genTruncation(rng)
		case 4, 5:
			in, gen = genMutation(rng)
		default:
			in, gen = genProtocol(rng)
		}
		targets := []string{"index", "format", "archive"}
		if strings.HasPrefix(gen, "protocol") {
			targets = []string{"readmessage", "recvhello", "requestchunk", "serve"}
		} else if rng.Intn(6) == 0 {
			targets = []string{"http-put"}
		}
		target := targets[rng.Intn(len(targets))]
		if forced != "" {
			target = forced
		}
		os.WriteFile(inputFile, in, 0644)
		c.Info("input %d: target=%s gen=%s len=%d (saved at %s)", k, target, gen, len(in), inputFile)
		c.LogInfo()
		var r result
		switch target {
		case "index":
			r = measure(func() string {
				idx, err := desync.IndexFromReader(bytes.NewReader(in))
				if err != nil {
					return "error"
				}
				return fmt.Sprintf("ok:%d", min(len(idx.Chunks), 2))
			})
		case "format":
			r = measure(func() string {
				d := desync.NewFormatDecoder(bytes.NewReader(in))
				n := 0
				for n < 100000 {
					e, err := d.Next()
					if err != nil {
						return "error"
					}
					if e == nil {
						break
					}
					n++
				}
				return fmt.Sprintf("ok:%d", min(n, 2))
			})
		case "archive":
			r = measure(func() string {
				d := desync.NewArchiveDecoder(bytes.NewReader(in))
				n := 0
				for n < 100000 {
					e, err := d.Next()
					if err != nil {
						return "error"
					}
					if e == nil {
						break
					}
					if f, ok := e.(desync.NodeFile); ok && k%2 == 0 { // every other input: the consumer does not look at the content
						got, cerr := io.Copy(io.Discard, io.LimitReader(f.Data, 1<<20))
						if cerr != nil || (f.Size <= 1<<20 && uint64(got) != f.Size) {
							return "error" // the content ended early: the consumer can tell
						}
					}
					n++
				}
				return fmt.Sprintf("ok:%d", min(n, 2))
			})
		case "readmessage":
			r = measure(func() string {
				_, err := desync.NewProtocol(bytes.NewReader(in), io.Discard).ReadMessage()
				if err != nil {
					return "error"
				}
				return "ok:1"
			})
		case "recvhello":
			r = measure(func() string {
				_, err := desync.NewProtocol(bytes.NewReader(in), io.Discard).RecvHello()
				if err != nil {
					return "error"
				}
				return "ok:1"
			})
		case "requestchunk":
			full := append(hello(desync.CaProtocolReadableStore), in...)
			r = measure(func() string {
				p := desync.NewProtocol(bytes.NewReader(full), io.Discard)
				if _, err := p.Initialize(desync.CaProtocolPullChunks); err != nil {
					return "error"
				}
				_, err := p.RequestChunk(desync.ChunkID{1, 2, 3})
				if err != nil {
					return "error"
				}
				return "ok:2"
			})
		case "serve":
			full := append(hello(desync.CaProtocolPullChunks), in...)
			ms := dsu.NewMemStore("s")
			r = measure(func() string {
				err := desync.NewProtocolServer(bytes.NewReader(full), io.Discard, ms).Serve(context.Background())
				if err != nil {
					return "error"
				}
				return "ok:2"
			})
		case "http-put":
			if srv == nil {
				ls, err := desync.NewLocalIndexStore(dir)
				dsu.Must(err)
				srv = httptest.NewUnstartedServer(desync.NewHTTPIndexHandler(ls, true, ""))
				srv.Config.ErrorLog = log.New(&srvLog, "", 0)
				srv.Start()
				defer srv.Close()
			}
			srvLog.Reset()
			rawCL := rng.Intn(2) == 0
			var claimed uint64
			if rawCL {
				claimed, _ = sizeValue(rng)
				claimed &= 1<<62 - 1
			}
			r = measure(func() string {
				if rawCL {
					// raw request: the announced length is unrelated to what is sent
					conn, err := net.DialTimeout("tcp", strings.TrimPrefix(srv.URL, "http://"), 5*time.Second)
					if err != nil {
						return "error"
					}
					defer conn.Close()
					conn.SetDeadline(time.Now().Add(10 * time.Second))
					fmt.Fprintf(conn, "PUT /x.caibx HTTP/1.1\r\nHost: x\r\nConnection: close\r\nContent-Length: %d\r\n\r\n", claimed)
					conn.Write(in[:min(len(in), 200)])
					if tc, ok := conn.(*net.TCPConn); ok {
						tc.CloseWrite()
					}
					io.Copy(io.Discard, conn)
					return "error"
				}
				req, _ := http.NewRequest("PUT", srv.URL+"/x.caibx", bytes.NewReader(in))
				resp, err := http.DefaultClient.Do(req)
				if err != nil {
					return "error"
				}
				io.Copy(io.Discard, resp.Body)
				resp.Body.Close()
				if resp.StatusCode == 200 {
					return "ok:1"
				}
				return "error"
			})
			if strings.Contains(srvLog.String(), "panic") {
				c.Violation("panic:http-put:"+classOf(gen), "index handler panicked on a PUT body (%s, %d bytes; saved in the replay): %s", gen, len(in), firstLines(srvLog.String(), 6))
				saveInput(c, in)
				return
			}
			// the HTTP client/server machinery allocates on its own: use a wider bound
			if r.alloc > 8<<20+64*uint64(len(in)) {
				c.Violation("alloc:http-put:"+classOf(gen), "PUT of %d bytes (%s) made the process allocate %d bytes", len(in), gen, r.alloc)
				saveInput(c, in)
				return
			}
			r.alloc = 0
		}
		c.Count("inputs", 1)
		if r.panicV != nil {
			c.Violation("panic:"+target+":"+classOf(gen), "%s panicked on input %s (%d bytes: %x...): %v\n%s", target, gen, len(in), in[:min(len(in), 48)], r.panicV, firstLines(r.stack, 14))
			saveInput(c, in)
			return
		}
		if bound := uint64(1<<20) + 32*uint64(len(in)); r.alloc > bound {
			c.Violation("alloc:"+target+":"+classOf(gen), "%s allocated %d bytes for an input of %d bytes (%s; bound %d): %x...", target, r.alloc, len(in), gen, bound, in[:min(len(in), 48)])
			saveInput(c, in)
			return
		}
		if strings.HasPrefix(gen, "sizefield|") && strings.HasPrefix(r.outcome, "ok") {
			c.Violation("malformed-accepted:size-field", "%s: a fixed-size element whose size field is wrong was decoded without an error (%s, target %s)", gen, r.outcome, target)
			saveInput(c, in)
			return
		}
		// a strict prefix of an index file is malformed input: it must yield an error, not a (shorter) table
		if f := strings.Split(gen, "|"); target == "index" && f[0] == "truncation" && len(f) == 3 && isIndexName(f[1]) && strings.HasPrefix(r.outcome, "ok") {
			var cut, full int
			fmt.Sscanf(f[2], "%d-of-%d", &cut, &full)
			if cut < full {
				c.Violation("malformed-accepted:index", "IndexFromReader accepted the first %d of the %d bytes of %s as an index (%s)", cut, full, f[1], r.outcome)
				saveInput(c, in)
				return
			}
		}
		// ... and so is a strict prefix of an archive: it ends inside an element, inside a file's content or with
		// directories still open
		if f := strings.Split(gen, "|"); target == "archive" && f[0] == "truncation" && len(f) == 3 && (strings.HasSuffix(f[1], ".catar") || strings.HasPrefix(f[1], "own-archive")) && strings.HasPrefix(r.outcome, "ok") {
			var cut, full int
			fmt.Sscanf(f[2], "%d-of-%d", &cut, &full)
			if cut > 0 && cut < full { // (an empty stream is taken as an archive of nothing)
				c.Violation("malformed-accepted:archive", "ArchiveDecoder read the first %d of the %d bytes of %s to the end without an error (%s)", cut, full, f[1], r.outcome)
				saveInput(c, in)
				return
			}
		}
		// an archive with a goodbye element where no directory is open (one too many at the end, one in front, a file as
		// root closed like a directory) is malformed input
		if f := strings.Split(gen, "|"); target == "archive" && f[0] == "sequence" && (f[1] == "0" || f[1] == "1" || f[1] == "2" || f[1] == "3") && strings.HasPrefix(r.outcome, "ok") {
			c.Violation("malformed-accepted:surplus-goodbye", "ArchiveDecoder read an element sequence (%s: D/F/L = directory/file/link entry, n = filename, p = payload, g = goodbye, f = named file) with a goodbye element that closes nothing to the end without an error (%s)", f[2], r.outcome)
			saveInput(c, in)
			return
		}
		if r.outcome == "error" || r.outcome == "ok:2" {
			g := gen
			if strings.HasPrefix(gen, "truncation") || strings.HasPrefix(gen, "mutation") {
				g = strings.SplitN(gen, "|", 2)[0]
			}
			c.NonTrivial("%s|%s|%s", target, g, r.outcome)
		}
		if k == 0 {
			c.Sample(map[string]interface{}{"target": target, "generator": gen, "len": len(in), "first_bytes": fmt.Sprintf("%x", in[:min(len(in), 32)]), "outcome": r.outcome, "alloc_bytes": r.alloc})
		}
	}
}

func classOf(gen string) string {
	p := strings.Split(gen, "|")
	if len(p) >= 3 && p[0] == "element" {
		return p[1] + "|" + strings.SplitN(p[2], ":", 2)[0]
	}
	return p[0]
}

func firstLines(s string, n int) string {
	l := strings.Split(s, "\n")
	if len(l) > n {
		l = l[:n]
	}
	return strings.Join(l, "\n")
}

func saveInput(c *harness.Ctx, in []byte) {
	d := filepath.Join(harness.VerifDir, "replays", "C19")
	os.MkdirAll(d, 0755)
	os.WriteFile(filepath.Join(d, fmt.Sprintf("input-seed%d-%s.bin", c.Seed, time.Now().Format("150405.000"))), in, 0644)
}
