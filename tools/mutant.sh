#!/bin/bash
# tools/mutant.sh <patch.diff> <ID> [tier] [-R]
# Applies a seeded change to /repo, runs the check of property ID, restores /repo. Prints the verdict line.
set -u
patch=$(readlink -f "$1"); id=$2; tier=${3:-quick}; rev=${4:-}
cd /repo || exit 2
if [ -n "$(git status --porcelain --untracked-files=no)" ]; then echo "/repo not clean" >&2; exit 2; fi
if ! git apply $rev --3way "$patch" 2>/tmp/mutant-apply.log && ! git apply $rev "$patch" 2>>/tmp/mutant-apply.log; then echo "patch does not apply: $(cat /tmp/mutant-apply.log | head -3)"; git reset -q --hard HEAD; exit 3; fi
git reset -q
cd /verif
out=$(VERIF_SEED=${VERIF_SEED:-1} ./check "$id" "$tier" 2>&1); rc=$?
cd /repo && git reset -q --hard HEAD
echo "$out" | grep -E "^(property=|VIOLATION|INCONCLUSIVE|KNOWN-FINDING)" | head -8
echo "$out" | grep -E "^  class=" | sort | uniq -c | head -8
echo "exit=$rc"
nv=$(echo "$out" | grep -oE "violations=[0-9]+" | head -1); classes=$(echo "$out" | grep -oE "^  class=[^ ]+" | sort -u | tr -d " " | paste -sd, | cut -c1-200)
printf "%s\t%s\t%s\tseed=%s\texit=%s\t%s\t%s\n" "$(basename $(dirname $patch))" "$id" "$tier" "${VERIF_SEED:-1}" "$rc" "$nv" "$classes" >> /verif/seeded/results.tsv
