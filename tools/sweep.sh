#!/bin/bash
# tools/sweep.sh <seed> [tier] [ids...]: runs the checks from a scratch copy of /verif's working tree (so that /verif's
# evidence and work files stay untouched) against /repo itself; one line per check. For false-alarm control.
seed=${1:-1}; tier=${2:-quick}; shift; shift
ids=${@:-$(seq -f "C%02g" 1 20)}
vw=/tmp/sweep/verif-$seed-$tier-$$; mkdir -p /tmp/sweep
rsync -a --exclude .git --exclude .bin --exclude .work --exclude replays --exclude evidence --exclude seeded /verif/ "$vw"/
mkdir -p "$vw/evidence"
for id in $ids; do
  s=$(date +%s)
  (cd "$vw" && VERIF_DIR=$vw VERIF_SEED=$seed ./check $id $tier > $vw/$id.log 2>&1); rc=$?
  echo "$id seed=$seed exit=$rc $(( $(date +%s) - s ))s $(grep -E '^property' $vw/$id.log | cut -c1-150)"
  grep -E "^(VIOLATION|INCONCLUSIVE|  class)" $vw/$id.log | head -6
  [ $rc -ne 0 ] && { mkdir -p /tmp/sweep/failed; cp $vw/$id.log /tmp/sweep/failed/$id-seed$seed-$tier.log; cp -r $vw/replays/$id /tmp/sweep/failed/$id-seed$seed-replays 2>/dev/null; }
done
rm -rf "$vw"
