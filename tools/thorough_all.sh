#!/bin/bash
# runs every check in the thorough tier from the current directory (a snapshot), without touching /verif
export VERIF_DIR=$PWD
seed=${1:-1}
for i in $(seq -w 1 20); do
  s=$(date +%s)
  VERIF_SEED=$seed ./check C$i thorough > thorough-C$i.log 2>&1; rc=$?
  e=$(( $(date +%s) - s ))
  echo "C$i exit=$rc ${e}s $(grep -E '^property' thorough-C$i.log | cut -c1-140)"
  grep -E "^(VIOLATION|INCONCLUSIVE|  class)" thorough-C$i.log | head -6
done
