#!/usr/bin/env python3
# tools/gen_prompts.py <workdir> <first-new-index>: writes <workdir>/out/Cnn.prompt.txt for the sub-agents that write
# seeded changes. Each prompt holds the property text and one-line titles of the changes that exist already, nothing
# else from /verif.
import json, os, re, sys, glob
work, k = sys.argv[1], int(sys.argv[2])
props = {}
for l in open('/verif/properties.jsonl'):
    d = json.loads(l); props[d['id']] = d
existing = {p: [] for p in props}
for d in sorted(glob.glob('/verif/seeded/*/')):
    name = os.path.basename(d.rstrip('/'))
    try:
        meta = json.load(open(d + 'meta.json'))
    except Exception:
        continue
    p = meta.get('breaks_property')
    if p not in existing or not os.path.exists(d + 'patch.diff'):
        continue
    title = meta.get('title') or meta.get('what') or ''
    if not title and os.path.exists(d + 'notes.md'):
        first = open(d + 'notes.md').readline().strip().lstrip('# ').strip()
        title = re.sub(r'^C\d\d\s*[/-]?\s*m\d+\s*[—:-]*\s*', '', first)
    if not title:
        title = str(meta.get('needs_to_manifest', ''))[:150]
    files = sorted(set(re.findall(r'^\+\+\+ b/(\S+)', open(d + 'patch.diff').read(), re.M)))
    label = name if not re.match(r'C\d\d-m\d+$', name) else name.replace('-', ' / ')
    existing[p].append('- %s — %s (files: %s)' % (label, title[:200], ', '.join(files)))
T = open('/verif/tools/prompt_template.txt').read()
for p, d in props.items():
    txt = T.replace('@W@', work).replace('@P@', p).replace('@JSON@', json.dumps(d, indent=1)) \
        .replace('@N@', str(len(existing[p]))).replace('@LIST@', '\n'.join(existing[p])) \
        .replace('@A@', 'm%d' % k).replace('@B@', 'm%d' % (k + 1)).replace('@KA@', str(k)).replace('@KB@', str(k + 1))
    open('%s/out/%s.prompt.txt' % (work, p), 'w').write(txt)
print('written', len(props))
