#!/bin/bash
# /tmp/recfix.sh <prop> <slug> "<what failed>" "<needs>" [probe file]  -- after committing a fix in /repo: record it
prop=$1; slug=$2; what=$3; needs=$4; probe=${5:-}
h=$(git -C /repo rev-parse --short HEAD); subj=$(git -C /repo log -1 --format=%s)
cd /verif
echo "fixed: property=$prop $h $what" >> known_findings.txt
d=seeded/revert-$(echo $prop | tr A-Z a-z)-$slug; mkdir -p $d
git -C /repo show $h --format= > $d/patch.diff
python3 - "$d" "$prop" "$h" "$subj" "$needs" <<'PY'
import json,sys
d,prop,h,subj,needs=sys.argv[1:6]
json.dump({"name":d.split('/')[-1],"breaks_property":prop,"source":"reverse of the fix commit %s (%s); apply with git apply -R"%(h,subj),"needs_to_manifest":needs,"apply":"git -C /repo apply -R patch.diff"},open(d+'/meta.json','w'),indent=1)
PY
[ -n "$probe" ] && cp "$probe" $d/probe_test.go.txt
tools/pmutant.sh $(basename $d) $prop quick -R | tail -4
