#!/bin/bash
# tools/confirm_mutant.sh <agent-out-dir (holding patch.diff, demo_test.go, notes.md)> <name, e.g. C02-m1> <property>
# Confirms in a scratch worktree of /repo HEAD: patch applies, builds (with and without -tags verif), the repo
# suite passes (TestMountIndex excepted), the demo FAILS with the change and PASSES without. On success copies
# the change to /verif/seeded/<name>/ with a meta.json. The worktree is removed afterwards.
set -u
export GOFLAGS=-mod=mod GOPROXY=off GOSUMDB=off GOTOOLCHAIN=local
src=$(readlink -f "$1"); name=$2; prop=$3
wt=/tmp/confirm/$name
log=/tmp/confirm/$name.log
mkdir -p /tmp/confirm; rm -rf "$wt"; git -C /repo worktree prune
git -C /repo worktree add -q --detach "$wt" HEAD || exit 2
cleanup() { git -C /repo worktree remove --force "$wt" 2>/dev/null; git -C /repo worktree prune; }
trap cleanup EXIT
cd "$wt" || exit 2
: > "$log"
if ! git apply "$src/patch.diff" >>"$log" 2>&1; then
  if ! git apply --3way "$src/patch.diff" >>"$log" 2>&1; then echo "$name: PATCH DOES NOT APPLY"; exit 1; fi
  git reset -q
fi
git diff > "$wt.applied.diff"
go build ./... >>"$log" 2>&1 && go build -tags verif ./... >>"$log" 2>&1 || { echo "$name: BUILD FAILS"; exit 1; }
suite=$(go test -vet=off -count=1 ./... 2>&1 | grep -E "^--- FAIL" | grep -v "TestMountIndex" )
if [ -n "$suite" ]; then echo "$name: SUITE FAILS WITH CHANGE: $suite"; exit 1; fi
demo=$src/demo_test.go
if [ ! -f "$demo" ]; then echo "$name: no demo_test.go"; exit 1; fi
pkgdir=.
grep -q "^package main" "$demo" && pkgdir=cmd/desync
tags=""
grep -q "go:build verif" "$demo" && tags="-tags verif"; grep -q "go:build datadog" "$demo" && tags="-tags datadog"
tests=$(grep -oE "^func (Test[A-Za-z0-9_]+)" "$demo" | awk '{print $2}' | paste -sd'|')
cp "$demo" "$pkgdir/zz_demo_test.go"
go test $tags -vet=off -count=1 -timeout 300s -run "^($tests)\$" ./$pkgdir > "$wt.demo_with.txt" 2>&1; with=$?
git apply -R "$wt.applied.diff" || { echo "$name: cannot revert"; exit 1; }
go test $tags -vet=off -count=1 -timeout 300s -run "^($tests)\$" ./$pkgdir > "$wt.demo_without.txt" 2>&1; without=$?
if [ $with -eq 0 ]; then echo "$name: DEMO PASSES WITH CHANGE (not confirmed)"; exit 1; fi
if [ $without -ne 0 ]; then echo "$name: DEMO FAILS WITHOUT CHANGE (not confirmed)"; tail -5 "$wt.demo_without.txt"; exit 1; fi
dst=/verif/seeded/$name
mkdir -p "$dst"
cp "$wt.applied.diff" "$dst/patch.diff"
cp "$demo" "$dst/demo_test.go.txt"
[ -f "$src/notes.md" ] && cp "$src/notes.md" "$dst/notes.md"
for f in "$src"/demo*.sh; do [ -f "$f" ] && cp "$f" "$dst/"; done
python3 - "$dst" "$name" "$prop" "$pkgdir" "$tags" "$tests" <<'PY'
import json,sys,subprocess
dst,name,prop,pkgdir,tags,tests=sys.argv[1:7]
head=subprocess.run(['git','-C','/repo','rev-parse','HEAD'],capture_output=True,text=True).stdout.strip()
notes=open(dst+'/notes.md').read() if __import__('os').path.exists(dst+'/notes.md') else ''
json.dump({
 "name":name,"breaks_property":prop,"source":"independent sub-agent given only the property text and a scratch worktree",
 "confirmed_against_repo_commit":head,
 "confirmation":{"applies":True,"builds_with_and_without_tag_verif":True,"repo_suite_passes_with_change_except_TestMountIndex":True,
   "demo":"demo_test.go.txt (copy into %s as *_test.go)"%pkgdir,"demo_cmd":"go test %s -vet=off -count=1 -run '^(%s)$' ./%s"%(tags,tests,pkgdir),
   "demo_fails_with_change":True,"demo_passes_without_change":True},
 "needs_to_manifest":"see notes.md (written by the sub-agent)","detected_by":"(filled in below by tools/record_detection.py)"
},open(dst+'/meta.json','w'),indent=1)
PY
rm -f "$wt".applied.diff "$wt".demo_with.txt "$wt".demo_without.txt
echo "$name: CONFIRMED"
