#!/bin/bash
# tools/pmutant.sh <seeded-name> <ID> [tier] [-R]
# Like mutant.sh but never touches /repo or /verif's work files: the seeded change is applied in a scratch worktree
# of /repo's HEAD, the check runs from a scratch copy of /verif's working tree with VERIF_DIR/VERIF_REPO pointing at
# the two, both are removed afterwards. Safe to run several at once (and while checks run in /verif).
set -u
export GOFLAGS=-mod=mod GOPROXY=off GOSUMDB=off GOTOOLCHAIN=local
name=$1; id=$2; tier=${3:-quick}; rev=${4:-}
patch=/verif/seeded/$name/patch.diff
base=/tmp/pm; mkdir -p $base
rw=$base/repo-$name-$id; vw=$base/verif-$name-$id
rm -rf "$rw" "$vw"; git -C /repo worktree prune
git -C /repo worktree add -q --detach "$rw" HEAD || exit 2
cleanup() { git -C /repo worktree remove --force "$rw" 2>/dev/null; git -C /repo worktree prune; rm -rf "$vw"; }
trap cleanup EXIT
if ! git -C "$rw" apply $rev "$patch" 2>$base/$name.apply.log && ! git -C "$rw" apply $rev --3way "$patch" 2>>$base/$name.apply.log; then
  echo "$name: patch does not apply: $(head -3 $base/$name.apply.log)"; exit 3
fi
rsync -a --exclude .git --exclude .bin --exclude .work --exclude replays --exclude evidence --exclude seeded /verif/ "$vw"/
mkdir -p "$vw/evidence"
out=$(cd "$vw" && VERIF_DIR=$vw VERIF_REPO=$rw VERIF_SEED=${VERIF_SEED:-1} ./check "$id" "$tier" 2>&1); rc=$?
echo "== $name ($id $tier seed=${VERIF_SEED:-1}) exit=$rc"
echo "$out" | grep -E "^(property=|VIOLATION|INCONCLUSIVE|KNOWN-FINDING)" | head -6
echo "$out" | grep -E "^  class=" | cut -c1-200 | sort | uniq -c | head -8
[ $rc -ne 0 ] && [ $rc -ne 1 ] && echo "$out" | tail -15
nv=$(echo "$out" | grep -oE "violations=[0-9]+" | head -1); classes=$(echo "$out" | grep -oE "^  class=[^ ]+" | sort -u | tr -d " " | paste -sd, | cut -c1-200)
( flock 9; printf "%s\t%s\t%s\tseed=%s\texit=%s\t%s\t%s\n" "$name" "$id" "$tier" "${VERIF_SEED:-1}" "$rc" "$nv" "$classes" >> /verif/seeded/results.tsv ) 9>/tmp/pm/results.lock
