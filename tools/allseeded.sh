#!/bin/bash
# runs every seeded change; forward or reverse is decided from meta.json ("apply" holding "-R")
cd /verif
for d in seeded/*/; do
  n=$(basename $d); [ -f $d/patch.diff ] || continue
  p=$(python3 -c "import json;print(json.load(open('$d/meta.json'))['breaks_property'])")
  r=""; grep -q '"apply": "git -C /repo apply -R' $d/meta.json && r="-R"
  echo "$n $p quick $r"
done
