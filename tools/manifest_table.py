NA = {}
prop('C02','exploration','reference-model monitor (independent non-rolling chunker) over PRNG case lists + Go race detector + schedule perturbation at hook points',
 'Runs Chunker.Next, IndexFromFile(n=1..16), ChunkStream and `desync make` on generated inputs (boundary-sized, zero runs at worker starts, strided tails) under perturbed schedules with -race and compares every chunk table with an independent reference chunker anchored to a casync-made fixture; held on the cases explored, no proof.',
 'Trusted: oracle/refchunker.go (frozen buzhash table + discriminator formula, anchored against testdata/chunker.index each run), Go crypto hashes, the race detector. Schedules are sampled, not enumerated.',
 'DESIGN.md 5/C02')
prop('C01','exploration','byte-compare oracle over generated extract scenarios + emulated FICLONERANGE + deadlock classification of goroutine dumps + Go race detector',
 'Runs AssembleFile (and `desync extract`) on PRNG-generated blobs, seed sets (stale, empty, duplicate, self-aliasing ...), prior target contents, invalid-seed actions, worker counts, with and without an in-process FICLONERANGE emulation following the kernel checks, under schedule perturbation with -race; success must mean output == blob, and success is demanded where the statement demands it; panics and deadlocks are child crashes attributed to the case.',
 'Block cloning is emulated (no reflink filesystem here): kernel behaviour is modelled from generic_remap_* not observed. Hangs are decided from goroutine dumps (all goroutines blocked on sync primitives), the wall-clock watchdog alone is inconclusive.',
 'DESIGN.md 5/C01')
prop('C12','exploration','offline history checker (interval rule over caller/upstream events) + in-flight counter + deadlock classification + Go race detector, gate-controlled upstream and parks at hook points',
 'Drives DedupQueue and WriteDedupQueue with 2-8 concurrent callers over 1-3 IDs against an in-memory upstream whose calls are delayed/held and return unique objects, parks goroutines at the dedup hook points, records call/return events with one logical clock and checks every result against the upstream log: justified by an upstream request whose leader had not returned, at most one upstream request per (kind,ID) in flight, reads never bypass an in-flight write, all callers return.',
 'Interleavings are sampled by delays and parks, not enumerated. The property is read as: a result may be shared until the leader that produced it has returned (the stricter reading is unsatisfiable, see DESIGN.md).',
 'DESIGN.md 5/C12')
