NA = {}
prop('C02','exploration','reference-model monitor (independent non-rolling chunker) over PRNG case lists + Go race detector + schedule perturbation at hook points',
 'Runs Chunker.Next, IndexFromFile(n=1..16), ChunkStream and `desync make` on generated inputs (boundary-sized, zero runs at worker starts, strided tails) under perturbed schedules with -race and compares every chunk table with an independent reference chunker anchored to a casync-made fixture; held on the cases explored, no proof.',
 'Trusted: oracle/refchunker.go (frozen buzhash table + discriminator formula, anchored against testdata/chunker.index each run), Go crypto hashes, the race detector. Schedules are sampled, not enumerated.',
 'DESIGN.md 5/C02')
prop('C01','exploration','byte-compare oracle over generated extract scenarios + emulated FICLONERANGE + deadlock classification of goroutine dumps + Go race detector',
 'Runs AssembleFile (and `desync extract`) on PRNG-generated blobs, seed sets (stale, empty, duplicate, self-aliasing ...), prior target contents, invalid-seed actions, worker counts, with and without an in-process FICLONERANGE emulation following the kernel checks, under schedule perturbation with -race; success must mean output == blob, and success is demanded where the statement demands it; panics and deadlocks are child crashes attributed to the case.',
 'Block cloning is emulated (no reflink filesystem here): kernel behaviour is modelled from generic_remap_* not observed. Hangs are decided from goroutine dumps (all goroutines blocked on sync primitives), the wall-clock watchdog alone is inconclusive.',
 'DESIGN.md 5/C01')
prop('C12','exploration','offline history checker (interval rule over caller/upstream events) + in-flight counter + deadlock classification + Go race detector, gate-controlled upstream and parks at hook points',
 'Drives DedupQueue and WriteDedupQueue with 2-8 concurrent callers over 1-3 IDs against an in-memory upstream whose calls are delayed/held and return unique objects, parks goroutines at the dedup hook points, records call/return events with one logical clock and checks every result against the upstream log: justified by an upstream request whose leader had not returned, at most one upstream request per (kind,ID) in flight, reads never bypass an in-flight write, all callers return.',
 'Interleavings are sampled by delays and parks, not enumerated. The property is read as: a result may be shared until the leader that produced it has returned (the stricter reading is unsatisfiable, see DESIGN.md).',
 'DESIGN.md 5/C12')
prop('C11','exploration','reference-model monitor of the chain policy over sequential histories + call-log invariants and porcupine register check over concurrent histories + Go race detector',
 'Compares every result class and every member call of router / cache / repairable cache / failover / the full CLI chain with a reference model of the documented policy on random operation sequences over members with contents {valid, missing, invalid} and fault plans; concurrent legs assert sound invariants (failover with a healthy member never fails and makes <= len(members) calls, cache is not bypassed after a completed fill, swap never fails a request, never closes a store with requests in flight or calls it after close, swap/serve history linearizable).',
 'Reference model written from the documented policy; concurrent schedules sampled; members are in-memory stores.',
 'DESIGN.md 5/C11')
prop('C09','exploration','reference-cursor monitor over Seek/Read histories + cursor invariant via inspector hook + FUSE requests through the in-process go-fuse bridge + Go race detector',
 'Checks every Seek/Read of IndexPos and every FUSE read of the index mount node (several handles, concurrent) against a reference cursor over the blob, including failed seeks, store errors at request k, reads across chunk boundaries, null chunks, EOF and the empty blob; asserts the internal cursor invariant after every operation; `desync cat -o -l` is compared with blob slices.',
 'Kernel FUSE is not in the loop (no fusermount): requests are issued through go-fuse\'s RawFileSystem bridge. Store is in memory; index from the reference chunker.',
 'DESIGN.md 5/C09')
prop('C10','exploration','blob-bytes-or-error oracle over multi-session sparse-file histories with injected store faults, restarts and preload + done-bit invariant via inspector hook + Go race detector',
 'Drives SparseFile handles and the sparse mount node (bridge) with concurrent ReadAt sequences under transient store faults, saves state, restarts with every cache/state combination, preloads, and requires every nil/EOF read to return exactly the blob bytes (errors only with injected faults), no refetch of chunks done in a reused state, and done-bit => cache holds the chunk.',
 'In-memory store; FUSE node driven in process; resized cache means truncated/extended by the filesystem.',
 'DESIGN.md 5/C10')
