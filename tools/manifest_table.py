NA = {}
prop('C02','exploration','reference-model monitor (independent non-rolling chunker) over PRNG case lists + Go race detector + schedule perturbation at hook points',
 'Runs Chunker.Next, IndexFromFile(n=1..16), ChunkStream and `desync make` on generated inputs (boundary-sized, zero runs at worker starts, strided tails) under perturbed schedules with -race and compares every chunk table with an independent reference chunker anchored to a casync-made fixture; held on the cases explored, no proof.',
 'Trusted: oracle/refchunker.go (frozen buzhash table + discriminator formula, anchored against testdata/chunker.index each run), Go crypto hashes, the race detector. Schedules are sampled, not enumerated.',
 'DESIGN.md 5/C02')
prop('C01','exploration','byte-compare oracle over generated extract scenarios + emulated FICLONERANGE + deadlock classification of goroutine dumps + Go race detector',
 'Runs AssembleFile (and `desync extract`) on PRNG-generated blobs, seed sets (stale, empty, duplicate, self-aliasing ...), prior target contents, invalid-seed actions, worker counts, with and without an in-process FICLONERANGE emulation following the kernel checks, under schedule perturbation with -race; success must mean output == blob, and success is demanded where the statement demands it; panics and deadlocks are child crashes attributed to the case.',
 'Block cloning is emulated (no reflink filesystem here): kernel behaviour is modelled from generic_remap_* not observed. Hangs are decided from goroutine dumps (all goroutines blocked on sync primitives), the wall-clock watchdog alone is inconclusive.',
 'DESIGN.md 5/C01')
prop('C12','exploration','offline history checker (interval rule over caller/upstream events) + in-flight counter + deadlock classification + Go race detector, gate-controlled upstream and parks at hook points',
 'Drives DedupQueue and WriteDedupQueue with 2-8 concurrent callers over 1-3 IDs against an in-memory upstream whose calls are delayed/held and return unique objects, parks goroutines at the dedup hook points, records call/return events with one logical clock and checks every result against the upstream log: justified by an upstream request whose leader had not returned, at most one upstream request per (kind,ID) in flight, reads never bypass an in-flight write, all callers return.',
 'Interleavings are sampled by delays and parks, not enumerated. The property is read as: a result may be shared until the leader that produced it has returned (the stricter reading is unsatisfiable, see DESIGN.md).',
 'DESIGN.md 5/C12')
prop('C11','exploration','reference-model monitor of the chain policy over sequential histories + call-log invariants and porcupine register check over concurrent histories + Go race detector',
 'Compares every result class and every member call of router / cache / repairable cache / failover / the full CLI chain with a reference model of the documented policy on random operation sequences over members with contents {valid, missing, invalid} and fault plans; concurrent legs assert sound invariants (failover with a healthy member never fails and makes <= len(members) calls, cache is not bypassed after a completed fill, swap never fails a request, never closes a store with requests in flight or calls it after close, swap/serve history linearizable).',
 'Reference model written from the documented policy; concurrent schedules sampled; members are in-memory stores.',
 'DESIGN.md 5/C11')
prop('C09','exploration','reference-cursor monitor over Seek/Read histories + cursor invariant via inspector hook + FUSE requests through the in-process go-fuse bridge + Go race detector',
 'Checks every Seek/Read of IndexPos and every FUSE read of the index mount node (several handles, concurrent) against a reference cursor over the blob, including failed seeks, store errors at request k, reads across chunk boundaries, null chunks, EOF and the empty blob; asserts the internal cursor invariant after every operation; `desync cat -o -l` is compared with blob slices.',
 'Kernel FUSE is not in the loop (no fusermount): requests are issued through go-fuse\'s RawFileSystem bridge. Store is in memory; index from the reference chunker.',
 'DESIGN.md 5/C09')
prop('C10','exploration','blob-bytes-or-error oracle over multi-session sparse-file histories with injected store faults, restarts and preload + done-bit invariant via inspector hook + Go race detector',
 'Drives SparseFile handles and the sparse mount node (bridge) with concurrent ReadAt sequences under transient store faults, saves state, restarts with every cache/state combination, preloads, and requires every nil/EOF read to return exactly the blob bytes (errors only with injected faults), no refetch of chunks done in a reused state, and done-bit => cache holds the chunk.',
 'In-memory store; FUSE node driven in process; resized cache means truncated/extended by the filesystem.',
 'DESIGN.md 5/C10')
prop('C06','fault_enumeration','fault injection at the store boundary (k-th HasChunk/StoreChunk/GetChunk, subsets; k-th HTTP request answered 403 for the CLI) + store read-back oracle + Go race detector',
 'For ChopFile (also with a stale index), Copy, ChunkStream and the make/chop/cache/tar -i commands: a fault-free run, then the k-th store call of each kind failing for every k on small inputs (and random subsets), with duplicate-heavy inputs and N in {1,2,4,16}; success must imply every referenced chunk is held valid by the target and a fresh index describes its input, any delivered fault must surface as an error / non-zero exit.',
 'In-memory target store with call log; CLI legs talk to desync\'s own HTTP handler wrapped by a request-counting fault injector. Single-fault and random-subset plans, not all subsets.',
 'DESIGN.md 5/C06')
prop('C07','fault_enumeration','cancellation/signal injection at every hook point, store call, progress event and filesystem callback (k-th hit, every k) + completeness oracle; CLI children signalled while the k-th request is held',
 'Enumerates cancel points of AssembleFile (incl. validation), VerifyIndex, ChopFile, Copy, ChunkStream, IndexFromFile, Tar, UnTar, UnTarIndex (N in {1,2,8}) and SIGINT/SIGTERM delivery to extract / chop / cache / make / tar -i / untar -i / verify-index children; nil or exit 0 is accepted only when the product is complete, and a failed extract without -k must leave the destination (absent / file / symlink) untouched.',
 'Cancel points are those observable through hooks and callbacks; a cancel between two points is equivalent to one at the next.',
 'DESIGN.md 5/C07')
prop('C08','fault_enumeration','crash-point enumeration (failpoints at every StoreChunk step, partial writes of j bytes, SIGKILL, strace syscall injection, colliding writer pairs; extract killed at the k-th chunk request) + post-mortem store walk + porcupine register check',
 'Kills real `desync chop` / `desync extract` children at enumerated crash points and inspects what is left from a separate process: every chunk-named file validates, leftovers are .tmp-cacnk* files that prune removes, a killed temp-file extract leaves the destination unchanged, a killed in-place extract completes on re-run without re-fetching chunks that were in place; concurrent store histories are linearizable with no ChunkInvalid reads.',
 'SIGKILL of the process, not power loss: on-disk ordering of data vs. rename after a machine crash is outside what can be observed here.',
 'DESIGN.md 5/C08')
prop('C03','exploration','hash-of-delivered-bytes oracle over deliberately poisoned stores (every backend x corruption kind x wrapper stack) and over the consumers built on them',
 'Stores chunks in every backend (local, HTTP handler verifying / skip-verify upstream, raw HTTP file server, fake S3, SFTP shim, casync-over-SSH shim, hostile casync server), corrupts one stored object in one of 12 ways, and requires that any chunk delivered through any wrapper stack hashes to the requested ID (same stack after a healthy read, fresh stack), that extract / cat / untar -i / index mount / sparse file fail without emitting wrong bytes, and that a repairing cache heals.',
 'Remote peers are loopback fakes and shims that drive the real client code; SkipVerify is only used upstream of a chunk server.',
 'DESIGN.md 5/C03')
prop('C04','exploration','three-way comparison (original table, desync reader, independent caibx codec) over generated indexes and every index store kind; prefix and single-field corruption rejection',
 'Generated indexes (0..5000 chunks, both digests, any flags) are written by desync, parsed by an independent strict caibx parser and re-read by desync, through local / HTTP / S3 / SFTP / stdin-stdout index stores; every strict prefix and the listed corruptions (decreasing offsets, oversize chunk, wrong digest flag) must be rejected, other field corruptions rejected or harmless; repository fixtures re-encode byte-identically.',
 'Independent codec written from the format description, anchored by the casync-made fixtures; S3/SFTP are loopback fakes.',
 'DESIGN.md 5/C04')
prop('C17','exploration','independent match predicate vs. VerifyIndex / verify-index result over generated blobs, batchings and single mutations + progress-event monitor',
 'For chunker-made, equal-size and duplicate-ID indexes with 0..700 chunks and n in 1..64, the file is left intact or mutated once (byte flip in first / last / batch-boundary / trailing-batch / duplicate-ID chunk, truncation, extension, swap of equal-size chunks); nil / exit 0 must coincide with the independent predicate, and success must have visited every chunk once.',
 'Single mutations only; hashes from the Go standard library.',
 'DESIGN.md 5/C17')
prop('C19','exploration','panic / fatal-error monitor and per-call allocation bound (runtime.MemStats.TotalAlloc) over structured hostile inputs, child under RLIMIT_AS',
 'Feeds IndexFromReader, FormatDecoder, ArchiveDecoder, the protocol reader/handshake/request/server and the index PUT handler with every element type x size-field class x body length, truncations and mutations of valid files and protocol messages of every length class; any panic (recovered or fatal), net/http "panic serving" line, or allocation above 1 MiB + 32 bytes per input byte is a violation.',
 'Allocation bound constants calibrated on the valid corpus; inputs are structured samples, not all byte strings.',
 'DESIGN.md 5/C19')
prop('C13','exploration','independent strict catar validator (element grammar, sizes, ordering, goodbye BST with own SipHash-2-4) over generated trees, anchored on casync-made fixtures',
 'Packs generated trees (every root fan-out 0..130 and random ones up to thousands, nesting, hostile names, multiple xattrs, devices, FIFOs/sockets to be skipped) from disk and from a tar stream, validates every byte of the archive with a validator that shares no code with desync and that accepts the casync-made fixtures, and compares the reconstructed tree with the source listing.',
 'Validator written from the format description; casync itself is not available, its fixtures are the anchor. xattr value termination follows desync\'s convention (fixtures hold no xattrs).',
 'DESIGN.md 5/C13')
prop('C05','exploration','typed filesystem snapshot diff between source and unpacked tree over every pack/unpack path, with independent readers for tar and mtree output; archive determinism check',
 'Generated trees with hostile names and metadata are packed and unpacked through catar, caidx+store (library and CLI, both digests), tar-stream input (GNU tar streams) and gnu-tar / mtree output; every entry is compared on path, type, permission and special bits, owner, symlink target, xattrs, device numbers, content and mtime (per path: the fields the format carries), and two packs must be byte-identical. Differences are classified (writer, entry type, field) and matched against known_findings.txt one class at a time.',
 'Runs as root on ext4. Recorded known findings: directory/symlink mtimes, mtime==0 sentinel, set-id bits in gnu-tar output (see known_findings.txt). tar output is read back with Go archive/tar and GNU tar.',
 'DESIGN.md 5/C05')
prop('C18','exploration','before/after typed snapshot of a chroot jail around the destination while hostile archives are unpacked in a jailed child',
 'Archives produced by the harness\'s own encoder (names with .., /, absolute and nested paths, surplus GOODBYEs, symlink-then-entry orders, destinations holding symlinks to outside) are unpacked by UnTar and UnTarIndex in a child chroot()ed into a scratch jail with sentinels at every level; anything created, modified or touched outside the destination subtree is a violation regardless of the return value.',
 'The jail is a chroot (we are root); effects above the jail root cannot occur.',
 'DESIGN.md 5/C18')
prop('C15','exploration','before/after sandbox snapshot + response monitor over raw TCP requests against the handlers and the real chunk-server / index-server children',
 'Sends methods x hostile paths x Authorization variants over raw TCP to chunk and index servers (handler behind httptest and real CLI children, authorization from flag and from the environment; writable / read-only; verify-write on / off; compressed / uncompressed) and checks: without exactly the configured value nothing changes and no object is served, read-only servers never change the sandbox, only the canonical object inside the served directory is ever touched, 200 bodies are the requested object, mismatching uploads are refused under write verification.',
 'Plain HTTP over loopback; authorization is asserted negatively only.',
 'DESIGN.md 5/C15')
prop('C16','exploration','expected-set vs. content-hashed listing before/after prune and verify over generated mixed stores on local / S3-fake / SFTP-shim backends; verify message parser',
 'Stores are populated with referenced / unreferenced / invalid chunks in both formats, junk, temp files and misplaced chunk-named files; prune (library, CLI, S3, SFTP; all reference-set kinds) must leave referenced, other-format and non-chunk objects byte-identical and, on success, remove every unreferenced own-format chunk and temp file; verify (n in {1,4,16}, with/without repair, library and CLI) must report exactly the invalid own-format chunks and remove exactly those.',
 'S3/SFTP are loopback stand-ins; SFTP opened with N=2 (N=1 deadlocks in SFTPStore.Prune, recorded in DESIGN.md as an observation outside the statement).',
 'DESIGN.md 5/C16')
prop('C20','exploration','store listing + own zstd frame walker + cross-decoder checks (klauspost, libzstd 1.5.2 build of desync, system libzstd 1.5.4 via cgo helper) over stores written by both builds; mixed-format directory operations',
 'Chunks of every class are stored by the default build (library, Copy between formats, cache, chop) and by the -tags datadog build, compressed and uncompressed; file names, raw content, single-frame structure and decodability under three decoders are checked, fixture stores are read by both builds, and in directories holding both formats a client of one format must report the other\'s chunks missing, never serve them and leave them byte-identical under verify --repair and prune.',
 'casync is not available: fixture stores stand for casync-written ones; reference libzstd = system 1.5.4 and the vendored 1.5.2.',
 'DESIGN.md 5/C20')
