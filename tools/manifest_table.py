NA = {}
