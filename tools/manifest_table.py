NA = {}
prop('C02','exploration','reference-model monitor (independent non-rolling chunker) over PRNG case lists + Go race detector + schedule perturbation at hook points',
 'Runs Chunker.Next, IndexFromFile(n=1..16), ChunkStream and `desync make` on generated inputs (boundary-sized, zero runs at worker starts, strided tails) under perturbed schedules with -race and compares every chunk table with an independent reference chunker anchored to a casync-made fixture; held on the cases explored, no proof.',
 'Trusted: oracle/refchunker.go (frozen buzhash table + discriminator formula, anchored against testdata/chunker.index each run), Go crypto hashes, the race detector. Schedules are sampled, not enumerated.',
 'DESIGN.md 5/C02')
