#!/bin/bash
# tools/coverage.sh [ids...]: runs the quick tier of the given checks (default: all) from a scratch copy of /verif with
# coverage-instrumented builds of the workers and of the CLI (go build -cover, GOCOVERDIR), then lists per source file
# of /repo the statements no workload reached. A tool to find undriven code, not a check: coverage says what ran, not
# what was decided.
export GOFLAGS=-mod=mod GOPROXY=off GOSUMDB=off GOTOOLCHAIN=local
ids=${@:-$(seq -f "C%02g" 1 20)}
vw=/tmp/cover/verif; cd=/tmp/cover/data; rm -rf /tmp/cover; mkdir -p $cd
rsync -a --exclude .git --exclude .bin --exclude .work --exclude replays --exclude evidence --exclude seeded /verif/ "$vw"/
mkdir -p "$vw/evidence"
for id in $ids; do
  mkdir -p $cd/$id
  (cd "$vw" && VERIF_COVER=1 GOCOVERDIR=$cd/$id VERIF_DIR=$vw ./check $id quick > $vw/$id.log 2>&1); echo "$id exit=$? files=$(ls $cd/$id | wc -l)"
  # merge at once: thousands of children write one file each
  mkdir -p $cd/m-$id && go tool covdata merge -i=$cd/$id -o=$cd/m-$id && rm -rf $cd/$id
done
mkdir -p $cd/all; go tool covdata merge -i=$(ls -d $cd/m-* | paste -sd,) -o=$cd/all
go tool covdata textfmt -i=$cd/all -o=/tmp/cover/all.txt
python3 - <<'PY'
import re,collections
un=collections.defaultdict(list); tot=collections.Counter(); cov=collections.Counter()
for l in open('/tmp/cover/all.txt'):
    m=re.match(r'(.+):(\d+)\.\d+,(\d+)\.\d+ (\d+) (\d+)',l)
    if not m: continue
    f,a,b,n,c=m.group(1),int(m.group(2)),int(m.group(3)),int(m.group(4)),int(m.group(5))
    f=f.replace('github.com/folbricht/desync/','')
    tot[f]+=n
    if c: cov[f]+=n
    else: un[f].append((a,b))
out=open('/tmp/cover/uncovered.txt','w')
for f in sorted(tot, key=lambda f: cov[f]/max(1,tot[f])):
    out.write('%-32s %4d/%4d %3d%%  %s\n'%(f,cov[f],tot[f],100*cov[f]//max(1,tot[f]),' '.join('%d-%d'%r for r in sorted(un[f]))))
print(open('/tmp/cover/uncovered.txt').read()[:6000])
PY
rm -rf "$vw"
