#!/bin/bash
# tools/wave.sh <workdir> <Cnn> <mA> <mB>: confirms the two changes a sub-agent delivered in <workdir>/out/Cnn/<mK>
# (tools/confirm_mutant.sh: applies, builds, suite passes, demonstration fails with / passes without), keeps the
# confirmed ones as seeded/Cnn-mK, runs the quick check of the property against each (tools/pmutant.sh) and removes
# the agent's worktree.
w=$1; p=$2; shift; shift
for m in "$@"; do
  [ -f $w/out/$p/$m/patch.diff ] || { echo "$p-$m: no patch"; continue; }
  /verif/tools/confirm_mutant.sh $w/out/$p/$m $p-$m $p 2>&1 | tail -6
  [ -d /verif/seeded/$p-$m ] && /verif/tools/pmutant.sh $p-$m $p 2>&1 | grep -vE "^KNOWN-FINDING" | tail -7
done
git -C /repo worktree remove --force $w/$p 2>/dev/null
