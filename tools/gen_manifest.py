#!/usr/bin/env python3
"""Generates MANIFEST.json from the table below; a property is claimed once its worker directory exists
and it is listed in CLAIMED."""
import json, os, subprocess
os.chdir('/verif')

HOOK_COMMITS = subprocess.run(['git','-C','/repo','log','--format=%H %s','--grep=^verif hooks'],capture_output=True,text=True).stdout.strip().splitlines()

# id -> (level, technique, level text, note)
P = {}
def prop(id, level, technique, text, note, design):
    P[id] = dict(level=level, technique=technique, text=text, note=note, design=design)

exec(open('tools/manifest_table.py').read())
for _id, _t in EXTRA.items():
    P[_id]['text'] += _t

checks=[]; na=[]
for i in range(1,21):
    id='C%02d'%i
    if id in P and os.path.isdir('workers/'+id.lower()):
        p=P[id]
        checks.append({
            "property_id": id,
            "quick_cmd": "./check %s quick"%id,
            "thorough_cmd": "./check %s thorough"%id,
            "evidence_file": "/verif/evidence/%s.json"%id,
            "replay_cmd_template": "./check %s quick --replay {path}"%id,
            "engine": "runtime-monitor",
            "level_claimed": {"category": p['level'], "text": p['text'], "design_ref": p['design']},
            "level_note": p['note'],
            "technique": p['technique'],
        })
    else:
        na.append({"property_id": id, "reason": NA.get(id, "check not built yet (work in progress); the property is decidable by runtime monitoring, see DESIGN.md section 5")})

m={
 "version":1,
 "setup_cmd":"./setup.sh",
 "hooks":{
   "guard":"verif",
   "enable":"go build -tags verif (workers link /repo through a replace directive; the CLI is built with -tags verif from /repo)",
   "baseline_off_cmd":"cd /repo && GOFLAGS=-mod=mod GOPROXY=off GOSUMDB=off go test -vet=off -count=1 -timeout 25m ./...",
   "source_commits":[l.split()[0] for l in HOOK_COMMITS],
   "add_only": True
 },
 "engines":[{"name":"runtime-monitor","path":"/verif/harness","serves_properties":[c['property_id'] for c in checks],
   "kind_free_text":"child-process workload runner with per-case crash attribution, Go race detector log scanner, deadlock detection via the Go runtime, reference-model/offline history checkers (porcupine for register histories), independent codecs as oracles"}],
 "checks":checks,
 "not_applicable":na,
 "notes":"All checks decide by observing executions of the real code (library built from /repo's working tree with -tags verif, and the real CLI). See DESIGN.md. known_findings.txt lists recorded defects; fixes are 'fix:' commits in /repo."
}
json.dump(m,open('MANIFEST.json','w'),indent=1)
print(len(checks),'checks,',len(na),'not claimed')
