//go:build verif

package dsu

import (
	"fmt"
	"os"
	"sync"
	"syscall"
)

// CloneEmu emulates FICLONERANGE on a filesystem without reflink support. It
// follows the checks of the Linux kernel (vfs ioctl_file_clone_range ->
// generic_remap_file_range_prep / generic_remap_checks / generic_remap_check_len)
// and is deliberately no stricter than them:
//
//   - EINVAL unless src_offset and dest_offset are multiples of the block size
//   - length 0 means "up to the end of the source": success and no-op when
//     src_offset == source size, EINVAL when src_offset > source size
//   - EINVAL when src_offset+length reaches past the end of the source (the request
//     would have to be shortened, which FICLONERANGE cannot do)
//   - a length that is not a multiple of the block size is only accepted when the
//     range ends exactly at the end of the source and the destination range does not
//     end before the end of the destination file
//   - overlapping ranges within one file: EINVAL
//   - the destination grows when the range reaches past its end
//
// The data is then copied with pread/pwrite, which is what sharing the blocks looks like
// to any reader.
type CloneEmu struct {
	BlockSize uint64
	mu        sync.Mutex
	Calls     []CloneCall
}

type CloneCall struct {
	SrcOff, Len, DstOff uint64
	SrcSize, DstSize    int64
	Err                 string
	SameFile            bool
}

func (e *CloneEmu) CanClone(dstFile, srcFile string) bool { return true }

func (e *CloneEmu) log(c CloneCall) {
	e.mu.Lock()
	e.Calls = append(e.Calls, c)
	e.mu.Unlock()
}

func (e *CloneEmu) NumCalls() (ok int, failed int) {
	e.mu.Lock()
	defer e.mu.Unlock()
	for _, c := range e.Calls {
		if c.Err == "" {
			ok++
		} else {
			failed++
		}
	}
	return
}

func (e *CloneEmu) CloneRange(dst, src *os.File, srcOffset, srcLength, dstOffset uint64) error {
	bs := e.BlockSize
	if bs == 0 {
		bs = 4096
	}
	si, err := src.Stat()
	if err != nil {
		return err
	}
	di, err := dst.Stat()
	if err != nil {
		return err
	}
	call := CloneCall{SrcOff: srcOffset, Len: srcLength, DstOff: dstOffset, SrcSize: si.Size(), DstSize: di.Size(), SameFile: os.SameFile(si, di)}
	fail := func(why string) error {
		call.Err = why
		e.log(call)
		return fmt.Errorf("FICLONERANGE(emulated): %s: %w", why, syscall.EINVAL)
	}
	sizeIn, sizeOut := uint64(si.Size()), uint64(di.Size())
	count := srcLength
	if count == 0 {
		if srcOffset == sizeIn {
			e.log(call)
			return nil
		}
		if srcOffset > sizeIn {
			return fail("src_offset beyond source EOF with length 0")
		}
		count = sizeIn - srcOffset
	}
	if srcOffset%bs != 0 || dstOffset%bs != 0 {
		return fail("offsets not block aligned")
	}
	if srcOffset+count < srcOffset || dstOffset+count < dstOffset {
		return fail("offset overflow")
	}
	if srcOffset > sizeIn {
		return fail("src_offset beyond source EOF")
	}
	req := count
	if count > sizeIn-srcOffset {
		count = sizeIn - srcOffset
	}
	var bcount uint64
	if srcOffset+count == sizeIn {
		bcount = (sizeIn+bs-1)/bs*bs - srcOffset
	} else {
		if count%bs != 0 {
			count = count / bs * bs
		}
		bcount = count
	}
	if call.SameFile && dstOffset+bcount > srcOffset && dstOffset < srcOffset+bcount {
		return fail("overlapping ranges in the same file")
	}
	if req != count {
		return fail("request would have to be shortened (past source EOF or unaligned length)")
	}
	// generic_remap_check_len
	if count%bs != 0 && dstOffset+count < sizeOut {
		return fail("unaligned length ending before the destination EOF")
	}
	// do it
	buf := make([]byte, count)
	if _, err := src.ReadAt(buf, int64(srcOffset)); err != nil {
		call.Err = "read: " + err.Error()
		e.log(call)
		return err
	}
	if _, err := dst.WriteAt(buf, int64(dstOffset)); err != nil {
		call.Err = "write: " + err.Error()
		e.log(call)
		return err
	}
	e.log(call)
	return nil
}
