package dsu

import (
	"fmt"

	"github.com/hanwen/go-fuse/v2/fs"
	"github.com/hanwen/go-fuse/v2/fuse"
)

// FuseFile drives a single-file FUSE filesystem (desync's index / sparse mounts) through
// go-fuse's in-process bridge: the same Lookup/Open/Read/Release requests the kernel would
// send, without a kernel mount (there is no fusermount in the sandbox).
type FuseFile struct {
	raw  fuse.RawFileSystem
	Node uint64
	Size uint64
}

func MountBridge(root fs.InodeEmbedder, name string) (*FuseFile, error) {
	raw := fs.NewNodeFS(root, &fs.Options{})
	var out fuse.EntryOut
	st := raw.Lookup(nil, &fuse.InHeader{NodeId: 1}, name, &out)
	if st != fuse.OK {
		return nil, fmt.Errorf("lookup %s: %v", name, st)
	}
	return &FuseFile{raw: raw, Node: out.NodeId, Size: out.Attr.Size}, nil
}

func (f *FuseFile) Open() (uint64, fuse.Status) {
	var out fuse.OpenOut
	st := f.raw.Open(nil, &fuse.OpenIn{InHeader: fuse.InHeader{NodeId: f.Node}}, &out)
	return out.Fh, st
}

// Read issues one FUSE read request; the returned slice is a copy.
func (f *FuseFile) Read(fh uint64, off uint64, size uint32) ([]byte, fuse.Status) {
	buf := make([]byte, size)
	res, st := f.raw.Read(nil, &fuse.ReadIn{InHeader: fuse.InHeader{NodeId: f.Node}, Fh: fh, Offset: off, Size: size}, buf)
	if st != fuse.OK {
		return nil, st
	}
	if res == nil {
		return nil, fuse.OK
	}
	b, st2 := res.Bytes(buf)
	out := append([]byte(nil), b...)
	res.Done()
	return out, st2
}

// ReadInterruptible is Read with the channel through which the kernel tells the file system that the request was
// interrupted (the reading process got a signal): closing it cancels the request's context.
func (f *FuseFile) ReadInterruptible(cancel <-chan struct{}, fh uint64, off uint64, size uint32) ([]byte, fuse.Status) {
	buf := make([]byte, size)
	res, st := f.raw.Read(cancel, &fuse.ReadIn{InHeader: fuse.InHeader{NodeId: f.Node}, Fh: fh, Offset: off, Size: size}, buf)
	if st != fuse.OK {
		return nil, st
	}
	if res == nil {
		return nil, fuse.OK
	}
	b, st2 := res.Bytes(buf)
	out := append([]byte(nil), b...)
	res.Done()
	return out, st2
}

func (f *FuseFile) Release(fh uint64) {
	f.raw.Release(nil, &fuse.ReleaseIn{InHeader: fuse.InHeader{NodeId: f.Node}, Fh: fh})
}

// GetSize asks for the attributes of the file.
func (f *FuseFile) GetSize() (uint64, fuse.Status) {
	var out fuse.AttrOut
	st := f.raw.GetAttr(nil, &fuse.GetAttrIn{InHeader: fuse.InHeader{NodeId: f.Node}}, &out)
	return out.Attr.Size, st
}
