package dsu

import (
	"fmt"
	"net"
	"os"
	"os/exec"
	"sync/atomic"
	"time"
)

var portCounter int64

// StartServerCmd starts a server child that listens on a port of this process's private range (outside the
// kernel's ephemeral range, so that neither outgoing connections nor ":0" listeners of parallel workers can
// collide with it) and waits until it accepts connections. mk builds the command for an address.
func StartServerCmd(mk func(addr string) *exec.Cmd) (string, *exec.Cmd, error) {
	var lastErr error
	for try := 0; try < 30; try++ {
		n := atomic.AddInt64(&portCounter, 1)
		port := 10000 + (int64(os.Getpid())*131+n*7)%20000
		addr := fmt.Sprintf("127.0.0.1:%d", port)
		// skip ports that are visibly taken
		if l, err := net.Listen("tcp", addr); err != nil {
			lastErr = err
			continue
		} else {
			l.Close()
		}
		cmd := mk(addr)
		if err := cmd.Start(); err != nil {
			return "", nil, err
		}
		exited := make(chan struct{})
		go func() { cmd.Wait(); close(exited) }()
		up := false
	wait:
		for w := 0; w < 500; w++ {
			select {
			case <-exited:
				break wait
			default:
			}
			if cn, err := net.DialTimeout("tcp", addr, time.Second); err == nil {
				cn.Close()
				up = true
				break
			}
			time.Sleep(10 * time.Millisecond)
		}
		if up {
			// still ours?
			select {
			case <-exited:
				lastErr = fmt.Errorf("server exited right after start")
				continue
			case <-time.After(30 * time.Millisecond):
			}
			return addr, cmd, nil
		}
		cmd.Process.Kill()
		<-exited
		lastErr = fmt.Errorf("server did not come up on %s", addr)
	}
	return "", nil, lastErr
}

// StopServerCmd kills a server started by StartServerCmd.
func StopServerCmd(cmd *exec.Cmd) {
	if cmd != nil && cmd.Process != nil {
		cmd.Process.Kill()
	}
}
