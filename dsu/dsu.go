// Package dsu holds desync-facing helpers shared by the workers: blob
// generators, index construction from the reference chunker, in-memory and
// fault-injecting stores with call logs.
package dsu

import (
	"crypto/sha256"
	"crypto/sha512"
	"errors"
	"fmt"
	"io"
	"math/rand"
	"net/url"
	"os"
	"path/filepath"
	"runtime"
	"strings"
	"sync"
	"sync/atomic"

	"github.com/folbricht/desync"

	"verif/oracle"
)

// Clock is the logical clock shared by all recorded events of a process.
var Clock int64

func Tick() int64 { return atomic.AddInt64(&Clock, 1) }

// Sum hashes with the digest selected in desync.Digest, computed independently.
func Sum(b []byte) desync.ChunkID {
	if _, ok := desync.Digest.(desync.SHA256); ok {
		return sha256.Sum256(b)
	}
	return sha512.Sum512_256(b)
}

// Sizes are chunking parameters.
type Sizes struct{ Min, Avg, Max uint64 }

func (s Sizes) String() string { return fmt.Sprintf("%d/%d/%d", s.Min, s.Avg, s.Max) }

var SmallSizes = []Sizes{{64, 128, 256}, {48, 64, 96}, {256, 512, 1024}, {1024, 2048, 4096}, {2048, 6144, 12288}, {100, 300, 5000}}

// BlobClasses lists the generator classes of MakeBlob.
var BlobClasses = []string{"random", "zeros", "zero-runs", "repetitive", "lowentropy", "mixed"}

// MakeBlob generates a blob of about size bytes of the given class.
func MakeBlob(rng *rand.Rand, class string, size int, sz Sizes) []byte {
	b := make([]byte, size)
	switch class {
	case "random":
		rng.Read(b)
	case "zeros":
	case "zero-runs":
		rng.Read(b)
		// zero runs of up to several max at arbitrary alignment
		runs := 1 + rng.Intn(4)
		for i := 0; i < runs && size > 0; i++ {
			l := rng.Intn(int(sz.Max)*4 + 1)
			o := rng.Intn(size)
			if o+l > size {
				l = size - o
			}
			for j := o; j < o+l; j++ {
				b[j] = 0
			}
		}
	case "repetitive":
		// a few blocks repeated in random order: chunk sequences repeat after resync
		nblk := 2 + rng.Intn(3)
		blks := make([][]byte, nblk)
		for i := range blks {
			blks[i] = make([]byte, int(sz.Max)*(1+rng.Intn(3))+rng.Intn(int(sz.Max)))
			rng.Read(blks[i])
		}
		for o := 0; o < size; {
			o += copy(b[o:], blks[rng.Intn(nblk)])
		}
	case "lowentropy":
		syms := []byte{0, 1}
		if rng.Intn(2) == 0 {
			syms = []byte{0, 0, 0, 0xff}
		}
		for i := range b {
			b[i] = syms[rng.Intn(len(syms))]
		}
	case "mixed":
		for o := 0; o < size; {
			l := 1 + rng.Intn(int(sz.Max)*3)
			if o+l > size {
				l = size - o
			}
			switch rng.Intn(3) {
			case 0:
				rng.Read(b[o : o+l])
			case 1: // zeros
			case 2:
				for j := o; j < o+l; j++ {
					b[j] = byte(j % 7)
				}
			}
			o += l
		}
	default:
		panic("unknown blob class " + class)
	}
	return b
}

// RefIndex builds an index of blob with the reference chunker (independent of desync's chunker).
func RefIndex(blob []byte, sz Sizes) desync.Index {
	var flags uint64 = desync.CaFormatExcludeNoDump
	if _, ok := desync.Digest.(desync.SHA256); !ok {
		flags |= desync.CaFormatSHA512256
	}
	idx := desync.Index{Index: desync.FormatIndex{FeatureFlags: flags, ChunkSizeMin: sz.Min, ChunkSizeAvg: sz.Avg, ChunkSizeMax: sz.Max}}
	var start uint64
	for _, s := range oracle.RefChunksFast(blob, sz.Min, sz.Avg, sz.Max) {
		idx.Chunks = append(idx.Chunks, desync.IndexChunk{Start: start, Size: s, ID: Sum(blob[start : start+s])})
		start += s
	}
	return idx
}

// FillLocalStore stores every chunk of idx (taken from blob) in a new local store at dir.
func FillLocalStore(dir string, blob []byte, idx desync.Index, uncompressed bool) (desync.LocalStore, error) {
	if err := os.MkdirAll(dir, 0755); err != nil {
		return desync.LocalStore{}, err
	}
	s, err := desync.NewLocalStore(dir, desync.StoreOptions{Uncompressed: uncompressed})
	if err != nil {
		return s, err
	}
	seen := map[desync.ChunkID]bool{}
	for _, c := range idx.Chunks {
		if seen[c.ID] {
			continue
		}
		seen[c.ID] = true
		if err := s.StoreChunk(desync.NewChunk(blob[c.Start : c.Start+c.Size])); err != nil {
			return s, err
		}
	}
	return s, nil
}

// WriteIndex writes idx to path.
func WriteIndex(path string, idx desync.Index) error {
	f, err := os.Create(path)
	if err != nil {
		return err
	}
	defer f.Close()
	_, err = idx.WriteTo(f)
	return err
}

// ---------------------------------------------------------------------------

// Call is one logged store call.
type Call struct {
	Op     string // get, has, store, close
	ID     desync.ChunkID
	T0, T1 int64  // logical call / return times
	Result string // ok, missing, invalid, error, true, false
	N      int64  // ordinal of this op kind on this store (1-based)
	Tok    int64  // unique token of the returned object (get)
	G      int64  // goroutine that made the call
	Err    error  // error returned (if any)
	Chunk  *desync.Chunk
}

// MemStore is an in-memory WriteStore with per-ID states, a fault plan and a call log.
type MemStore struct {
	Name string
	mu   sync.Mutex
	data map[desync.ChunkID][]byte
	// Invalid ids return ChunkInvalid on GetChunk (HasChunk still true).
	invalid map[desync.ChunkID]bool
	// Fault decides if the n-th call of op fails (n counts per op, 1-based). nil = healthy.
	Fault func(op string, n int64, id desync.ChunkID) error
	// Gate, if set, is called (without the lock) inside every call, between the call event and the action.
	Gate    func(op string, id desync.ChunkID, n int64)
	calls   []Call
	counts  map[string]int64
	closed  bool
	inGet   map[desync.ChunkID]int
	MaxInFl map[string]int // max concurrent in-flight per op:id
	inFl    map[string]int
	// AfterClose counts calls that arrived after Close.
	AfterClose int64
	// ClosedInFlight counts requests that were in flight on the store at the moment it was closed.
	ClosedInFlight int64
	ReadOnly       bool
	// Lazy: GetChunk returns chunks in storage form (compressed, unverified) that are decoded on first use.
	Lazy bool
}

func NewMemStore(name string) *MemStore {
	return &MemStore{Name: name, data: map[desync.ChunkID][]byte{}, invalid: map[desync.ChunkID]bool{}, counts: map[string]int64{},
		MaxInFl: map[string]int{}, inFl: map[string]int{}}
}

// SetFault replaces the fault plan; safe while calls are in flight.
func (m *MemStore) SetFault(f func(op string, n int64, id desync.ChunkID) error) {
	m.mu.Lock()
	m.Fault = f
	m.mu.Unlock()
}

func (m *MemStore) getFault() func(op string, n int64, id desync.ChunkID) error {
	m.mu.Lock()
	defer m.mu.Unlock()
	return m.Fault
}

func (m *MemStore) Put(b []byte) desync.ChunkID {
	id := Sum(b)
	m.mu.Lock()
	m.data[id] = append([]byte(nil), b...)
	m.mu.Unlock()
	return id
}
func (m *MemStore) PutRaw(id desync.ChunkID, b []byte) {
	m.mu.Lock()
	m.data[id] = append([]byte(nil), b...)
	m.mu.Unlock()
}
func (m *MemStore) SetInvalid(id desync.ChunkID, v bool) {
	m.mu.Lock()
	m.invalid[id] = v
	m.mu.Unlock()
}
func (m *MemStore) Delete(id desync.ChunkID) {
	m.mu.Lock()
	delete(m.data, id)
	delete(m.invalid, id)
	m.mu.Unlock()
}
func (m *MemStore) Holds(id desync.ChunkID) ([]byte, bool) {
	m.mu.Lock()
	defer m.mu.Unlock()
	b, ok := m.data[id]
	return b, ok
}
func (m *MemStore) IsInvalid(id desync.ChunkID) bool {
	m.mu.Lock()
	defer m.mu.Unlock()
	return m.invalid[id]
}
func (m *MemStore) Calls() []Call {
	m.mu.Lock()
	defer m.mu.Unlock()
	return append([]Call(nil), m.calls...)
}
func (m *MemStore) ResetLog() {
	m.mu.Lock()
	m.calls = nil
	m.mu.Unlock()
}
func (m *MemStore) CountOf(op string) int64 {
	m.mu.Lock()
	defer m.mu.Unlock()
	return m.counts[op]
}

var tokCounter int64

func (m *MemStore) begin(op string, id desync.ChunkID) (n int64, t0 int64, closed bool) {
	m.mu.Lock()
	m.counts[op]++
	n = m.counts[op]
	key := op + ":" + id.String()
	m.inFl[key]++
	if m.inFl[key] > m.MaxInFl[key] {
		m.MaxInFl[key] = m.inFl[key]
	}
	closed = m.closed
	if closed {
		m.AfterClose++
	}
	m.mu.Unlock()
	t0 = Tick()
	if m.Gate != nil {
		m.Gate(op, id, n)
	}
	return
}

func (m *MemStore) end(op string, id desync.ChunkID, n, t0 int64, res string, tok int64) {
	m.end2(op, id, n, t0, res, tok, nil, nil)
}

func (m *MemStore) end2(op string, id desync.ChunkID, n, t0 int64, res string, tok int64, err error, ch *desync.Chunk) {
	g := Goid()
	t1 := Tick()
	m.mu.Lock()
	m.inFl[op+":"+id.String()]--
	m.calls = append(m.calls, Call{Op: op, ID: id, T0: t0, T1: t1, Result: res, N: n, Tok: tok, G: g, Err: err, Chunk: ch})
	m.mu.Unlock()
}

// ErrInjected is the error type of injected faults.
type ErrInjected struct{ Msg string }

func (e ErrInjected) Error() string { return "injected: " + e.Msg }

// EOFWrap is an injected fault whose chain ends in io.EOF (what an HTTP store returns when the server hangs up).
type EOFWrap struct{ Msg string }

func (e *EOFWrap) Error() string { return "injected: " + e.Msg + ": EOF" }
func (e *EOFWrap) Unwrap() error { return io.EOF }

// FaultErr returns an injected store error of the given kind: 0 a plain error value, 1 a bare io.EOF (legal for any
// Store implementation; the casync protocol client returned one until 8f0685f), 2 an error wrapping io.EOF,
// 3 a *url.Error holding io.EOF (connection closed without a response).
func FaultErr(kind int, msg string) error {
	switch kind % 4 {
	case 1:
		return io.EOF
	case 2:
		return &EOFWrap{Msg: msg}
	case 3:
		return &url.Error{Op: "Get", URL: "http://injected.fault/" + msg, Err: io.EOF}
	}
	return ErrInjected{Msg: msg}
}

// IsFault reports whether err is (or wraps) an injected fault of kind 0, 2 or 3. A bare io.EOF cannot be told from a
// genuine end of data by identity: callers decide that case by position.
func IsFault(err error) bool {
	var a ErrInjected
	var b *EOFWrap
	var c *url.Error
	if errors.As(err, &a) || errors.As(err, &b) {
		return true
	}
	return errors.As(err, &c) && strings.HasPrefix(c.URL, "http://injected.fault/")
}

// ErrDeliverGarbled, returned by a fault plan for a GetChunk, makes the store answer the way a store opened without
// verification (skip-verify) answers for an object damaged in transit or on disk: a chunk and a nil error, the damage
// only shows when the chunk's data is asked for.
var ErrDeliverGarbled = errors.New("deliver an undecodable chunk without an error")

func (m *MemStore) GetChunk(id desync.ChunkID) (*desync.Chunk, error) {
	n, t0, _ := m.begin("get", id)
	if f := m.getFault(); f != nil {
		if err := f("get", n, id); err == ErrDeliverGarbled {
			ch, cerr := desync.NewChunkFromStorage(id, []byte("this is not a zstd frame"), desync.Converters{desync.Compressor{}}, true)
			if cerr != nil {
				m.end2("get", id, n, t0, "error", 0, cerr, nil)
				return nil, cerr
			}
			m.end2("get", id, n, t0, "garbled", 0, nil, ch)
			return ch, nil
		} else if err != nil {
			m.end2("get", id, n, t0, "error", 0, err, nil)
			return nil, err
		}
	}
	m.mu.Lock()
	b, ok := m.data[id]
	inv := m.invalid[id]
	m.mu.Unlock()
	switch {
	case !ok:
		e := desync.ChunkMissing{ID: id}
		m.end2("get", id, n, t0, "missing", 0, e, nil)
		return nil, e
	case inv:
		m.end("get", id, n, t0, "invalid", 0)
		return nil, desync.ChunkInvalid{ID: id, Sum: Sum(b)}
	}
	tok := atomic.AddInt64(&tokCounter, 1)
	ch := desync.NewChunk(b)
	if m.Lazy {
		// what a compressed store opened without verification hands out: the storage form, decoded on first use
		if z, err := desync.Compress(b); err == nil {
			if lc, err := desync.NewChunkFromStorage(id, z, desync.Converters{desync.Compressor{}}, true); err == nil {
				ch = lc
			}
		}
	}
	m.end2("get", id, n, t0, "ok", tok, nil, ch)
	return ch, nil
}

func (m *MemStore) HasChunk(id desync.ChunkID) (bool, error) {
	n, t0, _ := m.begin("has", id)
	if f := m.getFault(); f != nil {
		if err := f("has", n, id); err != nil {
			m.end2("has", id, n, t0, "error", 0, err, nil)
			return false, err
		}
	}
	m.mu.Lock()
	_, ok := m.data[id]
	m.mu.Unlock()
	m.end("has", id, n, t0, fmt.Sprint(ok), 0)
	return ok, nil
}

func (m *MemStore) StoreChunk(c *desync.Chunk) error {
	id := c.ID()
	n, t0, _ := m.begin("store", id)
	if f := m.getFault(); f != nil {
		if err := f("store", n, id); err != nil {
			m.end2("store", id, n, t0, "error", 0, err, c)
			return err
		}
	}
	b, err := c.Data()
	if err != nil {
		m.end("store", id, n, t0, "error", 0)
		return err
	}
	m.mu.Lock()
	m.data[id] = append([]byte(nil), b...)
	delete(m.invalid, id)
	m.mu.Unlock()
	m.end2("store", id, n, t0, "ok", 0, nil, c)
	return nil
}

func (m *MemStore) Close() error {
	m.mu.Lock()
	m.closed = true
	m.counts["close"]++
	for _, n := range m.inFl {
		m.ClosedInFlight += int64(n)
	}
	m.mu.Unlock()
	return nil
}
func (m *MemStore) Closed() bool {
	m.mu.Lock()
	defer m.mu.Unlock()
	return m.closed
}
func (m *MemStore) String() string { return "mem:" + m.Name }

// ReadOnlyMem hides StoreChunk so the value is a plain Store.
type ReadOnlyMem struct{ M *MemStore }

func (r ReadOnlyMem) GetChunk(id desync.ChunkID) (*desync.Chunk, error) { return r.M.GetChunk(id) }
func (r ReadOnlyMem) HasChunk(id desync.ChunkID) (bool, error)          { return r.M.HasChunk(id) }
func (r ReadOnlyMem) Close() error                                      { return r.M.Close() }
func (r ReadOnlyMem) String() string                                    { return r.M.String() }

// ---------------------------------------------------------------------------

// FaultStore wraps any WriteStore (or Store), counts calls and injects faults / actions at the k-th call.
type FaultStore struct {
	S desync.Store
	// Before is called before the n-th (1-based, per op) call; a non-nil error is returned instead of calling through.
	Before func(op string, n int64, id desync.ChunkID) error
	get    int64
	has    int64
	store  int64
	// Delivered counts injected errors.
	Delivered int64
}

func (f *FaultStore) GetChunk(id desync.ChunkID) (*desync.Chunk, error) {
	n := atomic.AddInt64(&f.get, 1)
	if f.Before != nil {
		if err := f.Before("get", n, id); err != nil {
			atomic.AddInt64(&f.Delivered, 1)
			return nil, err
		}
	}
	return f.S.GetChunk(id)
}
func (f *FaultStore) HasChunk(id desync.ChunkID) (bool, error) {
	n := atomic.AddInt64(&f.has, 1)
	if f.Before != nil {
		if err := f.Before("has", n, id); err != nil {
			atomic.AddInt64(&f.Delivered, 1)
			return false, err
		}
	}
	return f.S.HasChunk(id)
}
func (f *FaultStore) StoreChunk(c *desync.Chunk) error {
	n := atomic.AddInt64(&f.store, 1)
	if f.Before != nil {
		if err := f.Before("store", n, c.ID()); err != nil {
			atomic.AddInt64(&f.Delivered, 1)
			return err
		}
	}
	ws, ok := f.S.(desync.WriteStore)
	if !ok {
		return errors.New("not writable")
	}
	return ws.StoreChunk(c)
}
func (f *FaultStore) Close() error   { return f.S.Close() }
func (f *FaultStore) String() string { return "fault(" + f.S.String() + ")" }
func (f *FaultStore) Gets() int64    { return atomic.LoadInt64(&f.get) }
func (f *FaultStore) Hass() int64    { return atomic.LoadInt64(&f.has) }
func (f *FaultStore) Stores() int64  { return atomic.LoadInt64(&f.store) }

// ---------------------------------------------------------------------------

// WriteFile is os.WriteFile that panics on error (harness-side failures are not verdicts).
func WriteFile(path string, b []byte) {
	if err := os.MkdirAll(filepath.Dir(path), 0755); err != nil {
		panic(err)
	}
	if err := os.WriteFile(path, b, 0644); err != nil {
		panic(err)
	}
}

// Must panics on a harness-side error.
func Must(err error) {
	if err != nil {
		panic(err)
	}
}

// NullPB is a ProgressBar that records what it was told.
type CountPB struct {
	mu    sync.Mutex
	Total int
	Sum   int64
	Calls int64
	// OnAdd is called on every progress event with the ordinal of the event.
	OnAdd func(n int64)
}

func (p *CountPB) SetTotal(total int) { p.mu.Lock(); p.Total = total; p.mu.Unlock() }
func (p *CountPB) Start()             {}
func (p *CountPB) Finish()            {}
func (p *CountPB) Increment() int     { p.add(1); return 0 }
func (p *CountPB) Add(add int) int    { p.add(add); return 0 }
func (p *CountPB) Set(current int) {
	// a progress event like Add (IndexFromFile reports its progress this way)
	p.mu.Lock()
	p.Sum = int64(current)
	p.Calls++
	c := p.Calls
	f := p.OnAdd
	p.mu.Unlock()
	if f != nil {
		f(c)
	}
}
func (p *CountPB) Write(b []byte) (int, error) { return len(b), nil }
func (p *CountPB) add(n int) {
	p.mu.Lock()
	p.Sum += int64(n)
	p.Calls++
	c := p.Calls
	f := p.OnAdd
	p.mu.Unlock()
	if f != nil {
		f(c)
	}
}
func (p *CountPB) Get() (sum int64, calls int64) {
	p.mu.Lock()
	defer p.mu.Unlock()
	return p.Sum, p.Calls
}

// Goid returns the id of the calling goroutine.
func Goid() int64 {
	var buf [40]byte
	n := runtime.Stack(buf[:], false)
	// "goroutine 123 ["
	var id int64
	for i := 10; i < n; i++ {
		c := buf[i]
		if c < '0' || c > '9' {
			break
		}
		id = id*10 + int64(c-'0')
	}
	return id
}
