//go:build verif

package dsu

import (
	"hash/fnv"
	"runtime"
	"sync"
	"time"

	"github.com/folbricht/desync"
)

// Yielder perturbs schedules at desync's verifYield points.
//
// Modes:
//
//	YieldOff     no callback installed
//	YieldNoSync  perturbation without any shared state in the callback (Gosched / short
//	             sleeps decided by a hash of (seed, goroutine id, point, nanotime)); it adds
//	             no happens-before edges, so the race detector sees the code as it is
//	YieldTraced  same perturbation plus a mutex-protected trace: hits per point, a
//	             signature of the global (role, point) order, and an OnHit callback
//	             (used to cancel a context / fire an action at the k-th hit)
const (
	YieldOff = iota
	YieldNoSync
	YieldTraced
)

type Yielder struct {
	Mode    int
	Seed    uint64
	Classes uint64 // goroutines are hashed into this many classes ...
	Slow    uint64 // ... and this class is slowed at every point (PCT-style priority)
	Prob    uint64 // otherwise perturb with probability Prob/256

	mu    sync.Mutex
	Hits  map[string]int64
	sig   uint64
	roles map[int64]int
	Total int64
	// OnHit is called (outside the mutex) with the point and its 1-based hit ordinal.
	OnHit func(point string, n int64)
}

func NewYielder(mode int, seed uint64) *Yielder {
	y := &Yielder{Mode: mode, Seed: seed, Classes: 2 + seed%3, Prob: 64, Hits: map[string]int64{}, roles: map[int64]int{}}
	y.Slow = (seed / 7) % y.Classes
	return y
}

func mix(x uint64) uint64 {
	x += 0x9e3779b97f4a7c15
	x = (x ^ (x >> 30)) * 0xbf58476d1ce4e5b9
	x = (x ^ (x >> 27)) * 0x94d049bb133111eb
	return x ^ (x >> 31)
}

func (y *Yielder) perturb(g int64, point string) {
	h := mix(y.Seed ^ uint64(g)*0x100000001b3)
	if h%y.Classes == y.Slow {
		time.Sleep(time.Duration(20+h%200) * time.Microsecond)
		return
	}
	r := mix(h ^ uint64(time.Now().UnixNano()) ^ uint64(len(point))<<32 ^ uint64(point[len(point)-1]))
	if r%256 < y.Prob {
		switch (r >> 8) % 3 {
		case 0:
			runtime.Gosched()
		case 1:
			for i := uint64(0); i < (r>>16)%5+1; i++ {
				runtime.Gosched()
			}
		case 2:
			time.Sleep(time.Duration((r>>16)%100) * time.Microsecond)
		}
	}
}

func (y *Yielder) cb(point string) {
	g := Goid()
	if y.Mode == YieldTraced {
		y.mu.Lock()
		y.Hits[point]++
		n := y.Hits[point]
		y.Total++
		role, ok := y.roles[g]
		if !ok {
			role = len(y.roles)
			y.roles[g] = role
		}
		f := fnv.New64a()
		var b [9]byte
		for i := 0; i < 8; i++ {
			b[i] = byte(y.sig >> (8 * i))
		}
		b[8] = byte(role)
		f.Write(b[:])
		f.Write([]byte(point))
		y.sig = f.Sum64()
		cbk := y.OnHit
		y.mu.Unlock()
		if cbk != nil {
			cbk(point, n)
		}
	}
	y.perturb(g, point)
}

// Install activates the yielder (no-op for YieldOff).
func (y *Yielder) Install() {
	if y.Mode == YieldOff {
		desync.VerifSetYield(nil)
		return
	}
	desync.VerifSetYield(y.cb)
}

// Remove deactivates the hook.
func (y *Yielder) Remove() { desync.VerifSetYield(nil) }

// Signature returns the order signature and the total number of hits (traced mode).
func (y *Yielder) Signature() (uint64, int64) {
	y.mu.Lock()
	defer y.mu.Unlock()
	return y.sig, y.Total
}

// HitsCopy returns hits per point (traced mode).
func (y *Yielder) HitsCopy() map[string]int64 {
	y.mu.Lock()
	defer y.mu.Unlock()
	m := map[string]int64{}
	for k, v := range y.Hits {
		m[k] = v
	}
	return m
}
