// Package treegen generates directory trees with hostile names and metadata, materializes
// them on disk (as root) and snapshots trees for typed comparison.
package treegen

import (
	"crypto/sha256"
	"fmt"
	"math/rand"
	"os"
	"path/filepath"
	"sort"
	"syscall"

	"github.com/pkg/xattr"
	"golang.org/x/sys/unix"
)

type Entry struct {
	Path   string // relative, "." is the root
	Kind   string // dir, file, symlink, chr, blk, fifo, sock
	Mode   uint32 // permission + set-id/sticky bits (07777)
	UID    int
	GID    int
	MTime  int64 // ns since epoch
	Xattrs map[string]string
	Target string
	Major  uint32
	Minor  uint32
	Data   []byte
}

type Options struct {
	MaxDepth    int
	MaxFanout   int
	FixedFanout int  // >=0: the root has exactly this many children (all kinds), -1: random
	Specials    bool // fifos and sockets present in the source
	Devices     bool
	Xattrs      bool
	OddNames    bool
	OddMeta     bool // set-id/sticky, odd uid/gid, odd mtimes
	BigFiles    bool
	ZeroMTime   bool // allow mtime exactly 0
}

func randName(rng *rand.Rand, odd bool, used map[string]bool) string {
	for {
		var n []byte
		if !odd || rng.Intn(3) == 0 {
			l := 1 + rng.Intn(12)
			for i := 0; i < l; i++ {
				n = append(n, "abcdefghijklmnopqrstuvwxyzABCDEFGH0123456789_.-"[rng.Intn(47)])
			}
		} else {
			var l int
			switch rng.Intn(6) {
			case 0:
				l = 255
			case 1:
				l = 1
			case 2:
				l = 100 + rng.Intn(155)
			default:
				l = 1 + rng.Intn(30)
			}
			for i := 0; i < l; i++ {
				c := byte(1 + rng.Intn(255))
				if c == '/' {
					c = '\\'
				}
				n = append(n, c)
			}
			switch rng.Intn(8) {
			case 0:
				n[0] = '-'
			case 1:
				n[0] = ' '
			case 2:
				n[0] = '\n'
			case 3:
				n[0] = '.'
			case 4:
				if len(n) > 2 {
					n[0], n[1], n[2] = '.', '.', '.'
				}
			}
		}
		s := string(n)
		if s == "." || s == ".." || used[s] {
			continue
		}
		used[s] = true
		return s
	}
}

func meta(rng *rand.Rand, e *Entry, o Options) {
	e.Mode = []uint32{0644, 0755, 0600, 0700, 0444, 0777, 0640, 0}[rng.Intn(8)]
	if e.Kind == "dir" {
		e.Mode = []uint32{0755, 0700, 0775, 0711, 0777}[rng.Intn(5)]
	}
	e.MTime = 1500000000_000000000 + rng.Int63n(200000000_000000000)
	if o.OddMeta {
		switch rng.Intn(6) {
		case 0:
			e.Mode |= 04000
		case 1:
			e.Mode |= 02000
		case 2:
			e.Mode |= 01000
		case 3:
			e.Mode |= 06000
			e.Mode |= 0110
		}
		if rng.Intn(3) == 0 {
			e.UID = rng.Intn(70000)
			e.GID = rng.Intn(70000)
		}
		switch rng.Intn(8) {
		case 0:
			e.MTime = -1 - rng.Int63n(1000000000_000000000) // before 1970
		case 1:
			e.MTime = 4000000000_000000000 + rng.Int63n(1000000000_000000000) // far future
		case 2:
			e.MTime = rng.Int63n(1000000000) // first second
		case 3:
			e.MTime = (e.MTime / 1000000000) * 1000000000 // whole second
		case 4:
			if o.ZeroMTime {
				e.MTime = 0
			}
		}
	}
	if e.Kind == "symlink" {
		e.Mode = 0777
	}
	if o.Xattrs && (e.Kind == "file" || e.Kind == "dir") && rng.Intn(3) == 0 {
		e.Xattrs = map[string]string{}
		for k := 0; k < 1+rng.Intn(3); k++ {
			v := make([]byte, rng.Intn(40))
			rng.Read(v)
			if rng.Intn(2) == 0 {
				v = []byte(fmt.Sprintf("value-%d", rng.Intn(1000)))
			}
			if rng.Intn(6) == 0 {
				v = append(v, 0) // binary attributes (capabilities, ACLs) routinely end in a zero byte
			}
			e.Xattrs[fmt.Sprintf("user.k%d", rng.Intn(5))] = string(v)
		}
	}
}

// Generate returns entries in depth-first order, parent first, children sorted by name.
func Generate(rng *rand.Rand, o Options) []Entry {
	root := Entry{Path: ".", Kind: "dir"}
	meta(rng, &root, o)
	root.Mode |= 0700
	out := []Entry{root}
	var gen func(dir string, depth int)
	gen = func(dir string, depth int) {
		n := rng.Intn(o.MaxFanout + 1)
		if depth == 0 && o.FixedFanout >= 0 {
			n = o.FixedFanout
		}
		if depth > 0 && rng.Intn(3) == 0 {
			n = 0
		}
		used := map[string]bool{}
		var names []string
		for i := 0; i < n; i++ {
			names = append(names, randName(rng, o.OddNames, used))
		}
		// siblings whose names are prefixes of one another (lib, lib64, lib.txt)
		if n > 0 && rng.Intn(3) == 0 {
			base := names[rng.Intn(len(names))]
			for _, suf := range []string{"64", ".txt", "-b", "0"} {
				if cand := base + suf; len(cand) <= 255 && !used[cand] && rng.Intn(2) == 0 {
					used[cand] = true
					names = append(names, cand)
				}
			}
		}
		sort.Strings(names)
		for _, name := range names {
			p := name
			if dir != "." {
				p = dir + "/" + name
			}
			if len(p) > 3500 {
				continue
			}
			e := Entry{Path: p}
			r := rng.Intn(100)
			switch {
			case r < 20 && depth < o.MaxDepth:
				e.Kind = "dir"
			case r < 30:
				e.Kind = "symlink"
				switch rng.Intn(5) {
				case 0:
					e.Target = "/absolute/target"
				case 1:
					e.Target = "../" + name
				case 2:
					e.Target = "dangling-" + fmt.Sprint(rng.Intn(1000))
				case 3:
					t := make([]byte, 200+rng.Intn(800))
					for k := range t {
						t[k] = byte('a' + rng.Intn(26))
						if k%50 == 49 {
							t[k] = '/'
						}
					}
					e.Target = string(t)
				default:
					e.Target = "."
				}
			case r < 35 && o.Devices:
				e.Kind = []string{"chr", "blk"}[rng.Intn(2)]
				e.Major = uint32(rng.Intn(4095))
				e.Minor = uint32(rng.Intn(1 << 20))
				if rng.Intn(2) == 0 {
					e.Major, e.Minor = 1, 3
				}
			case r < 40 && o.Specials:
				e.Kind = []string{"fifo", "sock"}[rng.Intn(2)]
			default:
				e.Kind = "file"
				var l int
				switch rng.Intn(6) {
				case 0:
					l = 0
				case 1:
					l = 1
				default:
					l = rng.Intn(3000)
				}
				if o.BigFiles && rng.Intn(10) == 0 {
					l = 100000 + rng.Intn(400000)
				}
				e.Data = make([]byte, l)
				if rng.Intn(4) != 0 {
					rng.Read(e.Data)
				}
			}
			meta(rng, &e, o)
			out = append(out, e)
			if e.Kind == "dir" {
				gen(p, depth+1)
			}
		}
	}
	gen(".", 0)
	return out
}

// Materialize creates the tree below root (which must not exist or be empty). Needs root privileges
// for chown, mknod and set-id bits.
func Materialize(root string, entries []Entry) error {
	for _, e := range entries {
		p := filepath.Join(root, e.Path)
		var err error
		switch e.Kind {
		case "dir":
			err = os.MkdirAll(p, 0700)
		case "file":
			err = os.WriteFile(p, e.Data, 0600)
		case "symlink":
			err = os.Symlink(e.Target, p)
		case "chr":
			err = unix.Mknod(p, unix.S_IFCHR|0600, int(unix.Mkdev(e.Major, e.Minor)))
		case "blk":
			err = unix.Mknod(p, unix.S_IFBLK|0600, int(unix.Mkdev(e.Major, e.Minor)))
		case "fifo":
			err = unix.Mkfifo(p, 0600)
		case "sock":
			err = unix.Mknod(p, unix.S_IFSOCK|0600, 0)
		}
		if err != nil {
			return fmt.Errorf("%s %q: %w", e.Kind, e.Path, err)
		}
	}
	// metadata, children before parents so that directory mtimes stick
	for i := len(entries) - 1; i >= 0; i-- {
		e := entries[i]
		p := filepath.Join(root, e.Path)
		for k, v := range e.Xattrs {
			if err := xattr.LSet(p, k, []byte(v)); err != nil {
				return fmt.Errorf("xattr %q: %w", e.Path, err)
			}
		}
		if err := os.Lchown(p, e.UID, e.GID); err != nil {
			return fmt.Errorf("chown %q: %w", e.Path, err)
		}
		if e.Kind != "symlink" {
			if err := unix.Chmod(p, e.Mode); err != nil {
				return fmt.Errorf("chmod %q: %w", e.Path, err)
			}
		}
		ts := unix.NsecToTimespec(e.MTime)
		if err := unix.UtimesNanoAt(unix.AT_FDCWD, p, []unix.Timespec{ts, ts}, unix.AT_SYMLINK_NOFOLLOW); err != nil {
			return fmt.Errorf("utimes %q: %w", e.Path, err)
		}
	}
	return nil
}

// Snap is the observable state of one filesystem object.
type Snap struct {
	Type   string // dir file symlink chr blk fifo sock
	Mode   uint32 // 07777 bits
	UID    uint32
	GID    uint32
	Size   int64
	MTime  int64
	Rdev   uint64
	Target string
	Xattrs map[string]string
	Hash   [32]byte
	Nlink  uint64
}

func typeOf(mode uint32) string {
	switch mode & syscall.S_IFMT {
	case syscall.S_IFDIR:
		return "dir"
	case syscall.S_IFREG:
		return "file"
	case syscall.S_IFLNK:
		return "symlink"
	case syscall.S_IFCHR:
		return "chr"
	case syscall.S_IFBLK:
		return "blk"
	case syscall.S_IFIFO:
		return "fifo"
	case syscall.S_IFSOCK:
		return "sock"
	}
	return "?"
}

// SkipContent names files (by base name) whose content Snapshot does not hash (large helper binaries placed in a
// scratch tree); their metadata is still recorded.
var SkipContent = map[string]bool{}

// Snapshot walks root without following symlinks. Paths are relative, the root is ".".
func Snapshot(root string) (map[string]Snap, error) {
	out := map[string]Snap{}
	var walk func(rel string) error
	walk = func(rel string) error {
		p := filepath.Join(root, rel)
		var st unix.Stat_t
		if err := unix.Lstat(p, &st); err != nil {
			return err
		}
		s := Snap{Type: typeOf(st.Mode), Mode: st.Mode & 07777, UID: st.Uid, GID: st.Gid, MTime: st.Mtim.Sec*1000000000 + st.Mtim.Nsec, Nlink: uint64(st.Nlink)}
		switch s.Type {
		case "file":
			s.Size = st.Size
			if !SkipContent[filepath.Base(p)] {
				b, err := os.ReadFile(p)
				if err != nil {
					return err
				}
				s.Hash = sha256.Sum256(b)
			}
		case "symlink":
			t, err := os.Readlink(p)
			if err != nil {
				return err
			}
			s.Target = t
		case "chr", "blk":
			s.Rdev = uint64(st.Rdev)
		}
		{ // every type: root can put trusted.* attributes on symlinks and device nodes as well
			keys, err := xattr.LList(p)
			if err == nil && len(keys) > 0 {
				s.Xattrs = map[string]string{}
				for _, k := range keys {
					v, _ := xattr.LGet(p, k)
					s.Xattrs[k] = string(v)
				}
			}
		}
		out[rel] = s
		if s.Type == "dir" {
			f, err := os.Open(p)
			if err != nil {
				return err
			}
			names, err := f.Readdirnames(-1)
			f.Close()
			if err != nil {
				return err
			}
			for _, n := range names {
				c := n
				if rel != "." {
					c = rel + "/" + n
				}
				if err := walk(c); err != nil {
					return err
				}
			}
		}
		return nil
	}
	return out, walk(".")
}

// Diff is one typed difference.
type Diff struct {
	Path, Type, Field, Want, Got string
}

// Compare returns typed differences of got against want. Fields: missing, extra, type, mode, uid, gid, size, content, mtime, rdev, target, xattrs.
func Compare(want, got map[string]Snap) []Diff {
	var out []Diff
	var paths []string
	for p := range want {
		paths = append(paths, p)
	}
	sort.Strings(paths)
	for _, p := range paths {
		w := want[p]
		g, ok := got[p]
		if !ok {
			out = append(out, Diff{p, w.Type, "missing", w.Type, ""})
			continue
		}
		if w.Type != g.Type {
			out = append(out, Diff{p, w.Type, "type", w.Type, g.Type})
			continue
		}
		add := func(f string, a, b interface{}) {
			if fmt.Sprint(a) != fmt.Sprint(b) {
				out = append(out, Diff{p, w.Type, f, fmt.Sprint(a), fmt.Sprint(b)})
			}
		}
		if w.Type != "symlink" {
			add("mode", fmt.Sprintf("%o", w.Mode), fmt.Sprintf("%o", g.Mode))
		}
		add("uid", w.UID, g.UID)
		add("gid", w.GID, g.GID)
		add("mtime", w.MTime, g.MTime)
		switch w.Type {
		case "file":
			add("size", w.Size, g.Size)
			add("content", fmt.Sprintf("%x", w.Hash[:6]), fmt.Sprintf("%x", g.Hash[:6]))
		case "symlink":
			add("target", w.Target, g.Target)
		case "chr", "blk":
			add("rdev", w.Rdev, g.Rdev)
		}
		add("xattrs", fmt.Sprint(sortedMap(w.Xattrs)), fmt.Sprint(sortedMap(g.Xattrs)))
	}
	var extra []string
	for p := range got {
		if _, ok := want[p]; !ok {
			extra = append(extra, p)
		}
	}
	sort.Strings(extra)
	for _, p := range extra {
		out = append(out, Diff{p, got[p].Type, "extra", "", got[p].Type})
	}
	return out
}

func sortedMap(m map[string]string) []string {
	var out []string
	for k, v := range m {
		out = append(out, fmt.Sprintf("%s=%q", k, v))
	}
	sort.Strings(out)
	return out
}
