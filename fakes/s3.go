// Package fakes holds loopback stand-ins for remote peers: an S3 server (path-style; object
// GET/HEAD/PUT/DELETE, ListObjectsV2, minimal multipart upload) good enough for minio-go v6.
package fakes

import (
	"crypto/md5"
	"encoding/hex"
	"encoding/xml"
	"fmt"
	"io"
	"net/http"
	"net/http/httptest"
	"net/url"
	"sort"
	"strings"
	"sync"

	minio "github.com/minio/minio-go/v6"
	"github.com/minio/minio-go/v6/pkg/credentials"
)

type S3 struct {
	mu      sync.Mutex
	Objects map[string][]byte // key (without bucket) -> data
	uploads map[string]map[int][]byte
	Srv     *httptest.Server
	Bucket  string
	// Log of requests: "METHOD key"
	Log []string
	nup int
	// FailHead, if non-zero, is the status every HEAD of an object is answered with (e.g. 500, 403).
	FailHead int
	// RefuseDelete, if set, makes DELETE of the keys it returns true for fail with 403 AccessDenied.
	RefuseDelete func(key string) bool
	Refused      int
	// PageSize, if non-zero, is the number of keys a listing returns per request (continuation tokens for the rest).
	PageSize int
	// OnList, if set, is called (without the lock) before the page-th page of a listing is served (1-based).
	OnList func(page int)
}

func NewS3(bucket string) *S3 {
	s := &S3{Objects: map[string][]byte{}, uploads: map[string]map[int][]byte{}, Bucket: bucket}
	s.Srv = httptest.NewServer(http.HandlerFunc(s.serve))
	return s
}

func (s *S3) Close() { s.Srv.Close() }

// URL returns the desync location (s3+http://host/bucket/prefix).
func (s *S3) URL(prefix string) *url.URL {
	u, _ := url.Parse("s3+" + s.Srv.URL + "/" + s.Bucket + "/" + prefix)
	return u
}

func Creds() *credentials.Credentials { return credentials.NewStaticV2("key", "secret", "") }

const Region = "us-east-1"

var Lookup = minio.BucketLookupPath

func (s *S3) Get(key string) ([]byte, bool) {
	s.mu.Lock()
	defer s.mu.Unlock()
	b, ok := s.Objects[key]
	return b, ok
}
func (s *S3) Put(key string, b []byte) {
	s.mu.Lock()
	s.Objects[key] = append([]byte(nil), b...)
	s.mu.Unlock()
}
func (s *S3) Delete(key string) {
	s.mu.Lock()
	delete(s.Objects, key)
	s.mu.Unlock()
}
func (s *S3) Keys() []string {
	s.mu.Lock()
	defer s.mu.Unlock()
	var out []string
	for k := range s.Objects {
		out = append(out, k)
	}
	sort.Strings(out)
	return out
}

func (s *S3) serve(w http.ResponseWriter, r *http.Request) {
	p := strings.TrimPrefix(r.URL.Path, "/")
	parts := strings.SplitN(p, "/", 2)
	key := ""
	if len(parts) == 2 {
		key = parts[1]
	}
	q := r.URL.Query()
	s.mu.Lock()
	s.Log = append(s.Log, r.Method+" "+key+"?"+r.URL.RawQuery)
	s.mu.Unlock()
	if parts[0] != s.Bucket {
		s3err(w, 404, "NoSuchBucket")
		return
	}
	switch {
	case key == "" && r.Method == "GET" && q.Get("location") != "" || (key == "" && r.Method == "GET" && strings.Contains(r.URL.RawQuery, "location")):
		w.Header().Set("Content-Type", "application/xml")
		fmt.Fprint(w, `<?xml version="1.0" encoding="UTF-8"?><LocationConstraint xmlns="http://s3.amazonaws.com/doc/2006-03-01/"></LocationConstraint>`)
	case key == "" && r.Method == "GET":
		s.list(w, q)
	case key == "" && r.Method == "HEAD":
		w.WriteHeader(200)
	case r.Method == "POST" && strings.Contains(r.URL.RawQuery, "uploads"):
		s.mu.Lock()
		s.nup++
		id := fmt.Sprintf("up%d", s.nup)
		s.uploads[id] = map[int][]byte{}
		s.mu.Unlock()
		w.Header().Set("Content-Type", "application/xml")
		fmt.Fprintf(w, `<?xml version="1.0" encoding="UTF-8"?><InitiateMultipartUploadResult><Bucket>%s</Bucket><Key>%s</Key><UploadId>%s</UploadId></InitiateMultipartUploadResult>`, s.Bucket, key, id)
	case r.Method == "PUT" && q.Get("uploadId") != "":
		b, _ := io.ReadAll(r.Body)
		var n int
		fmt.Sscan(q.Get("partNumber"), &n)
		s.mu.Lock()
		if up, ok := s.uploads[q.Get("uploadId")]; ok {
			up[n] = b
		}
		s.mu.Unlock()
		sum := md5.Sum(b)
		w.Header().Set("ETag", `"`+hex.EncodeToString(sum[:])+`"`)
		w.WriteHeader(200)
	case r.Method == "POST" && q.Get("uploadId") != "":
		s.mu.Lock()
		up := s.uploads[q.Get("uploadId")]
		var nums []int
		for n := range up {
			nums = append(nums, n)
		}
		sort.Ints(nums)
		var all []byte
		for _, n := range nums {
			all = append(all, up[n]...)
		}
		s.Objects[key] = all
		delete(s.uploads, q.Get("uploadId"))
		s.mu.Unlock()
		w.Header().Set("Content-Type", "application/xml")
		fmt.Fprintf(w, `<?xml version="1.0" encoding="UTF-8"?><CompleteMultipartUploadResult><Bucket>%s</Bucket><Key>%s</Key><ETag>"x"</ETag></CompleteMultipartUploadResult>`, s.Bucket, key)
	case r.Method == "DELETE" && q.Get("uploadId") != "":
		w.WriteHeader(204)
	case r.Method == "PUT":
		b, _ := io.ReadAll(r.Body)
		s.Put(key, b)
		sum := md5.Sum(b)
		w.Header().Set("ETag", `"`+hex.EncodeToString(sum[:])+`"`)
		w.WriteHeader(200)
	case r.Method == "HEAD" && s.FailHead != 0:
		w.WriteHeader(s.FailHead)
	case r.Method == "GET" || r.Method == "HEAD":
		b, ok := s.Get(key)
		if !ok {
			s3err(w, 404, "NoSuchKey")
			return
		}
		sum := md5.Sum(b)
		w.Header().Set("ETag", `"`+hex.EncodeToString(sum[:])+`"`)
		w.Header().Set("Content-Length", fmt.Sprint(len(b)))
		w.Header().Set("Last-Modified", "Mon, 02 Jan 2006 15:04:05 GMT")
		w.Header().Set("Content-Type", "application/octet-stream")
		if r.Method == "GET" {
			// honour simple range requests (minio reads with ranges when seeking)
			w.WriteHeader(200)
			w.Write(b)
		}
	case r.Method == "DELETE":
		s.mu.Lock()
		if s.RefuseDelete != nil && s.RefuseDelete(key) {
			s.Refused++
			s.mu.Unlock()
			s3err(w, 403, "AccessDenied")
			return
		}
		delete(s.Objects, key)
		s.mu.Unlock()
		w.WriteHeader(204)
	default:
		s3err(w, 400, "InvalidRequest")
	}
}

func s3err(w http.ResponseWriter, code int, s3code string) {
	w.Header().Set("Content-Type", "application/xml")
	w.WriteHeader(code)
	fmt.Fprintf(w, `<?xml version="1.0" encoding="UTF-8"?><Error><Code>%s</Code><Message>%s</Message><Resource>/</Resource><RequestId>1</RequestId></Error>`, s3code, s3code)
}

type listResult struct {
	XMLName     xml.Name  `xml:"ListBucketResult"`
	Name        string    `xml:"Name"`
	Prefix      string    `xml:"Prefix"`
	KeyCount    int       `xml:"KeyCount"`
	MaxKeys     int       `xml:"MaxKeys"`
	IsTruncated bool      `xml:"IsTruncated"`
	NextToken   string    `xml:"NextContinuationToken,omitempty"`
	Contents    []listObj `xml:"Contents"`
}
type listObj struct {
	Key          string `xml:"Key"`
	LastModified string `xml:"LastModified"`
	ETag         string `xml:"ETag"`
	Size         int    `xml:"Size"`
	StorageClass string `xml:"StorageClass"`
}

func (s *S3) list(w http.ResponseWriter, q url.Values) {
	prefix := q.Get("prefix")
	res := listResult{Name: s.Bucket, Prefix: prefix, MaxKeys: 100000}
	after := q.Get("continuation-token")
	if after == "" {
		after = q.Get("start-after")
	}
	page := 1
	if i := strings.Index(after, "|page"); i >= 0 {
		fmt.Sscan(after[i+5:], &page)
		after = after[:i]
	}
	if s.OnList != nil {
		s.OnList(page)
	}
	for _, k := range s.Keys() {
		if strings.HasPrefix(k, prefix) && k > after {
			if s.PageSize > 0 && len(res.Contents) == s.PageSize {
				res.IsTruncated = true
				res.NextToken = fmt.Sprintf("%s|page%d", res.Contents[len(res.Contents)-1].Key, page+1)
				break
			}
			b, _ := s.Get(k)
			res.Contents = append(res.Contents, listObj{Key: k, LastModified: "2006-01-02T15:04:05.000Z", ETag: `"x"`, Size: len(b), StorageClass: "STANDARD"})
		}
	}
	res.KeyCount = len(res.Contents)
	w.Header().Set("Content-Type", "application/xml")
	b, _ := xml.Marshal(res)
	w.Write([]byte(xml.Header))
	w.Write(b)
}
