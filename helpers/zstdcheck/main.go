// zstdcheck <file>...: for each file, checks with the system's reference libzstd that the file is exactly one
// zstd frame (ZSTD_findFrameCompressedSize == file size) and decompresses it; prints "<sha256 of content> <len>" or "ERROR ...".
package main

/*
#cgo LDFLAGS: -lzstd
#include <zstd.h>
#include <stdlib.h>

// stream_compress compresses src with the streaming API without announcing the size, the way casync does
// (ZSTD_compressStream / ZSTD_endStream at the default level): the frame carries a window descriptor.
static size_t stream_compress(const void* src, size_t srcSize, void* dst, size_t dstCap) {
	ZSTD_CCtx* c = ZSTD_createCCtx();
	ZSTD_CCtx_setParameter(c, ZSTD_c_compressionLevel, 3);
	ZSTD_inBuffer in = { src, srcSize, 0 };
	ZSTD_outBuffer out = { dst, dstCap, 0 };
	size_t r;
	// first feed the data without ending the frame (casync: ZSTD_compressStream per buffer, then ZSTD_endStream): only
	// then is the source size unknown when the header is written; a first call with ZSTD_e_end is a one-shot compression
	// and yields a single-segment frame with a content size.
	do {
		r = ZSTD_compressStream2(c, &out, &in, ZSTD_e_continue);
		if (ZSTD_isError(r)) { ZSTD_freeCCtx(c); return r; }
	} while (in.pos < in.size);
	do {
		r = ZSTD_compressStream2(c, &out, &in, ZSTD_e_end);
		if (ZSTD_isError(r)) { ZSTD_freeCCtx(c); return r; }
	} while (r != 0);
	ZSTD_freeCCtx(c);
	return out.pos;
}
*/
import "C"

import (
	"crypto/sha256"
	"fmt"
	"os"
	"unsafe"
)

func main() {
	if len(os.Args) == 4 && os.Args[1] == "-c" {
		// zstdcheck -c <plain file> <out file>: write one streaming-API frame
		b, err := os.ReadFile(os.Args[2])
		if err != nil {
			fmt.Println("ERROR", err)
			os.Exit(1)
		}
		out := make([]byte, len(b)+len(b)/8+1024)
		var p unsafe.Pointer
		if len(b) > 0 {
			p = unsafe.Pointer(&b[0])
		}
		n := C.stream_compress(p, C.size_t(len(b)), unsafe.Pointer(&out[0]), C.size_t(len(out)))
		if C.ZSTD_isError(n) != 0 {
			fmt.Println("ERROR", C.GoString(C.ZSTD_getErrorName(n)))
			os.Exit(1)
		}
		if err := os.WriteFile(os.Args[3], out[:int(n)], 0644); err != nil {
			fmt.Println("ERROR", err)
			os.Exit(1)
		}
		return
	}
	fmt.Printf("libzstd %s\n", C.GoString(C.ZSTD_versionString()))
	for _, f := range os.Args[1:] {
		b, err := os.ReadFile(f)
		if err != nil || len(b) == 0 {
			fmt.Printf("ERROR %s unreadable or empty\n", f)
			continue
		}
		p := unsafe.Pointer(&b[0])
		fs := C.ZSTD_findFrameCompressedSize(p, C.size_t(len(b)))
		if C.ZSTD_isError(fs) != 0 {
			fmt.Printf("ERROR %s not a frame: %s\n", f, C.GoString(C.ZSTD_getErrorName(fs)))
			continue
		}
		if int(fs) != len(b) {
			fmt.Printf("ERROR %s frame is %d bytes, file is %d\n", f, int(fs), len(b))
			continue
		}
		cs := C.ZSTD_getFrameContentSize(p, C.size_t(len(b)))
		size := uint64(cs)
		if size == 0xffffffffffffffff || size == 0xfffffffffffffffe || size > 1<<30 { // unknown / error: use a generous bound
			size = 64 << 20
		}
		out := make([]byte, size+1)
		n := C.ZSTD_decompress(unsafe.Pointer(&out[0]), C.size_t(len(out)), p, C.size_t(len(b)))
		if C.ZSTD_isError(n) != 0 {
			fmt.Printf("ERROR %s decompress: %s\n", f, C.GoString(C.ZSTD_getErrorName(n)))
			continue
		}
		sum := sha256.Sum256(out[:int(n)])
		fmt.Printf("OK %s %x %d\n", f, sum, int(n))
	}
}
