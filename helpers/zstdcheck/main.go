// zstdcheck <file>...: for each file, checks with the system's reference libzstd that the file is exactly one
// zstd frame (ZSTD_findFrameCompressedSize == file size) and decompresses it; prints "<sha256 of content> <len>" or "ERROR ...".
package main

/*
#cgo LDFLAGS: -lzstd
#include <zstd.h>
#include <stdlib.h>
*/
import "C"

import (
	"crypto/sha256"
	"fmt"
	"os"
	"unsafe"
)

func main() {
	fmt.Printf("libzstd %s\n", C.GoString(C.ZSTD_versionString()))
	for _, f := range os.Args[1:] {
		b, err := os.ReadFile(f)
		if err != nil || len(b) == 0 {
			fmt.Printf("ERROR %s unreadable or empty\n", f)
			continue
		}
		p := unsafe.Pointer(&b[0])
		fs := C.ZSTD_findFrameCompressedSize(p, C.size_t(len(b)))
		if C.ZSTD_isError(fs) != 0 {
			fmt.Printf("ERROR %s not a frame: %s\n", f, C.GoString(C.ZSTD_getErrorName(fs)))
			continue
		}
		if int(fs) != len(b) {
			fmt.Printf("ERROR %s frame is %d bytes, file is %d\n", f, int(fs), len(b))
			continue
		}
		cs := C.ZSTD_getFrameContentSize(p, C.size_t(len(b)))
		size := uint64(cs)
		if size == 0xffffffffffffffff || size == 0xfffffffffffffffe || size > 1<<30 { // unknown / error: use a generous bound
			size = 64 << 20
		}
		out := make([]byte, size+1)
		n := C.ZSTD_decompress(unsafe.Pointer(&out[0]), C.size_t(len(out)), p, C.size_t(len(b)))
		if C.ZSTD_isError(n) != 0 {
			fmt.Printf("ERROR %s decompress: %s\n", f, C.GoString(C.ZSTD_getErrorName(n)))
			continue
		}
		sum := sha256.Sum256(out[:int(n)])
		fmt.Printf("OK %s %x %d\n", f, sum, int(n))
	}
}
