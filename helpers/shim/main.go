// shim stands in for the ssh binary (CASYNC_SSH_PATH). desync calls it as
//
//	shim <host> -s sftp                      for sftp:// stores: serve SFTP on stdin/stdout
//	shim <host> "<remote> pull - - - '<path>'" for ssh:// stores: run the command (the remote is
//	                                         CASYNC_REMOTE_PATH, i.e. the freshly built desync binary)
//
// With SHIM_EVIL=<dir> set, the ssh:// form instead runs a hostile casync server that answers
// every request with a complete, valid message for a *different* chunk of the local store at <dir>.
package main

import (
	"encoding/hex"
	"fmt"
	"io"
	"os"
	"os/exec"
	"path/filepath"
	"strings"

	"github.com/folbricht/desync"
	"github.com/pkg/sftp"
)

type stdio struct{}

func (stdio) Read(p []byte) (int, error)  { return os.Stdin.Read(p) }
func (stdio) Write(p []byte) (int, error) { return os.Stdout.Write(p) }
func (stdio) Close() error                { return nil }

func main() {
	if len(os.Args) >= 4 && os.Args[2] == "-s" && os.Args[3] == "sftp" {
		if spec := os.Getenv("SHIM_SFTP_FAULT"); spec != "" {
			serveFaulty(spec)
			return
		}
		srv, err := sftp.NewServer(stdio{})
		if err != nil {
			fmt.Fprintln(os.Stderr, err)
			os.Exit(1)
		}
		if err := srv.Serve(); err != nil && err != io.EOF {
			os.Exit(1)
		}
		return
	}
	if len(os.Args) < 3 {
		os.Exit(2)
	}
	if evil := os.Getenv("SHIM_EVIL"); evil != "" {
		evilServer(evil)
		return
	}
	cmd := exec.Command("sh", "-c", os.Args[2])
	cmd.Stdin, cmd.Stdout, cmd.Stderr = os.Stdin, os.Stdout, os.Stderr
	if err := cmd.Run(); err != nil {
		os.Exit(1)
	}
}

// evilServer answers each request with another chunk's valid, compressed data and that other chunk's id.
func evilServer(dir string) {
	var files []string
	filepath.Walk(dir, func(p string, info os.FileInfo, err error) error {
		if err == nil && !info.IsDir() && strings.HasSuffix(p, ".cacnk") {
			files = append(files, p)
		}
		return nil
	})
	p := desync.NewProtocol(os.Stdin, os.Stdout)
	if _, err := p.Initialize(desync.CaProtocolReadableStore); err != nil {
		os.Exit(1)
	}
	for {
		m, err := p.ReadMessage()
		if err != nil {
			return
		}
		switch m.Type {
		case desync.CaProtocolRequest:
			if len(m.Body) < 40 {
				return
			}
			want := hex.EncodeToString(m.Body[8:40])
			var pick string
			for _, f := range files {
				if !strings.Contains(f, want) {
					pick = f
					break
				}
			}
			if pick == "" {
				id, _ := desync.ChunkIDFromSlice(m.Body[8:40])
				p.SendMissing(id)
				continue
			}
			b, _ := os.ReadFile(pick)
			raw, _ := hex.DecodeString(strings.TrimSuffix(filepath.Base(pick), ".cacnk"))
			id, _ := desync.ChunkIDFromSlice(raw)
			reqID, _ := desync.ChunkIDFromSlice(m.Body[8:40])
			switch os.Getenv("SHIM_EVIL_MODE") {
			default: // the other chunk, complete and valid, under its own id
				p.SendProtocolChunk(id, desync.CaProtocolChunkCompressed, b)
			case "requested-id": // ... under the requested id
				p.SendProtocolChunk(reqID, desync.CaProtocolChunkCompressed, b)
			case "unflagged-plain": // not marked as compressed: the other chunk's plain data under the requested id
				plain, _ := desync.Decompress(nil, b)
				p.SendProtocolChunk(reqID, 0, plain)
			case "unflagged-compressed": // not marked as compressed, yet compressed
				p.SendProtocolChunk(reqID, 0, b)
			case "unflagged-garbage":
				p.SendProtocolChunk(reqID, 0, []byte("neither a zstd frame nor the chunk that was asked for"))
			case "unflagged-empty":
				p.SendProtocolChunk(reqID, 0, nil)
			}
		case desync.CaProtocolGoodbye:
			return
		default:
			return
		}
	}
}
