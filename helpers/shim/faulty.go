package main

// A disk-backed SFTP request server that can inject faults, selected with SHIM_SFTP_FAULT:
//
//	close@k   the k-th close of a file opened for writing fails after losing half of the data (quota / NFS style)
//	write@k   the k-th write request fails
//	die@k     the server process exits in the middle of the k-th write request
//	list@k    the k-th directory listing is refused (permission denied)
//	stat@k    every stat request from the k-th on fails (general failure)
//
// Every delivered fault appends a line to SHIM_SFTP_FAULT_LOG.

import (
	"errors"
	"fmt"
	"io"
	"os"
	"strings"
	"sync/atomic"

	"github.com/pkg/sftp"
)

type faultyFS struct {
	kind   string
	k      int64
	closes int64
	writes int64
	lists  int64
	stats  int64
	log    string
}

func (h *faultyFS) delivered(what string) {
	if h.log == "" {
		return
	}
	f, err := os.OpenFile(h.log, os.O_APPEND|os.O_CREATE|os.O_WRONLY, 0644)
	if err == nil {
		fmt.Fprintln(f, what)
		f.Close()
	}
}

func (h *faultyFS) Fileread(r *sftp.Request) (io.ReaderAt, error) { return os.Open(r.Filepath) }

type faultyFile struct {
	f *os.File
	h *faultyFS
}

func (w *faultyFile) WriteAt(p []byte, off int64) (int, error) {
	if w.h.kind == "die" && atomic.LoadInt64(&w.h.writes)+1 == w.h.k {
		// the connection goes away in the middle of an upload: half of this write reaches the file, then nothing more
		w.f.WriteAt(p[:len(p)/2], off)
		w.h.delivered(fmt.Sprintf("die-on-write#%d %s", w.h.k, w.f.Name()))
		os.Exit(0)
	}
	if n := atomic.AddInt64(&w.h.writes, 1); w.h.kind == "write" && n == w.h.k {
		w.h.delivered(fmt.Sprintf("write#%d %s", n, w.f.Name()))
		return 0, errors.New("injected write failure")
	}
	return w.f.WriteAt(p, off)
}

func (w *faultyFile) Close() error {
	if n := atomic.AddInt64(&w.h.closes, 1); w.h.kind == "close" && n == w.h.k {
		if st, err := w.f.Stat(); err == nil {
			w.f.Truncate(st.Size() / 2)
		}
		w.f.Close()
		w.h.delivered(fmt.Sprintf("close#%d %s", n, w.f.Name()))
		return errors.New("disk quota exceeded")
	}
	return w.f.Close()
}

func (h *faultyFS) Filewrite(r *sftp.Request) (io.WriterAt, error) {
	fl := r.Pflags()
	flags := os.O_WRONLY
	if fl.Creat {
		flags |= os.O_CREATE
	}
	if fl.Trunc {
		flags |= os.O_TRUNC
	}
	if fl.Excl {
		flags |= os.O_EXCL
	}
	if fl.Append {
		flags |= os.O_APPEND
	}
	f, err := os.OpenFile(r.Filepath, flags, 0644)
	if err != nil {
		return nil, err
	}
	return &faultyFile{f: f, h: h}, nil
}

func (h *faultyFS) Filecmd(r *sftp.Request) error {
	switch r.Method {
	case "Setstat":
		return nil
	case "Rename", "PosixRename":
		return os.Rename(r.Filepath, r.Target)
	case "Rmdir", "Remove":
		return os.Remove(r.Filepath)
	case "Mkdir":
		return os.Mkdir(r.Filepath, 0755)
	case "Symlink":
		return os.Symlink(r.Filepath, r.Target)
	case "Link":
		return os.Link(r.Filepath, r.Target)
	}
	return sftp.ErrSSHFxOpUnsupported
}

type listAt []os.FileInfo

func (l listAt) ListAt(out []os.FileInfo, off int64) (int, error) {
	if off >= int64(len(l)) {
		return 0, io.EOF
	}
	n := copy(out, l[off:])
	if n < len(out) {
		return n, io.EOF
	}
	return n, nil
}

func (h *faultyFS) Filelist(r *sftp.Request) (sftp.ListerAt, error) {
	switch r.Method {
	case "List":
		if n := atomic.AddInt64(&h.lists, 1); h.kind == "list" && n == h.k {
			h.delivered(fmt.Sprintf("list#%d %s", n, r.Filepath))
			return nil, sftp.ErrSSHFxPermissionDenied
		}
		es, err := os.ReadDir(r.Filepath)
		if err != nil {
			return nil, err
		}
		var out listAt
		for _, e := range es {
			if fi, err := e.Info(); err == nil {
				out = append(out, fi)
			}
		}
		return out, nil
	case "Stat":
		if n := atomic.AddInt64(&h.stats, 1); h.kind == "stat" && n >= h.k {
			h.delivered(fmt.Sprintf("stat#%d %s", n, r.Filepath))
			return nil, sftp.ErrSSHFxFailure
		}
		fi, err := os.Stat(r.Filepath)
		if err != nil {
			return nil, err
		}
		return listAt{fi}, nil
	case "Lstat":
		fi, err := os.Lstat(r.Filepath)
		if err != nil {
			return nil, err
		}
		return listAt{fi}, nil
	}
	return nil, sftp.ErrSSHFxOpUnsupported
}

func serveFaulty(spec string) {
	h := &faultyFS{log: os.Getenv("SHIM_SFTP_FAULT_LOG")}
	if at := strings.SplitN(spec, "@", 2); len(at) == 2 {
		h.kind = at[0]
		fmt.Sscan(at[1], &h.k)
	}
	srv := sftp.NewRequestServer(stdio{}, sftp.Handlers{FileGet: h, FilePut: h, FileCmd: h, FileList: h})
	if err := srv.Serve(); err != nil && err != io.EOF {
		os.Exit(1)
	}
}
