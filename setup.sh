#!/bin/bash
# MANIFEST.setup_cmd: offline build of every worker (warms the build cache).
export GOFLAGS=-mod=mod GOPROXY=off GOSUMDB=off GOTOOLCHAIN=local
cd /verif || exit 1
mkdir -p .bin evidence
cp /repo/go.sum go.sum.repo; cat /repo/go.sum go.sum.extra 2>/dev/null | sort -u > go.sum
rc=0
for d in workers/*/; do
  id=$(basename "$d")
  race=""
  case "$id" in c01|c02|c06|c07|c09|c10|c11|c12|c17) race="-race";; esac
  go build -tags verif $race -o ".bin/$id" "./$d" || rc=1
done
(cd /repo && go build -tags verif -o /verif/.bin/desync-verif ./cmd/desync) || rc=1
# warm the cache for the builds the checks make themselves: libzstd (cgo) build of the CLI, cgo helper, shim
(cd /repo && go build -tags "verif datadog" -o /verif/.bin/desync-datadog ./cmd/desync) || rc=1
go build -o .bin/zstdcheck ./helpers/zstdcheck || rc=1
go build -tags verif -o .bin/shim ./helpers/shim || rc=1
(cd /repo && go build -o /verif/.bin/desync-plain ./cmd/desync) || rc=1
exit $rc
