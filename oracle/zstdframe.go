package oracle

import (
	"encoding/binary"
	"errors"
	"fmt"
)

// WalkZstdFrame checks that b is exactly one standard zstd frame (RFC 8878): magic, frame header,
// blocks up to the one flagged last, optional content checksum, and nothing after it. It does not
// decompress. Returns the declared content size (-1 when the header carries none).
func WalkZstdFrame(b []byte) (int64, error) {
	if len(b) < 4 || binary.LittleEndian.Uint32(b) != 0xFD2FB528 {
		return 0, errors.New("no zstd magic")
	}
	p := 4
	if p >= len(b) {
		return 0, errors.New("truncated frame header")
	}
	fhd := b[p]
	p++
	fcsFlag := fhd >> 6
	single := fhd&0x20 != 0
	if fhd&0x08 != 0 {
		return 0, errors.New("reserved bit set in frame header descriptor")
	}
	checksum := fhd&0x04 != 0
	dictFlag := fhd & 0x03
	if !single {
		p++ // window descriptor
	}
	p += []int{0, 1, 2, 4}[dictFlag]
	fcsLen := []int{0, 2, 4, 8}[fcsFlag]
	if fcsFlag == 0 && single {
		fcsLen = 1
	}
	if p+fcsLen > len(b) {
		return 0, errors.New("truncated frame header")
	}
	content := int64(-1)
	switch fcsLen {
	case 1:
		content = int64(b[p])
	case 2:
		content = int64(binary.LittleEndian.Uint16(b[p:])) + 256
	case 4:
		content = int64(binary.LittleEndian.Uint32(b[p:]))
	case 8:
		content = int64(binary.LittleEndian.Uint64(b[p:]))
	}
	p += fcsLen
	for {
		if p+3 > len(b) {
			return 0, errors.New("truncated block header")
		}
		h := uint32(b[p]) | uint32(b[p+1])<<8 | uint32(b[p+2])<<16
		p += 3
		last := h&1 != 0
		typ := (h >> 1) & 3
		size := int(h >> 3)
		switch typ {
		case 0, 2:
			p += size
		case 1:
			p++
		default:
			return 0, errors.New("reserved block type")
		}
		if p > len(b) {
			return 0, errors.New("truncated block")
		}
		if last {
			break
		}
	}
	if checksum {
		p += 4
	}
	if p > len(b) {
		return 0, errors.New("truncated checksum")
	}
	if p != len(b) {
		return 0, fmt.Errorf("%d bytes after the end of the frame", len(b)-p)
	}
	return content, nil
}
