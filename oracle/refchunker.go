// Package oracle holds independent reference implementations used as oracles:
// none of this code calls into desync.
package oracle

import "math/bits"

// buzTable is casync's buzhash table (frozen copy, anchored at run time against
// the casync-produced testdata/chunker.index).
var buzTable = [256]uint32{
	0x458be752, 0xc10748cc, 0xfbbcdbb8, 0x6ded5b68,
	0xb10a82b5, 0x20d75648, 0xdfc5665f, 0xa8428801,
	0x7ebf5191, 0x841135c7, 0x65cc53b3, 0x280a597c,
	0x16f60255, 0xc78cbc3e, 0x294415f5, 0xb938d494,
	0xec85c4e6, 0xb7d33edc, 0xe549b544, 0xfdeda5aa,
	0x882bf287, 0x3116737c, 0x05569956, 0xe8cc1f68,
	0x0806ac5e, 0x22a14443, 0x15297e10, 0x50d090e7,
	0x4ba60f6f, 0xefd9f1a7, 0x5c5c885c, 0x82482f93,
	0x9bfd7c64, 0x0b3e7276, 0xf2688e77, 0x8fad8abc,
	0xb0509568, 0xf1ada29f, 0xa53efdfe, 0xcb2b1d00,
	0xf2a9e986, 0x6463432b, 0x95094051, 0x5a223ad2,
	0x9be8401b, 0x61e579cb, 0x1a556a14, 0x5840fdc2,
	0x9261ddf6, 0xcde002bb, 0x52432bb0, 0xbf17373e,
	0x7b7c222f, 0x2955ed16, 0x9f10ca59, 0xe840c4c9,
	0xccabd806, 0x14543f34, 0x1462417a, 0x0d4a1f9c,
	0x087ed925, 0xd7f8f24c, 0x7338c425, 0xcf86c8f5,
	0xb19165cd, 0x9891c393, 0x325384ac, 0x0308459d,
	0x86141d7e, 0xc922116a, 0xe2ffa6b6, 0x53f52aed,
	0x2cd86197, 0xf5b9f498, 0xbf319c8f, 0xe0411fae,
	0x977eb18c, 0xd8770976, 0x9833466a, 0xc674df7f,
	0x8c297d45, 0x8ca48d26, 0xc49ed8e2, 0x7344f874,
	0x556f79c7, 0x6b25eaed, 0xa03e2b42, 0xf68f66a4,
	0x8e8b09a2, 0xf2e0e62a, 0x0d3a9806, 0x9729e493,
	0x8c72b0fc, 0x160b94f6, 0x450e4d3d, 0x7a320e85,
	0xbef8f0e1, 0x21d73653, 0x4e3d977a, 0x1e7b3929,
	0x1cc6c719, 0xbe478d53, 0x8d752809, 0xe6d8c2c6,
	0x275f0892, 0xc8acc273, 0x4cc21580, 0xecc4a617,
	0xf5f7be70, 0xe795248a, 0x375a2fe9, 0x425570b6,
	0x8898dcf8, 0xdc2d97c4, 0x0106114b, 0x364dc22f,
	0x1e0cad1f, 0xbe63803c, 0x5f69fac2, 0x4d5afa6f,
	0x1bc0dfb5, 0xfb273589, 0x0ea47f7b, 0x3c1c2b50,
	0x21b2a932, 0x6b1223fd, 0x2fe706a8, 0xf9bd6ce2,
	0xa268e64e, 0xe987f486, 0x3eacf563, 0x1ca2018c,
	0x65e18228, 0x2207360a, 0x57cf1715, 0x34c37d2b,
	0x1f8f3cde, 0x93b657cf, 0x31a019fd, 0xe69eb729,
	0x8bca7b9b, 0x4c9d5bed, 0x277ebeaf, 0xe0d8f8ae,
	0xd150821c, 0x31381871, 0xafc3f1b0, 0x927db328,
	0xe95effac, 0x305a47bd, 0x426ba35b, 0x1233af3f,
	0x686a5b83, 0x50e072e5, 0xd9d3bb2a, 0x8befc475,
	0x487f0de6, 0xc88dff89, 0xbd664d5e, 0x971b5d18,
	0x63b14847, 0xd7d3c1ce, 0x7f583cf3, 0x72cbcb09,
	0xc0d0a81c, 0x7fa3429b, 0xe9158a1b, 0x225ea19a,
	0xd8ca9ea3, 0xc763b282, 0xbb0c6341, 0x020b8293,
	0xd4cd299d, 0x58cfa7f8, 0x91b4ee53, 0x37e4d140,
	0x95ec764c, 0x30f76b06, 0x5ee68d24, 0x679c8661,
	0xa41979c2, 0xf2b61284, 0x4fac1475, 0x0adb49f9,
	0x19727a23, 0x15a7e374, 0xc43a18d5, 0x3fb1aa73,
	0x342fc615, 0x924c0793, 0xbee2d7f0, 0x8a279de9,
	0x4aa2d70c, 0xe24dd37f, 0xbe862c0b, 0x177c22c2,
	0x5388e5ee, 0xcd8a7510, 0xf901b4fd, 0xdbc13dbc,
	0x6c0bae5b, 0x64efe8c7, 0x48b02079, 0x80331a49,
	0xca3d8ae6, 0xf3546190, 0xfed7108b, 0xc49b941b,
	0x32baf4a9, 0xeb833a4a, 0x88a3f1a5, 0x3a91ce0a,
	0x3cc27da1, 0x7112e684, 0x4a3096b1, 0x3794574c,
	0xa3c8b6f3, 0x1d213941, 0x6e0a2e00, 0x233479f1,
	0x0f4cd82f, 0x6093edd2, 0x5d7d209e, 0x464fe319,
	0xd4dcac9e, 0x0db845cb, 0xfb5e4bc3, 0xe0256ce1,
	0x09fb4ed1, 0x0914be1e, 0xa5bdb2c3, 0xc6eb57bb,
	0x30320350, 0x3f397e91, 0xa67791bc, 0x86bc0e2c,
	0xefa0a7e2, 0xe9ff7543, 0xe733612c, 0xd185897b,
	0x329e5388, 0x91dd236b, 0x2ecb0d93, 0xf4d82a3d,
	0x35b5c03f, 0xe4e606f0, 0x05b21843, 0x37b45964,
	0x5eff22f4, 0x6027f4cc, 0x77178b3c, 0xae507131,
	0x7bf7cabc, 0xf9c18d66, 0x593ade65, 0xd95ddf11,
}

const window = 48

// Discriminator derives the cut discriminator from the average chunk size (casync's formula).
func Discriminator(avg uint64) uint32 {
	return uint32(float64(avg) / (-1.42888852e-7*float64(avg) + 1.33237515))
}

//go:norace
func windowHash(w []byte) uint32 {
	var h uint32
	for i, b := range w {
		h ^= bits.RotateLeft32(buzTable[b], window-1-i)
	}
	return h
}

// RefChunks returns the chunk sizes of data under the direct (non-rolling)
// definition of casync's chunking rule: the cut is at the smallest size s in
// [min+1, max] for which the hash of the 48 bytes ending at s, modulo the
// discriminator, equals discriminator-1; else at max; the remainder (<= min
// bytes, or no cut found before the end) is the last chunk.
//
//go:norace
func RefChunks(data []byte, min, avg, max uint64) []uint64 {
	d := Discriminator(avg)
	var out []uint64
	p := uint64(0)
	n := uint64(len(data))
	for p < n {
		rem := n - p
		if rem <= min {
			out = append(out, rem)
			break
		}
		m := max
		if rem < m {
			m = rem
		}
		cut := m
		for s := min + 1; s < m; s++ {
			if windowHash(data[p+s-window:p+s])%d == d-1 {
				cut = s
				break
			}
		}
		out = append(out, cut)
		p += cut
	}
	return out
}

// RefChunksFast is the same rule with a rolling hash; used for large inputs
// after being cross-checked against RefChunks by the worker on small ones.
//
//go:norace
func RefChunksFast(data []byte, min, avg, max uint64) []uint64 {
	d := Discriminator(avg)
	var out []uint64
	p := uint64(0)
	n := uint64(len(data))
	for p < n {
		rem := n - p
		if rem <= min {
			out = append(out, rem)
			break
		}
		m := max
		if rem < m {
			m = rem
		}
		cut := m
		h := windowHash(data[p+min+1-window : p+min+1])
		for s := min + 1; s < m; s++ {
			if h%d == d-1 {
				cut = s
				break
			}
			// slide to the window ending at s+1
			out8 := data[p+s-window]
			in8 := data[p+s]
			h = bits.RotateLeft32(h, 1) ^ bits.RotateLeft32(buzTable[out8], window) ^ buzTable[in8]
		}
		out = append(out, cut)
		p += cut
	}
	return out
}

// FindWindow returns 48 bytes whose window hash h satisfies h % d == d-1 (a cut point for discriminator d) but neither
// h % (d-1) == d-2 nor h % (d+1) == d: a chunker whose discriminator is off by one does not cut there. seed drives the search.
//
//go:norace
func FindWindow(d uint32, seed uint64) []byte {
	w := make([]byte, window)
	x := seed | 1
	for try := 0; try < 200000000; try++ {
		for i := range w {
			x ^= x << 13
			x ^= x >> 7
			x ^= x << 17
			w[i] = byte(x >> 32)
		}
		h := windowHash(w)
		if h%d == d-1 && (d < 3 || (h%(d-1) != d-2 && h%(d+1) != d)) {
			return w
		}
	}
	return nil
}

// ConstWindowHash is the window hash of 48 bytes of value b (what a long run of that byte produces at every position).
//
//go:norace
func ConstWindowHash(b byte) uint32 {
	w := make([]byte, window)
	for i := range w {
		w[i] = b
	}
	return windowHash(w)
}

// AvgsCuttingConstRun returns the avg values (up to limit) whose discriminator d makes a run of byte b a cut point at
// every position, i.e. d divides ConstWindowHash(b)+1: for these avg a long run of b is NOT chunked at max but every
// min+1 bytes - the opposite of what "runs of one byte have no boundaries" suggests.
//
//go:norace
func AvgsCuttingConstRun(b byte, limit uint64) []uint64 {
	n := uint64(ConstWindowHash(b)) + 1
	var divs []uint64
	for d := uint64(2); d*d <= n; d++ {
		if n%d == 0 {
			divs = append(divs, d, n/d)
		}
	}
	var out []uint64
	for _, d := range divs {
		// Discriminator is increasing in avg over the range used here: binary search the smallest avg reaching d
		lo, hi := uint64(1), limit
		for lo < hi {
			mid := (lo + hi) / 2
			if uint64(Discriminator(mid)) < d {
				lo = mid + 1
			} else {
				hi = mid
			}
		}
		if lo < limit && uint64(Discriminator(lo)) == d {
			out = append(out, lo)
		}
	}
	return out
}
