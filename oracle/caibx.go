package oracle

import (
	"encoding/binary"
	"errors"
	"fmt"
)

// Independent caibx/caidx codec written from the format description.

const (
	idxMagic   = 0x96824d9c7b129ff9
	tblMagic   = 0xe75b9e112f17417d
	tailMarker = 0x4b4f050e5549ecd1
	// FlagSHA512256 is the feature flag marking SHA512/256 chunk ids.
	FlagSHA512256 = 0x2000000000000000
)

type CaibxItem struct {
	End uint64 // cumulative end offset
	ID  [32]byte
}

type Caibx struct {
	Flags, Min, Avg, Max uint64
	Items                []CaibxItem
}

// ParseCaibx strictly parses an index file; any deviation from the layout is an error.
func ParseCaibx(b []byte) (*Caibx, error) {
	u := func(off int) uint64 { return binary.LittleEndian.Uint64(b[off : off+8]) }
	if len(b) < 48+16+40 {
		return nil, errors.New("too short")
	}
	if u(0) != 48 || u(8) != idxMagic {
		return nil, errors.New("bad index header")
	}
	c := &Caibx{Flags: u(16), Min: u(24), Avg: u(32), Max: u(40)}
	if u(48) != ^uint64(0) || u(56) != tblMagic {
		return nil, errors.New("bad table header")
	}
	off := 64
	var last uint64
	for {
		if off+8 > len(b) {
			return nil, errors.New("truncated table")
		}
		e := u(off)
		if e == 0 {
			break
		}
		if off+40 > len(b) {
			return nil, errors.New("truncated item")
		}
		var it CaibxItem
		it.End = e
		copy(it.ID[:], b[off+8:off+40])
		if e < last { // equal offsets describe an empty chunk, which the format can carry anywhere but in first place
			return nil, fmt.Errorf("offsets decreasing at item %d", len(c.Items))
		}
		if e-last > c.Max {
			return nil, fmt.Errorf("chunk %d larger than max", len(c.Items))
		}
		last = e
		c.Items = append(c.Items, it)
		off += 40
	}
	// tail: 0, 0, 48, table size, marker
	if off+40 != len(b) {
		return nil, fmt.Errorf("tail: %d bytes after the zero offset, want 40", len(b)-off)
	}
	if u(off) != 0 || u(off+8) != 0 {
		return nil, errors.New("tail zero fill")
	}
	if u(off+16) != 48 {
		return nil, fmt.Errorf("tail index offset %d, want 48", u(off+16))
	}
	wantSize := uint64(16 + 40*len(c.Items) + 40)
	if u(off+24) != wantSize {
		return nil, fmt.Errorf("tail table size %d, want %d", u(off+24), wantSize)
	}
	if u(off+32) != tailMarker {
		return nil, errors.New("tail marker")
	}
	return c, nil
}

// Encode writes the index in the canonical layout.
func (c *Caibx) Encode() []byte {
	b := make([]byte, 0, 48+16+40*len(c.Items)+40)
	p := func(v uint64) { b = binary.LittleEndian.AppendUint64(b, v) }
	p(48)
	p(idxMagic)
	p(c.Flags)
	p(c.Min)
	p(c.Avg)
	p(c.Max)
	p(^uint64(0))
	p(tblMagic)
	for _, it := range c.Items {
		p(it.End)
		b = append(b, it.ID[:]...)
	}
	p(0)
	p(0)
	p(48)
	p(uint64(16 + 40*len(c.Items) + 40))
	p(tailMarker)
	return b
}
