package oracle

import (
	"bytes"
	"crypto/sha256"
	"encoding/binary"
	"fmt"
	"math/bits"
	"sort"
)

// Independent strict validator for casync catar archives (no desync code).

const (
	caEntry    = 0x1396fabcea5bbb51
	caXAttr    = 0xb8157091f80bc486
	caSymlink  = 0x664a6fb6830e0d6c
	caDevice   = 0xac3dace369dfe643
	caPayload  = 0x8b9e1d93d6dcffc9
	caFilename = 0x6dbb6ebcb3161f0b
	caGoodbye  = 0xdfd35c5e8327c403
	caGoodbyeT = 0x57446fa533702943
	sipK0      = 0x8574442b0f1d84b3
	sipK1      = 0x2736ed30d1c22ec1
)

// SipHash24 is SipHash-2-4 with casync's goodbye key.
func SipHash24(b []byte) uint64 {
	v0 := uint64(sipK0) ^ 0x736f6d6570736575
	v1 := uint64(sipK1) ^ 0x646f72616e646f6d
	v2 := uint64(sipK0) ^ 0x6c7967656e657261
	v3 := uint64(sipK1) ^ 0x7465646279746573
	round := func() {
		v0 += v1
		v1 = bits.RotateLeft64(v1, 13)
		v1 ^= v0
		v0 = bits.RotateLeft64(v0, 32)
		v2 += v3
		v3 = bits.RotateLeft64(v3, 16)
		v3 ^= v2
		v0 += v3
		v3 = bits.RotateLeft64(v3, 21)
		v3 ^= v0
		v2 += v1
		v1 = bits.RotateLeft64(v1, 17)
		v1 ^= v2
		v2 = bits.RotateLeft64(v2, 32)
	}
	n := len(b)
	for len(b) >= 8 {
		m := binary.LittleEndian.Uint64(b)
		v3 ^= m
		round()
		round()
		v0 ^= m
		b = b[8:]
	}
	var last [8]byte
	copy(last[:], b)
	m := binary.LittleEndian.Uint64(last[:]) | uint64(n)<<56
	v3 ^= m
	round()
	round()
	v0 ^= m
	v2 ^= 0xff
	round()
	round()
	round()
	round()
	return v0 ^ v1 ^ v2 ^ v3
}

// CatarEntry is one reconstructed tree entry.
type CatarEntry struct {
	Path   string // "." for the root
	Mode   uint64 // st_mode bits as stored
	UID    uint64
	GID    uint64
	MTime  uint64 // nanoseconds
	Flags  uint64 // feature flags of the entry
	Xattrs map[string]string
	Target string // symlink
	Major  uint64
	Minor  uint64
	Size   uint64
	SHA256 [32]byte // of the payload
}

const (
	sIFMT  = 0170000
	sIFDIR = 0040000
	sIFREG = 0100000
	sIFLNK = 0120000
	sIFBLK = 0060000
	sIFCHR = 0020000
)

type catarParser struct {
	b       []byte
	pos     int
	out     []CatarEntry
	sorted  bool // require strictly increasing child names
	xattrTZ bool
}

func (p *catarParser) hdr() (size, typ uint64, err error) {
	if p.pos+16 > len(p.b) {
		return 0, 0, fmt.Errorf("offset %d: truncated element header", p.pos)
	}
	return binary.LittleEndian.Uint64(p.b[p.pos:]), binary.LittleEndian.Uint64(p.b[p.pos+8:]), nil
}

func (p *catarParser) u(off int) uint64 { return binary.LittleEndian.Uint64(p.b[off:]) }

// ValidateCatar strictly checks the archive and returns the reconstructed entries in archive order.
// sortedNames demands strictly increasing child names (archives packed from disk).
func ValidateCatar(b []byte, sortedNames bool) ([]CatarEntry, error) {
	p := &catarParser{b: b, sorted: sortedNames}
	if err := p.node("."); err != nil {
		return p.out, err
	}
	if p.pos != len(b) {
		return p.out, fmt.Errorf("offset %d: %d trailing bytes after the root node", p.pos, len(b)-p.pos)
	}
	return p.out, nil
}

func (p *catarParser) node(path string) error {
	start := p.pos
	size, typ, err := p.hdr()
	if err != nil {
		return err
	}
	if typ != caEntry {
		return fmt.Errorf("offset %d (%s): expected ENTRY, found element type %x", p.pos, path, typ)
	}
	if size != 64 || p.pos+64 > len(p.b) {
		return fmt.Errorf("offset %d (%s): ENTRY with size %d", p.pos, path, size)
	}
	e := CatarEntry{Path: path, Flags: p.u(p.pos + 16), Mode: p.u(p.pos + 24), UID: p.u(p.pos + 40), GID: p.u(p.pos + 48), MTime: p.u(p.pos + 56)}
	p.pos += 64
	// optional USER and GROUP names (casync writes them with the user-names feature; desync never does)
	for _, t := range []uint64{0xf453131aaeeaccb3, 0x25eb6ac969396a52} {
		size, typ, err = p.hdr()
		if err != nil {
			return err
		}
		if typ == t {
			if size < 17 || size > 16+256 || uint64(p.pos)+size > uint64(len(p.b)) || p.b[p.pos+int(size)-1] != 0 {
				return fmt.Errorf("offset %d (%s): USER/GROUP element with size %d / not NUL terminated", p.pos, path, size)
			}
			p.pos += int(size)
		}
	}
	// xattrs, sorted by name
	lastName := ""
	for {
		size, typ, err = p.hdr()
		if err != nil {
			return err
		}
		if typ != caXAttr {
			break
		}
		if size < 16+2 || p.pos+int(size) > len(p.b) || size > 1<<30 {
			return fmt.Errorf("offset %d (%s): XATTR with size %d", p.pos, path, size)
		}
		body := p.b[p.pos+16 : p.pos+int(size)]
		i := bytes.IndexByte(body, 0)
		if i <= 0 {
			return fmt.Errorf("offset %d (%s): XATTR without a name", p.pos, path)
		}
		name := string(body[:i])
		val := body[i+1:]
		// desync terminates the value with a NUL
		if len(val) == 0 || val[len(val)-1] != 0 {
			return fmt.Errorf("offset %d (%s): XATTR %s value is not NUL terminated", p.pos, path, name)
		}
		val = val[:len(val)-1]
		if lastName != "" && name <= lastName {
			return fmt.Errorf("offset %d (%s): XATTR %q not sorted after %q", p.pos, path, name, lastName)
		}
		lastName = name
		if e.Xattrs == nil {
			e.Xattrs = map[string]string{}
		}
		e.Xattrs[name] = string(val)
		p.pos += int(size)
	}
	// optional ACL / FCAPS / SELINUX elements (never written by desync)
	for typ == 0x297dc88b2ef12faf || typ == 0x36f2acb56cb3dd0b || typ == 0x23047110441f38f3 || typ == 0xfe3eeda6823c8cd0 || typ == 0xbdf03df9bd010a91 || typ == 0xa0cb1168782d1f51 || typ == 0xf7267db0afed0629 || typ == 0x46faf0602fd26c59 {
		if size < 16 || uint64(p.pos)+size > uint64(len(p.b)) {
			return fmt.Errorf("offset %d (%s): metadata element %x with size %d", p.pos, path, typ, size)
		}
		p.pos += int(size)
		size, typ, err = p.hdr()
		if err != nil {
			return err
		}
	}
	switch e.Mode & sIFMT {
	case sIFREG:
		if typ != caPayload {
			return fmt.Errorf("offset %d (%s): regular file entry followed by element %x, not PAYLOAD", p.pos, path, typ)
		}
		if size < 16 || uint64(p.pos)+size > uint64(len(p.b)) {
			return fmt.Errorf("offset %d (%s): PAYLOAD size %d exceeds the archive", p.pos, path, size)
		}
		e.Size = size - 16
		e.SHA256 = sha256.Sum256(p.b[p.pos+16 : p.pos+int(size)])
		p.pos += int(size)
		p.out = append(p.out, e)
	case sIFLNK:
		if typ != caSymlink {
			return fmt.Errorf("offset %d (%s): symlink entry followed by element %x", p.pos, path, typ)
		}
		if size < 17 || uint64(p.pos)+size > uint64(len(p.b)) || p.b[p.pos+int(size)-1] != 0 {
			return fmt.Errorf("offset %d (%s): SYMLINK size %d / not NUL terminated", p.pos, path, size)
		}
		t := p.b[p.pos+16 : p.pos+int(size)-1]
		if bytes.IndexByte(t, 0) >= 0 {
			return fmt.Errorf("offset %d (%s): SYMLINK target contains NUL", p.pos, path)
		}
		e.Target = string(t)
		p.pos += int(size)
		p.out = append(p.out, e)
	case sIFBLK, sIFCHR:
		if typ != caDevice || size != 32 || p.pos+32 > len(p.b) {
			return fmt.Errorf("offset %d (%s): device entry followed by element %x size %d", p.pos, path, typ, size)
		}
		e.Major, e.Minor = p.u(p.pos+16), p.u(p.pos+24)
		p.pos += 32
		p.out = append(p.out, e)
	case sIFDIR:
		p.out = append(p.out, e)
		return p.dir(path, start)
	default:
		return fmt.Errorf("offset %d (%s): entry with unsupported file type in mode %o", start, path, e.Mode)
	}
	return nil
}

type childSpan struct {
	name       string
	start, end int
}

func (p *catarParser) dir(path string, entryStart int) error {
	var kids []childSpan
	for {
		size, typ, err := p.hdr()
		if err != nil {
			return err
		}
		if typ == caGoodbye {
			return p.goodbye(path, entryStart, kids, size)
		}
		if typ != caFilename {
			return fmt.Errorf("offset %d (%s): expected FILENAME or GOODBYE in a directory, found %x", p.pos, path, typ)
		}
		if size < 18 || uint64(p.pos)+size > uint64(len(p.b)) || p.b[p.pos+int(size)-1] != 0 {
			return fmt.Errorf("offset %d (%s): FILENAME size %d / not NUL terminated / empty", p.pos, path, size)
		}
		name := p.b[p.pos+16 : p.pos+int(size)-1]
		if bytes.IndexByte(name, 0) >= 0 || bytes.IndexByte(name, '/') >= 0 || string(name) == "." || string(name) == ".." {
			return fmt.Errorf("offset %d (%s): invalid FILENAME %q", p.pos, path, name)
		}
		if len(kids) > 0 && p.sorted && string(name) <= kids[len(kids)-1].name {
			return fmt.Errorf("offset %d (%s): child %q not sorted after %q", p.pos, path, name, kids[len(kids)-1].name)
		}
		ks := childSpan{name: string(name), start: p.pos}
		p.pos += int(size)
		// a FILENAME must be followed by an ENTRY
		cp := string(name)
		if path != "." {
			cp = path + "/" + string(name)
		}
		if err := p.node(cp); err != nil {
			return err
		}
		ks.end = p.pos
		kids = append(kids, ks)
	}
}

func (p *catarParser) goodbye(path string, entryStart int, kids []childSpan, size uint64) error {
	gstart := p.pos
	want := uint64(16 + 24*(len(kids)+1))
	if size != want {
		return fmt.Errorf("offset %d (%s): GOODBYE size %d, expected %d for %d children", gstart, path, size, want, len(kids))
	}
	if gstart+int(size) > len(p.b) {
		return fmt.Errorf("offset %d (%s): GOODBYE truncated", gstart, path)
	}
	type item struct{ off, size, hash uint64 }
	items := make([]item, len(kids)+1)
	for i := range items {
		o := gstart + 16 + 24*i
		items[i] = item{p.u(o), p.u(o + 8), p.u(o + 16)}
	}
	tail := items[len(kids)]
	if tail.hash != caGoodbyeT {
		return fmt.Errorf("offset %d (%s): goodbye tail marker missing", gstart, path)
	}
	if tail.off != uint64(gstart-entryStart) {
		return fmt.Errorf("offset %d (%s): goodbye tail offset %d, but the ENTRY is %d bytes before the GOODBYE", gstart, path, tail.off, gstart-entryStart)
	}
	if tail.size != size {
		return fmt.Errorf("offset %d (%s): goodbye tail size %d, element size %d", gstart, path, tail.size, size)
	}
	// every child referenced exactly once with correct offset, size and hash
	type key struct{ off, size, hash uint64 }
	wantSet := map[key]int{}
	for _, k := range kids {
		wantSet[key{uint64(gstart - k.start), uint64(k.end - k.start), SipHash24([]byte(k.name))}]++
	}
	for i, it := range items[:len(kids)] {
		k := key{it.off, it.size, it.hash}
		if wantSet[k] == 0 {
			return fmt.Errorf("offset %d (%s): goodbye item %d (offset %d size %d hash %x) matches no child", gstart, path, i, it.off, it.size, it.hash)
		}
		wantSet[k]--
	}
	// the array is a binary search tree (2i+1, 2i+2) over the hashes: in-order walk is non-decreasing
	n := len(kids)
	var order []uint64
	var walk func(i int)
	walk = func(i int) {
		if i >= n {
			return
		}
		walk(2*i + 1)
		order = append(order, items[i].hash)
		walk(2*i + 2)
	}
	walk(0)
	if !sort.SliceIsSorted(order, func(a, b int) bool { return order[a] < order[b] }) {
		return fmt.Errorf("offset %d (%s): goodbye table (%d items) is not a binary search tree over the name hashes", gstart, path, n)
	}
	// casync's lookup must find every child
	for _, k := range kids {
		h := SipHash24([]byte(k.name))
		i := 0
		found := false
		for i < n {
			if items[i].hash == h {
				found = true
				break
			}
			if h < items[i].hash {
				i = 2*i + 1
			} else {
				i = 2*i + 2
			}
		}
		if !found {
			return fmt.Errorf("offset %d (%s): binary search for child %q does not find it", gstart, path, k.name)
		}
	}
	p.pos += int(size)
	return nil
}
