package harness

import "github.com/anishathalye/porcupine"

// PorcupineVersion pins the import so go.sum carries the module.
var _ = porcupine.Ok
