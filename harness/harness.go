// Package harness is the shared driver of all property checks: it splits a
// PRNG-determined case list into batches, runs each batch in a child process
// (a panic or fatal error in desync code kills the whole process, so the case
// id is logged before the case starts and a crash is attributed to the last
// started case), collects the per-case records, scans race-detector logs,
// matches violations against the committed known-findings file, writes the
// evidence file and prints the verdict.
package harness

import (
	"bufio"
	"bytes"
	"encoding/json"
	"fmt"
	"math/rand"
	"os"
	"os/exec"
	"path/filepath"
	"regexp"
	"runtime"
	"sort"
	"strconv"
	"strings"
	"sync"
	"sync/atomic"
	"syscall"
	"time"
)

// VerifDir is the root of the verification tree (evidence, replays, scratch work). VERIF_DIR overrides it so that
// a background run in a snapshot does not write into /verif.
var VerifDir = func() string {
	if d := os.Getenv("VERIF_DIR"); d != "" {
		return d
	}
	return "/verif"
}()

// RepoDir is the tree of the code under test: /repo, unless VERIF_REPO points at a scratch worktree (used only to run
// seeded changes in parallel without touching /repo; the registered checks never set it).
var RepoDir = func() string {
	if d := os.Getenv("VERIF_REPO"); d != "" {
		return d
	}
	return "/repo"
}()

// goEnv is the environment of the go builds the checks make themselves. VERIF_MODFILE (set by ./check together with
// VERIF_REPO) names an alternative go.mod of the verif module whose replace directive points at RepoDir.
func goEnv(verifModule bool) []string {
	flags := "GOFLAGS=-mod=mod"
	if mf := os.Getenv("VERIF_MODFILE"); mf != "" && verifModule {
		flags += " -modfile=" + mf
	}
	return append(os.Environ(), flags, "GOPROXY=off", "GOSUMDB=off", "GOTOOLCHAIN=local")
}

// Config describes one property check.
type Config struct {
	Prop        string   // property id, e.g. C01
	Level       string   // exploration | fault_enumeration
	Rule        string   // how cases are generated and what makes one non-trivial
	Assumptions []string // trusted base
	// Cases returns the number of cases of the tier.
	Cases func(tier string) int
	// Run executes case i in the child process.
	Run func(c *Ctx, i int)
	// Setup is run once in every child before the first case (may be nil).
	Setup func(c *Ctx)
	// ParentSetup is run once in the parent before children are started (may be nil),
	// e.g. to build the CLI binary. Returned env is added to each child's environment.
	ParentSetup func(tier string, seed int64, work string) (env []string, err error)
	// ParentFinish is run in the parent after all children are done (may be nil) and
	// may add violations / counters (e.g. offline checkers over collected logs).
	ParentFinish func(p *Parent)
	// MinNonTrivial: fewer distinct non-trivial cases is an inconclusive run.
	MinNonTrivial int
	// Parallel children (default: number of CPUs).
	Parallel int
	// BatchSize (default: computed).
	BatchSize int
	// CaseTimeout: generous wall-clock watchdog per *batch* is derived from it
	// (default 300s per case). Its firing is inconclusive, never a violation,
	// unless the goroutine dump shows a logical deadlock.
	CaseTimeout time.Duration
	// DeadlockIsViolation: treat "all goroutines are asleep" / a classified
	// deadlock dump as a violation of the property (C01, C12 ...).
	DeadlockIsViolation bool
	// SpinIsViolation: a case that makes no progress for the whole watchdog period, twice (the second time alone in a
	// fresh process), with a goroutine running or runnable inside desync code, is a violation (class spin): the
	// operation never returns.
	SpinIsViolation bool
	// RaceIsViolation: a data race with desync frames on both sides is a violation.
	RaceIsViolation bool
	// CrashClass maps a crash (stderr of the child) to a finding class.
	CrashClass func(caseInfo string, stderr string) string
}

// Record is what a child writes per case.
type Record struct {
	Case       int               `json:"case"`
	Info       string            `json:"info,omitempty"` // short description of the case (parameters)
	Sigs       []string          `json:"sigs,omitempty"` // non-trivial signatures
	Violations []Violation       `json:"violations,omitempty"`
	Counters   map[string]int64  `json:"counters,omitempty"`
	Sample     json.RawMessage   `json:"sample,omitempty"`
	Sets       map[string]string `json:"sets,omitempty"` // name -> value to be counted distinct in the parent
	Inconcl    string            `json:"inconclusive,omitempty"`
	Skipped    string            `json:"skipped,omitempty"`
}

// Violation is one refuting observation.
type Violation struct {
	Class  string `json:"class"`  // stable class used for known-finding matching
	Detail string `json:"detail"` // witness
	Case   int    `json:"case"`
	Info   string `json:"info,omitempty"`
}

// Ctx is handed to the case runner in the child.
type Ctx struct {
	Prop    string
	Tier    string
	Seed    int64
	Rng     *rand.Rand // per case, derived from (seed, case)
	WorkDir string     // scratch dir of the child, cleaned between cases by the runner if it wants
	Replay  bool
	rec     *Record
	setsMu  sync.Mutex
}

func (c *Ctx) Info(format string, a ...interface{}) { c.rec.Info = fmt.Sprintf(format, a...) }

// Violation records a refuting observation for the current case.
func (c *Ctx) Violation(class, format string, a ...interface{}) {
	c.setsMu.Lock()
	defer c.setsMu.Unlock()
	d := fmt.Sprintf(format, a...)
	if len(d) > 6000 {
		d = d[:6000] + "...[truncated]"
	}
	c.rec.Violations = append(c.rec.Violations, Violation{Class: class, Detail: d, Case: c.rec.Case})
	if c.Replay {
		fmt.Fprintf(os.Stderr, "violation class=%s: %s\n", class, d)
	}
}

// NonTrivial marks the case as having exercised the mechanism, with a signature used for distinct counting.
func (c *Ctx) NonTrivial(format string, a ...interface{}) {
	c.setsMu.Lock()
	defer c.setsMu.Unlock()
	c.rec.Sigs = append(c.rec.Sigs, fmt.Sprintf(format, a...))
}

// Count adds to a named counter reported in the evidence.
func (c *Ctx) Count(name string, n int64) {
	c.setsMu.Lock()
	defer c.setsMu.Unlock()
	if c.rec.Counters == nil {
		c.rec.Counters = map[string]int64{}
	}
	c.rec.Counters[name] += n
}

// Distinct adds a value to a named set whose cardinality is reported in the evidence.
func (c *Ctx) Distinct(set, value string) {
	c.setsMu.Lock()
	defer c.setsMu.Unlock()
	if c.rec.Sets == nil {
		c.rec.Sets = map[string]string{}
	}
	// several values per case: join with \x00
	if old, ok := c.rec.Sets[set]; ok {
		c.rec.Sets[set] = old + "\x00" + value
	} else {
		c.rec.Sets[set] = value
	}
}

// Sample attaches a literal description of the case for the evidence file.
func (c *Ctx) Sample(v interface{}) {
	b, err := json.Marshal(v)
	if err == nil {
		c.rec.Sample = b
	}
}

// Skip marks a case that could not be set up (a helper tool refused the generated input, a helper process did not
// start, the sandbox lacks something): nothing was observed about the code under test. Skipped cases are counted and
// shown; only if they exceed 5% of the case list (or 50 cases, whichever is larger) is the whole run inconclusive.
func (c *Ctx) Skip(format string, a ...interface{}) {
	c.rec.Skipped = fmt.Sprintf(format, a...)
}

// Inconclusive marks the case as not decided.
func (c *Ctx) Inconclusive(format string, a ...interface{}) {
	c.rec.Inconcl = fmt.Sprintf(format, a...)
}

// CaseDir returns a fresh empty scratch directory for the current case.
func (c *Ctx) CaseDir() string {
	d := filepath.Join(c.WorkDir, fmt.Sprintf("case%d", c.rec.Case))
	os.RemoveAll(d)
	if err := os.MkdirAll(d, 0755); err != nil {
		panic(err)
	}
	return d
}

// Parent is the state of the parent process, available to ParentFinish.
type Parent struct {
	Cfg        *Config
	Tier       string
	Seed       int64
	Work       string
	Records    []Record
	Violations []Violation
	Counters   map[string]int64
	Sets       map[string]map[string]struct{}
	Inconcl    []string
	Skipped    []string
	Extra      map[string]interface{}
}

func (p *Parent) AddViolation(class, detail string, caseIdx int, info string) {
	p.Violations = append(p.Violations, Violation{Class: class, Detail: detail, Case: caseIdx, Info: info})
}

func envInt(name string, def int64) int64 {
	if v := os.Getenv(name); v != "" {
		if n, err := strconv.ParseInt(v, 10, 64); err == nil {
			return n
		}
	}
	return def
}

// Main is the entry point of every worker binary.
func Main(cfg *Config) {
	args := os.Args[1:]
	if len(args) > 0 && args[0] == "--child" {
		childMain(cfg, args[1:])
		return
	}
	tier := os.Getenv("VERIF_TIER")
	replay := ""
	for i := 0; i < len(args); i++ {
		switch args[i] {
		case "quick", "thorough":
			tier = args[i]
		case "--replay":
			if i+1 < len(args) {
				replay = args[i+1]
				i++
			}
		}
	}
	if tier == "" {
		tier = "quick"
	}
	seed := envInt("VERIF_SEED", 1)
	os.Exit(parentMain(cfg, tier, seed, replay))
}

type replayFile struct {
	Prop      string    `json:"property"`
	Tier      string    `json:"tier"`
	Seed      int64     `json:"seed"`
	Case      int       `json:"case"`
	Info      string    `json:"info"`
	Violation Violation `json:"violation"`
	Stderr    string    `json:"stderr,omitempty"`
	Cmd       string    `json:"replay_cmd"`
}

func parentMain(cfg *Config, tier string, seed int64, replay string) int {
	start := time.Now()
	if cfg.Parallel == 0 {
		cfg.Parallel = runtime.NumCPU()
	}
	if cfg.CaseTimeout == 0 {
		cfg.CaseTimeout = 120 * time.Second
	}
	work := filepath.Join(VerifDir, ".work", fmt.Sprintf("%s-%d", cfg.Prop, os.Getpid()))
	os.RemoveAll(work)
	if err := os.MkdirAll(work, 0755); err != nil {
		fmt.Fprintln(os.Stderr, err)
		return 2
	}
	keepWork := false
	defer func() {
		unmountUnder(work) // a child that died while a case had a filesystem mounted in its scratch directory
		if !keepWork {
			os.RemoveAll(work)
		}
	}()

	var extraEnv []string
	if cfg.ParentSetup != nil {
		env, err := cfg.ParentSetup(tier, seed, work)
		if err != nil {
			fmt.Fprintf(os.Stderr, "INCONCLUSIVE property=%s setup failed: %v\n", cfg.Prop, err)
			return 2
		}
		extraEnv = env
	}

	type batch struct{ from, to int }
	var batches []batch
	n := cfg.Cases(tier)
	if replay != "" {
		var rf replayFile
		b, err := os.ReadFile(replay)
		if err != nil || json.Unmarshal(b, &rf) != nil {
			fmt.Fprintf(os.Stderr, "cannot read replay file %s\n", replay)
			return 2
		}
		tier, seed = rf.Tier, rf.Seed
		batches = []batch{{rf.Case, rf.Case + 1}}
		fmt.Printf("replaying %s case %d (tier %s seed %d): %s\n", rf.Prop, rf.Case, tier, seed, rf.Info)
	} else {
		bs := cfg.BatchSize
		if bs == 0 {
			bs = n / (cfg.Parallel * 4)
			if bs < 1 {
				bs = 1
			}
		}
		for a := 0; a < n; a += bs {
			b := a + bs
			if b > n {
				b = n
			}
			batches = append(batches, batch{a, b})
		}
	}

	p := &Parent{Cfg: cfg, Tier: tier, Seed: seed, Work: work, Counters: map[string]int64{}, Sets: map[string]map[string]struct{}{}, Extra: map[string]interface{}{}}
	var mu sync.Mutex
	var wg sync.WaitGroup
	sem := make(chan struct{}, cfg.Parallel)
	self, _ := os.Executable()
	crashes := 0
	for bi, b := range batches {
		wg.Add(1)
		sem <- struct{}{}
		go func(bi int, b batch) {
			defer wg.Done()
			defer func() { <-sem }()
			from := b.from
			for from < b.to {
				if atomic.LoadInt32(&stallCount) >= maxStalls {
					// too many stuck cases already: do not burn hours of watchdog time, the run is
					// reported with what was observed (stalls are violations or inconclusive cases)
					atomic.AddInt32(&skippedBatches, 1)
					return
				}
				recs, crashed, next := runChild(cfg, self, tier, seed, work, bi, from, b.to, extraEnv, replay != "")
				mu.Lock()
				p.Records = append(p.Records, recs...)
				if crashed != nil {
					crashes++
					p.Violations = append(p.Violations, crashed...)
				}
				mu.Unlock()
				from = next
			}
		}(bi, b)
	}
	wg.Wait()

	// Aggregate
	sigs := map[string]struct{}{}
	var samples []json.RawMessage
	sort.Slice(p.Records, func(i, j int) bool { return p.Records[i].Case < p.Records[j].Case })
	for _, r := range p.Records {
		for _, s := range r.Sigs {
			sigs[s] = struct{}{}
		}
		for k, v := range r.Counters {
			p.Counters[k] += v
		}
		for k, v := range r.Sets {
			if p.Sets[k] == nil {
				p.Sets[k] = map[string]struct{}{}
			}
			for _, x := range strings.Split(v, "\x00") {
				p.Sets[k][x] = struct{}{}
			}
		}
		for _, v := range r.Violations {
			v.Info = r.Info
			p.Violations = append(p.Violations, v)
		}
		if r.Inconcl != "" {
			p.Inconcl = append(p.Inconcl, fmt.Sprintf("case %d (%s): %s", r.Case, r.Info, r.Inconcl))
		}
		if r.Skipped != "" {
			p.Skipped = append(p.Skipped, fmt.Sprintf("case %d: %s", r.Case, r.Skipped))
		}
	}
	// samples: spread over the case list, prefer non-trivial ones
	step := len(p.Records)/6 + 1
	for i := 0; i < len(p.Records) && len(samples) < 6; i += step {
		for j := i; j < len(p.Records) && j < i+step; j++ {
			if p.Records[j].Sample != nil && len(p.Records[j].Sigs) > 0 {
				samples = append(samples, p.Records[j].Sample)
				break
			}
		}
	}
	if len(samples) == 0 {
		for _, r := range p.Records {
			if r.Sample != nil {
				samples = append(samples, r.Sample)
				if len(samples) >= 3 {
					break
				}
			}
		}
	}

	// Race detector logs
	races, harnessRaces := scanRaceLogs(work)
	p.Counters["race_reports_desync"] = int64(len(races))
	p.Counters["race_reports_harness_only"] = int64(len(harnessRaces))
	if cfg.RaceIsViolation {
		for sig, text := range races {
			p.Violations = append(p.Violations, Violation{Class: "race:" + sig, Detail: text, Case: -1})
		}
	}

	if cfg.ParentFinish != nil {
		cfg.ParentFinish(p)
	}

	// Known findings
	known := loadKnownFindings(cfg.Prop)
	var unknown []Violation
	knownSeen := map[string]int{}
	for _, v := range p.Violations {
		matched := false
		for _, k := range known {
			if k.matches(v) {
				knownSeen[k.line]++
				matched = true
				break
			}
		}
		if !matched {
			unknown = append(unknown, v)
		}
	}
	for line, cnt := range knownSeen {
		fmt.Printf("KNOWN-FINDING: property=%s %s (observed %d times in this run)\n", cfg.Prop, line, cnt)
	}

	// Evidence
	cov := map[string]interface{}{
		"evaluations":                           len(p.Records),
		"distinct_nontrivial":                   len(sigs),
		"rule":                                  cfg.Rule,
		"samples":                               samples,
		"cases_planned":                         n,
		"child_crashes":                         crashes,
		"watchdog_firings":                      atomic.LoadInt32(&stallCount),
		"batches_skipped_after_too_many_stalls": atomic.LoadInt32(&skippedBatches),
		"inconclusive_cases":                    len(p.Inconcl),
		"skipped_cases":                         len(p.Skipped),
		"skipped_reasons":                       firstN(p.Skipped, 5),
		"counters":                              p.Counters,
		"known_findings_seen":                   knownSeen,
	}
	dist := map[string]int{}
	for k, v := range p.Sets {
		dist[k] = len(v)
	}
	cov["distinct"] = dist
	for k, v := range p.Extra {
		cov[k] = v
	}
	if samples == nil {
		cov["samples"] = []string{}
	}
	ev := map[string]interface{}{
		"property_id": cfg.Prop,
		"tier":        tier,
		"seed":        seed,
		"level":       cfg.Level,
		"coverage":    cov,
		"assumptions": cfg.Assumptions,
		"wall_s":      time.Since(start).Seconds(),
		"violations":  len(unknown),
	}
	if replay == "" {
		os.MkdirAll(filepath.Join(VerifDir, "evidence"), 0755)
		b, _ := json.MarshalIndent(ev, "", " ")
		if err := os.WriteFile(filepath.Join(VerifDir, "evidence", cfg.Prop+".json"), append(b, '\n'), 0644); err != nil {
			fmt.Fprintln(os.Stderr, "cannot write evidence:", err)
			return 2
		}
	}

	fmt.Printf("property=%s tier=%s seed=%d cases=%d nontrivial_distinct=%d violations=%d known=%d inconclusive=%d wall=%.1fs\n",
		cfg.Prop, tier, seed, len(p.Records), len(sigs), len(unknown), len(p.Violations)-len(unknown), len(p.Inconcl), time.Since(start).Seconds())
	var keys []string
	for k := range p.Counters {
		keys = append(keys, k)
	}
	sort.Strings(keys)
	for _, k := range keys {
		fmt.Printf("  %s=%d\n", k, p.Counters[k])
	}
	for k, v := range dist {
		fmt.Printf("  distinct[%s]=%d\n", k, v)
	}

	if len(unknown) > 0 {
		keepWork = os.Getenv("VERIF_KEEP_WORK") != ""
		dir := filepath.Join(VerifDir, "replays", cfg.Prop)
		os.MkdirAll(dir, 0755)
		// one replay file per class (first witness), max 20 lines
		seen := map[string]bool{}
		printed := 0
		for _, v := range unknown {
			if seen[v.Class] {
				continue
			}
			seen[v.Class] = true
			name := filepath.Join(dir, fmt.Sprintf("seed%d-%s-case%d-%s.json", seed, tier, v.Case, sanitize(v.Class)))
			rf := replayFile{Prop: cfg.Prop, Tier: tier, Seed: seed, Case: v.Case, Info: v.Info, Violation: v,
				Cmd: fmt.Sprintf("./check %s %s --replay %s", cfg.Prop, tier, name)}
			b, _ := json.MarshalIndent(rf, "", " ")
			os.WriteFile(name, b, 0644)
			if printed < 20 {
				fmt.Printf("VIOLATION property=%s replay=%s\n", cfg.Prop, name)
				d := v.Detail
				if len(d) > 600 {
					d = d[:600] + "..."
				}
				fmt.Printf("  class=%s case=%d info=%s\n  %s\n", v.Class, v.Case, v.Info, strings.ReplaceAll(d, "\n", "\n  "))
				printed++
			}
		}
		return 1
	}
	if len(harnessRaces) > 0 {
		for _, t := range harnessRaces {
			fmt.Fprintf(os.Stderr, "harness-only data race (check is broken):\n%s\n", t)
			break
		}
		fmt.Printf("INCONCLUSIVE property=%s data race inside the harness\n", cfg.Prop)
		return 2
	}
	if atomic.LoadInt32(&skippedBatches) > 0 {
		p.Inconcl = append(p.Inconcl, fmt.Sprintf("%d batches not run after %d watchdog firings", skippedBatches, stallCount))
	}
	if lim := max(50, len(p.Records)/20); len(p.Skipped) > lim {
		p.Inconcl = append(p.Inconcl, fmt.Sprintf("%d cases could not be set up (limit %d), first: %s", len(p.Skipped), lim, p.Skipped[0]))
	}
	if len(p.Skipped) > 0 {
		fmt.Printf("  skipped=%d (could not be set up; first: %s)\n", len(p.Skipped), firstLine(p.Skipped[0]))
	}
	if len(p.Inconcl) > 0 {
		for i, s := range p.Inconcl {
			if i < 10 {
				fmt.Printf("INCONCLUSIVE property=%s %s\n", cfg.Prop, s)
			}
		}
		return 2
	}
	if replay == "" && len(sigs) < cfg.MinNonTrivial {
		fmt.Printf("INCONCLUSIVE property=%s only %d distinct non-trivial cases observed (minimum %d)\n", cfg.Prop, len(sigs), cfg.MinNonTrivial)
		return 2
	}
	return 0
}

func sanitize(s string) string {
	s = regexp.MustCompile(`[^A-Za-z0-9_.-]+`).ReplaceAllString(s, "_")
	if len(s) > 60 {
		s = s[:60]
	}
	return s
}

// runChild runs cases [from,to) in a child; returns records, crash violations (if the child died) and the next case to run.
func runChild(cfg *Config, self, tier string, seed int64, work string, bi, from, to int, extraEnv []string, replay bool) ([]Record, []Violation, int) {
	return runChildOpt(cfg, self, tier, seed, work, bi, from, to, extraEnv, replay, false)
}

// spinsInDesync: the dump shows a goroutine that is running or runnable with a desync frame on its stack.
func spinsInDesync(dump string) bool {
	for _, g := range strings.Split(dump, "\n\ngoroutine ") {
		nl := strings.Index(g, "\n")
		if nl < 0 {
			continue
		}
		hdr := g[:nl]
		if !(strings.Contains(hdr, "[running") || strings.Contains(hdr, "[runnable")) {
			continue
		}
		if strings.Contains(g, "github.com/folbricht/desync.") {
			return true
		}
	}
	return false
}

func runChildOpt(cfg *Config, self, tier string, seed int64, work string, bi, from, to int, extraEnv []string, replay bool, retry bool) ([]Record, []Violation, int) {
	cdir := filepath.Join(work, fmt.Sprintf("b%d-%d", bi, from))
	os.MkdirAll(cdir, 0755)
	out := filepath.Join(cdir, "out.jsonl")
	errf := filepath.Join(cdir, "stderr.txt")
	args := []string{"--child", "--from", strconv.Itoa(from), "--to", strconv.Itoa(to), "--tier", tier, "--seed", strconv.FormatInt(seed, 10), "--out", out, "--work", cdir}
	if replay {
		args = append(args, "--replay")
	}
	cmd := exec.Command(self, args...)
	ef, _ := os.Create(errf)
	cmd.Stderr = ef
	cmd.Stdout = ef
	cmd.Env = append(os.Environ(), extraEnv...)
	cmd.Env = append(cmd.Env, "GORACE=halt_on_error=0 exitcode=0 log_path="+filepath.Join(work, "race"), "GOTRACEBACK=all")
	cmd.SysProcAttr = &syscall.SysProcAttr{Setpgid: true}
	if err := cmd.Start(); err != nil {
		ef.Close()
		return nil, []Violation{{Class: "harness-start-failed", Detail: err.Error(), Case: from}}, to
	}
	done := make(chan error, 1)
	go func() { done <- cmd.Wait() }()
	// Progress watchdog: the child appends a line to its log when a case starts and when it
	// ends. No growth of that log for CaseTimeout (generous: orders of magnitude above a
	// normal case) means the current case is stuck.
	timeout := cfg.CaseTimeout
	timedOut := false
	var werr error
	lastSize, lastChange := int64(-1), time.Now()
	tick := time.NewTicker(500 * time.Millisecond)
	defer tick.Stop()
wait:
	for {
		select {
		case werr = <-done:
			break wait
		case <-tick.C:
			if st, err := os.Stat(out); err == nil && st.Size() != lastSize {
				lastSize, lastChange = st.Size(), time.Now()
			}
			if time.Since(lastChange) > timeout {
				timedOut = true
				atomic.AddInt32(&stallCount, 1)
				syscall.Kill(cmd.Process.Pid, syscall.SIGQUIT)
				select {
				case werr = <-done:
				case <-time.After(20 * time.Second):
					syscall.Kill(-cmd.Process.Pid, syscall.SIGKILL)
					werr = <-done
				}
				break wait
			}
		}
	}
	ef.Close()
	// make sure no stray grandchildren survive
	syscall.Kill(-cmd.Process.Pid, syscall.SIGKILL)

	recs, lastStarted, lastInfo := readRecords(out)
	if werr == nil {
		if replay {
			b, _ := os.ReadFile(errf)
			os.Stderr.Write(b)
		}
		os.RemoveAll(cdir)
		return recs, nil, to
	}
	stderrB, _ := os.ReadFile(errf)
	stderr := string(stderrB)
	if len(stderr) > 200000 {
		stderr = stderr[:100000] + "\n...[cut]...\n" + stderr[len(stderr)-100000:]
	}
	caseIdx := lastStarted
	if caseIdx < 0 {
		caseIdx = from
	}
	finished := map[int]bool{}
	for _, r := range recs {
		finished[r.Case] = true
	}
	var viol []Violation
	class := ""
	switch {
	case strings.Contains(stderr, "all goroutines are asleep - deadlock!"):
		class = "deadlock"
		if !cfg.DeadlockIsViolation {
			class = "crash:deadlock"
		}
	case timedOut:
		if dumpIsDeadlock(stderr) {
			class = "hang"
		} else if (cfg.DeadlockIsViolation || cfg.SpinIsViolation) && spinsInDesync(stderr) && retry {
			// No progress for the whole watchdog period (orders of magnitude above a normal case), twice, in a fresh
			// process the second time, with a goroutine burning CPU inside desync code: reproducible non-termination
			// of an operation whose property promises termination.
			class = "spin"
		} else if (cfg.DeadlockIsViolation || cfg.SpinIsViolation) && spinsInDesync(stderr) && !retry {
			saveWitness(cfg.Prop, seed, caseIdx, "watchdog-first", stderr)
			os.RemoveAll(cdir)
			r2, v2, _ := runChildOpt(cfg, self, tier, seed, work, bi+1000000, caseIdx, caseIdx+1, extraEnv, replay, true)
			return append(recs, r2...), v2, caseIdx + 1
		} else {
			// inconclusive: report as a record
			w := saveWitness(cfg.Prop, seed, caseIdx, "watchdog", stderr)
			recs = append(recs, Record{Case: caseIdx, Info: lastInfo, Inconcl: "no progress for " + timeout.String() + " and the goroutine dump is not a logical deadlock (dump: " + w + ")"})
			return recs, nil, caseIdx + 1
		}
	case strings.Contains(stderr, "fatal error: checkptr"):
		class = "crash:checkptr"
	case strings.Contains(stderr, "panic:") || strings.Contains(stderr, "fatal error:"):
		class = "crash:panic"
	default:
		class = "crash:exit"
	}
	if cfg.CrashClass != nil {
		if c := cfg.CrashClass(lastInfo, stderr); c != "" {
			class = c
		}
	}
	if class == "crash:panic" && panicOutsideDesync(stderr) {
		// The panicking goroutine holds no frame of the code under test: the harness itself gave up (no free port,
		// no file descriptors, no space ...). That says nothing about the property: run the case once more alone,
		// and if it dies the same way again report it as inconclusive, never as a violation.
		w := saveWitness(cfg.Prop, seed, caseIdx, "harness-panic", stderr)
		os.RemoveAll(cdir)
		if !retry {
			time.Sleep(2 * time.Second)
			r2, v2, _ := runChildOpt(cfg, self, tier, seed, work, bi+2000000, caseIdx, caseIdx+1, extraEnv, replay, true)
			return append(recs, r2...), v2, caseIdx + 1
		}
		recs = append(recs, Record{Case: caseIdx, Info: lastInfo, Inconcl: "the harness panicked twice outside the code under test (" + firstLine(crashExcerpt(stderr)) + "; output: " + w + ")"})
		return recs, nil, caseIdx + 1
	}
	detail := crashExcerpt(stderr)
	if finished[caseIdx] {
		// died between cases (e.g. leaked goroutine panicking later): attribute to the batch
		detail = "(child died after finishing this case; a leaked goroutine of it or of an earlier case in the batch is to blame)\n" + detail
	}
	wpath := saveWitness(cfg.Prop, seed, caseIdx, class, stderr)
	viol = append(viol, Violation{Class: class, Detail: detail + "\nfull child output: " + wpath, Case: caseIdx, Info: lastInfo})
	os.RemoveAll(cdir)
	return recs, viol, caseIdx + 1
}

// panicOutsideDesync: the stack of the goroutine that panicked (the first one printed after the panic message) has no
// frame in the code under test.
func panicOutsideDesync(stderr string) bool {
	i := strings.Index(stderr, "panic:")
	if i < 0 || strings.Contains(stderr[:i], "fatal error:") {
		return false
	}
	rest := stderr[i:]
	g := strings.Index(rest, "\ngoroutine ")
	if g < 0 {
		return false
	}
	block := rest[g+1:]
	if e := strings.Index(block, "\n\n"); e >= 0 {
		block = block[:e]
	}
	return !strings.Contains(block, "github.com/folbricht/desync") && strings.Contains(block, "verif/")
}

func firstN(s []string, n int) []string {
	if len(s) > n {
		return s[:n]
	}
	return s
}

func firstLine(s string) string {
	if i := strings.IndexByte(s, '\n'); i >= 0 {
		return s[:i]
	}
	return s
}

func saveWitness(prop string, seed int64, caseIdx int, class, stderr string) string {
	dir := filepath.Join(VerifDir, "replays", prop)
	os.MkdirAll(dir, 0755)
	name := filepath.Join(dir, fmt.Sprintf("seed%d-case%d-%s.stderr.txt", seed, caseIdx, sanitize(class)))
	os.WriteFile(name, []byte(stderr), 0644)
	return name
}

func crashExcerpt(stderr string) string {
	idx := strings.Index(stderr, "panic:")
	if j := strings.Index(stderr, "fatal error:"); j >= 0 && (idx < 0 || j < idx) {
		idx = j
	}
	if idx < 0 {
		if len(stderr) > 1500 {
			return stderr[len(stderr)-1500:]
		}
		return stderr
	}
	e := stderr[idx:]
	if len(e) > 2500 {
		e = e[:2500]
	}
	return e
}

// stall accounting (watchdog firings) across all children of a run
var (
	stallCount     int32
	skippedBatches int32
)

const maxStalls = 12

var goroutineHdr = regexp.MustCompile(`(?m)^goroutine (\d+) (?:gp=\S+ m=\S+ (?:mp=\S+ )?)?\[([^\]]*)\]:`)

// dumpIsDeadlock: every goroutine is blocked on a channel / lock / cond and none is runnable, running, in a syscall or waiting for IO or sleeping.
func dumpIsDeadlock(dump string) bool {
	ms := goroutineHdr.FindAllStringSubmatch(dump, -1)
	if len(ms) == 0 {
		return false
	}
	blocked := 0
	for _, m := range ms {
		st := m[2]
		if i := strings.Index(st, ","); i >= 0 {
			st = st[:i]
		}
		st = strings.TrimSpace(st)
		switch {
		case st == "chan receive", st == "chan send", st == "select", st == "select (no cases)", strings.HasPrefix(st, "sync."), st == "semacquire", st == "chan receive (nil chan)", st == "chan send (nil chan)":
			blocked++
		case st == "GC worker (idle)", st == "GC sweep wait", st == "GC scavenge wait", st == "finalizer wait", st == "force gc (idle)", st == "debug call", st == "trace reader (blocked)", st == "cleanup wait", st == "idle":
		case st == "syscall", st == "running", st == "runnable", st == "IO wait", st == "sleep":
			// The SIGQUIT handler itself runs on some goroutine/thread: "running" appears for the
			// goroutine that was interrupted only if it is really executing. signal.Notify loop is "syscall".
			// Be conservative: any of these means we cannot claim a logical deadlock, except the
			// parent's own watchdog goroutines which don't exist in the child.
			if st == "syscall" && strings.Contains(dump, "os/signal.signal_recv") && strings.Count(dump, "[syscall") == 1 {
				continue
			}
			return false
		default:
			return false
		}
	}
	return blocked > 0
}

// DumpIsStuckWaitingForChildren classifies the goroutine dump (SIGQUIT) of a command line process that runs helper
// processes (ssh sessions): true when no goroutine can run or is asleep - every one is blocked on a channel, a lock, or
// waits for input from / the exit of one of the process's own children, who only speak when spoken to. Together with
// the children being idle this is a deadlock across processes; the verdict is structural, the wall clock only decides
// when to look.
func DumpIsStuckWaitingForChildren(dump string) bool {
	blocks := strings.Split(dump, "\n\n")
	blocked := 0
	seen := 0
	for _, b := range blocks {
		m := goroutineHdr.FindStringSubmatch(b)
		if m == nil {
			continue
		}
		seen++
		st := m[2]
		if i := strings.Index(st, ","); i >= 0 {
			st = st[:i]
		}
		st = strings.TrimSpace(st)
		switch {
		case st == "chan receive", st == "chan send", st == "select", st == "select (no cases)", strings.HasPrefix(st, "sync."), st == "semacquire":
			blocked++
		case st == "GC worker (idle)", st == "GC sweep wait", st == "GC scavenge wait", st == "finalizer wait", st == "force gc (idle)", st == "cleanup wait", st == "idle":
		case st == "IO wait", st == "syscall":
			if strings.Contains(b, "os/exec.") || strings.Contains(b, "os/signal.") || strings.Contains(b, "os.(*Process)") {
				continue
			}
			return false
		case st == "running":
			// the goroutine that received the signal and writes the dump
			if strings.Contains(b, "os/signal.") || strings.Contains(b, "runtime.sigNoteSleep") || !strings.Contains(b, "github.com/folbricht/desync") {
				continue
			}
			return false
		default:
			return false
		}
	}
	return seen > 0 && blocked > 0
}

func readRecords(out string) (recs []Record, lastStarted int, lastInfo string) {
	lastStarted = -1
	f, err := os.Open(out)
	if err != nil {
		return
	}
	defer f.Close()
	sc := bufio.NewScanner(f)
	sc.Buffer(make([]byte, 1<<20), 64<<20)
	for sc.Scan() {
		line := sc.Text()
		switch {
		case strings.HasPrefix(line, "S "):
			parts := strings.SplitN(line[2:], " ", 2)
			lastStarted, _ = strconv.Atoi(parts[0])
			lastInfo = ""
		case strings.HasPrefix(line, "I "):
			lastInfo = line[2:]
		case strings.HasPrefix(line, "R "):
			var r Record
			if json.Unmarshal([]byte(line[2:]), &r) == nil {
				recs = append(recs, r)
			}
		}
	}
	return
}

// CaseRng returns the deterministic PRNG of a case.
func CaseRng(seed int64, i int) *rand.Rand {
	return rand.New(rand.NewSource(seed*1000003 + int64(i)*7919 + 12345))
}

var childOut *os.File

// LogInfo lets a case publish its parameters *before* running the code under test, so that
// a crash can be attributed with full parameters.
func (c *Ctx) LogInfo() {
	if childOut != nil {
		fmt.Fprintf(childOut, "I %s\n", strings.ReplaceAll(c.rec.Info, "\n", " "))
	}
}

func childMain(cfg *Config, args []string) {
	var from, to int
	var tier, out, work string
	var seed int64
	replay := false
	for i := 0; i < len(args); i++ {
		switch args[i] {
		case "--from":
			from, _ = strconv.Atoi(args[i+1])
			i++
		case "--to":
			to, _ = strconv.Atoi(args[i+1])
			i++
		case "--tier":
			tier = args[i+1]
			i++
		case "--seed":
			seed, _ = strconv.ParseInt(args[i+1], 10, 64)
			i++
		case "--out":
			out = args[i+1]
			i++
		case "--work":
			work = args[i+1]
			i++
		case "--replay":
			replay = true
		}
	}
	f, err := os.OpenFile(out, os.O_CREATE|os.O_WRONLY|os.O_APPEND, 0644)
	if err != nil {
		fmt.Fprintln(os.Stderr, err)
		os.Exit(3)
	}
	childOut = f
	c := &Ctx{Prop: cfg.Prop, Tier: tier, Seed: seed, WorkDir: work, Replay: replay}
	if cfg.Setup != nil {
		c.rec = &Record{Case: -1}
		cfg.Setup(c)
	}
	for i := from; i < to; i++ {
		fmt.Fprintf(f, "S %d\n", i)
		c.rec = &Record{Case: i}
		c.Rng = CaseRng(seed, i)
		cfg.Run(c, i)
		b, _ := json.Marshal(c.rec)
		var buf bytes.Buffer
		buf.WriteString("R ")
		buf.Write(b)
		buf.WriteString("\n")
		f.Write(buf.Bytes())
		os.RemoveAll(filepath.Join(work, fmt.Sprintf("case%d", i)))
	}
	f.Close()
	os.Exit(0)
}

// ---- race logs ----

var raceFrame = regexp.MustCompile(`(?m)^  ([^\s(]+)\(`)

// scanRaceLogs returns desync races (both stacks hold a desync frame) and harness-only races, keyed by a line-number-free signature.
func scanRaceLogs(work string) (desync map[string]string, harness map[string]string) {
	desync, harness = map[string]string{}, map[string]string{}
	files, _ := filepath.Glob(filepath.Join(work, "race.*"))
	for _, fn := range files {
		b, err := os.ReadFile(fn)
		if err != nil {
			continue
		}
		for _, block := range strings.Split(string(b), "==================") {
			if !strings.Contains(block, "WARNING: DATA RACE") {
				continue
			}
			// Split into the two access stacks (before the "Goroutine ... created at" parts)
			parts := regexp.MustCompile(`(?m)^(?:Previous |)(?:read|write|Read|Write|atomic read|atomic write)[^\n]*\n`).Split(block, -1)
			var accessStacks []string
			for _, p := range parts[1:] {
				if i := strings.Index(p, "\n\n"); i >= 0 {
					p = p[:i]
				}
				accessStacks = append(accessStacks, p)
			}
			both := len(accessStacks) >= 2
			var sigParts []string
			for _, st := range accessStacks {
				fr := raceFrame.FindAllStringSubmatch(st, -1)
				outer := ""
				has := false
				for _, m := range fr {
					if strings.Contains(m[1], "github.com/folbricht/desync") {
						has = true
						if outer == "" {
							outer = m[1]
						}
					}
				}
				if !has {
					both = false
				}
				sigParts = append(sigParts, outer)
			}
			sort.Strings(sigParts)
			sig := strings.Join(sigParts, "|")
			if both {
				if _, ok := desync[sig]; !ok {
					desync[sig] = block
				}
			} else {
				if _, ok := harness[sig]; !ok {
					harness[sig] = block
				}
			}
		}
	}
	return
}

// ---- known findings ----

type knownFinding struct {
	prop  string
	class string // exact class or prefix ending with *
	line  string
}

func (k knownFinding) matches(v Violation) bool {
	if strings.HasSuffix(k.class, "*") {
		return strings.HasPrefix(v.Class, strings.TrimSuffix(k.class, "*"))
	}
	return v.Class == k.class
}

// known_findings.txt lines:
//
//	known: property=C05 class=<class> <free text>
//	fixed: property=C01 <commit> <free text>       (suppresses nothing)
func loadKnownFindings(prop string) []knownFinding {
	b, err := os.ReadFile(filepath.Join(VerifDir, "known_findings.txt"))
	if err != nil {
		return nil
	}
	var out []knownFinding
	for _, line := range strings.Split(string(b), "\n") {
		line = strings.TrimSpace(line)
		if !strings.HasPrefix(line, "known:") {
			continue
		}
		rest := strings.TrimSpace(strings.TrimPrefix(line, "known:"))
		f := strings.Fields(rest)
		if len(f) < 2 || f[0] != "property="+prop || !strings.HasPrefix(f[1], "class=") {
			continue
		}
		out = append(out, knownFinding{prop: prop, class: strings.TrimPrefix(f[1], "class="), line: strings.Join(f[1:], " ")})
	}
	return out
}

// unmountUnder detaches every mount point below dir (deepest first).
func unmountUnder(dir string) {
	b, err := os.ReadFile("/proc/self/mounts")
	if err != nil {
		return
	}
	var mps []string
	for _, l := range strings.Split(string(b), "\n") {
		f := strings.Fields(l)
		if len(f) >= 2 && strings.HasPrefix(f[1], dir+"/") {
			mps = append(mps, strings.ReplaceAll(f[1], "\\040", " "))
		}
	}
	sort.Sort(sort.Reverse(sort.StringSlice(mps)))
	for _, m := range mps {
		syscall.Unmount(m, syscall.MNT_DETACH)
	}
	// ... and every loop device whose backing file lives below dir (a child that died while a case had one attached)
	if out, err := exec.Command("losetup", "-a").Output(); err == nil {
		for _, l := range strings.Split(string(out), "\n") {
			if i := strings.Index(l, ":"); i > 0 && strings.Contains(l, "("+dir+"/") {
				exec.Command("losetup", "-d", l[:i]).Run()
			}
		}
	}
}

// ---- helpers for workers ----

// BuildCLI builds the desync CLI from /repo's working tree with the given tags into work/name and returns its path.
func BuildCLI(work, name string, tags string, race bool) (string, error) {
	out := filepath.Join(work, name)
	args := []string{"build", "-o", out}
	if tags != "" {
		args = append(args, "-tags", tags)
	}
	if race {
		args = append(args, "-race")
	}
	if os.Getenv("VERIF_COVER") != "" {
		// tools/coverage.sh: which desync code do the workloads reach (never set by the registered commands)
		args = append(args, "-cover", "-coverpkg=github.com/folbricht/desync/...")
	}
	args = append(args, "./cmd/desync")
	cmd := exec.Command("go", args...)
	cmd.Dir = RepoDir
	cmd.Env = goEnv(false)
	b, err := cmd.CombinedOutput()
	if err != nil {
		return "", fmt.Errorf("building desync CLI: %v\n%s", err, b)
	}
	return out, nil
}

// BuildHelper builds a main package of the verif module into work/name.
func BuildHelper(work, name, pkg string, tags string) (string, error) {
	out := filepath.Join(work, name)
	args := []string{"build", "-o", out}
	if tags != "" {
		args = append(args, "-tags", tags)
	}
	args = append(args, pkg)
	cmd := exec.Command("go", args...)
	cmd.Dir = VerifDir
	cmd.Env = goEnv(true)
	b, err := cmd.CombinedOutput()
	if err != nil {
		return "", fmt.Errorf("building %s: %v\n%s", pkg, err, b)
	}
	return out, nil
}
